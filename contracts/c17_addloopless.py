"""C17 — loopless.add_loopless: the MILP of Schellenberger, Lewis, Palsson (2011), through the opaque expression algebra.

Docstring / source comments give the formulation: per INTERNAL (non-boundary) reaction i one binary indicator a_i,
    -M*(1 - a_i) <= v_i <= M*a_i                                   (row on_off_i:  -M <= v_i - M*a_i <= 0)
    -(M + 1)*a_i + 1 <= G_i <= -(M + 1)*a_i + M                     (row delta_g_range_i:  1 <= G_i + (M + 1)*a_i <= M)
and  N_int . G = 0  for a basis N_int of the null space of the internal stoichiometric matrix; M = the largest absolute bound.

Proved for a model with any number of reactions (all bounds finite, every reaction attached to the model):
  * INTERNAL: the reactions treated are exactly the non-boundary reactions, in model order: there is a strictly increasing
    enumeration src[0..m) of exactly the positions of the non-boundary reactions (each one listed, nothing else);
  * M is the largest |lb|, |ub| over ALL reactions of the model (spec constant defined by axiom, as in add_mip_obj) - hence >= every
    bound of every internal reaction;
  * the FIRST call model.add_cons_vars(L) hands over exactly L = [a_0, on_off_0, G_0, range_0, a_1, ...] (len 4m) with, for r the j-th
    internal reaction,
        a_j     = Variable("indicator_" + r.id, type="binary")
        on_off_j = Constraint(flux_expression(r) - M * a_j, lb=-M, ub=0, name="on_off_" + r.id)
        G_j     = Variable("delta_g_" + r.id)
        range_j = Constraint(G_j + (M + 1) * a_j, lb=1, ub=M, name="delta_g_range_" + r.id)
    (flux_expression(r) = 1.0*forward - 1.0*reverse: the getter is executed);
  * NULL SPACE: the rows iterated are those of  nullspace(S[:, array(<list>)]).T  with S = create_stoichiometric_matrix(model);
    for EVERY row k (loop invariant): one constraint Constraint(Zero, lb=0, ub=0, name="nullspace_constraint_" + str(k)) is added
    through model.add_cons_vars([..]), then model.constraints[<that name>].set_linear_coefficients(D) is called with D holding
    exactly the keys  model.variables["delta_g_" + r_p.id]  for the internal positions p with  abs(row[p]) > zero_cutoff  (r_p the
    p-th internal reaction, row[p] the p-th entry: the COLUMN order of the null-space basis is the order of `internal`), each with
    a value row[q] of a position q that produces that key.
  A model without reactions raises ValueError (max() of an empty sequence): stated as a case.
NOT proved (stated): that numpy.array(<python list>) selects exactly the internal columns (the conversion of the list to an array
is an opaque constant), nullspace (SVD) and the thresholding's numerical adequacy, normalize_cutoff, that the MILP's feasible set
is the loop-free flux set (the paper's theorem), optlang's reading of Constraint(expr, lb, ub).
Lemmas (LRA) over the formulation: a = 1 gives 0 <= v <= M and -M <= G <= -1; a = 0 gives -M <= v <= 0 and 1 <= G <= M; hence
v > 0 forces G < 0 and v < 0 forces G > 0 (the sign coupling the null-space argument needs), and every flux within the
reaction's own bounds stays admissible for a suitable a (M >= |lb|, |ub|).
"""
import ast
import z3
import cobra  # noqa
from .common import *  # noqa
from . import c15_dictlist  # noqa
from . import c01_lp as C1
from . import c09_room as CR
from . import c17_cyclefree as CF
from pyvc import npalg as N
from pyvc import builtins as B
from pyvc.engine import STR_CONCAT
from pyvc.values import VReal, xr_eq, xr_le, id_lit

ML = CF.ML
KEY = "add_loopless"
ZERO = z3.Const("np:Zero", N.NP)
STR_OF_INT = z3.Function("str_of_int", z3.IntSort(), Id)            # str(i) for an int: an (injective) function of i, opaque here
Mk, Mv, Mw = z3.Int("ll_M_k"), z3.Real("ll_M_v"), z3.Int("ll_M_attained_at")
M = VReal(Mk, Mv)
NPSet = z3.ArraySort(N.NP, z3.BoolSort())
NPMap = z3.ArraySort(N.NP, N.NP)
I_NP, I_SET, I_MAP = z3.ArraySort(I, N.NP), z3.ArraySort(I, NPSet), z3.ArraySort(I, NPMap)


def _model_t():
    return TObj("Model", {"reactions": TDictList("Reaction"), "problem": N.TNp(), "variables": N.TNp(), "constraints": N.TNp()})


def _m(E, st=None):
    return (st or E.s0).objs[E["model"].oid]


def _rx(E):
    return L(E.s0, _m(E)["attr:reactions"])


def _abs(x):
    return VReal(z3.If(x.k != 0, z3.IntVal(1), z3.IntVal(0)), z3.If(x.v < 0, -x.v, x.v))


def _axioms(E):
    """definition of M = max { |lb(r)|, |ub(r)| : r in model.reactions } over the entry heap (exists, unique: finite non-empty list)"""
    n, e = _rx(E)
    j = qv("mj")
    lb, ub = C1.lbub(E, E.s0, e[j])
    lw, uw = C1.lbub(E, E.s0, e[Mw])
    return [z3.Implies(n > 0, z3.And(
        Mk >= -1, Mk <= 1,
        FA([j], z3.Implies(z3.And(0 <= j, j < n), z3.And(xr_le(_abs(lb), M), xr_le(_abs(ub), M))), patterns=[e[j]]),
        0 <= Mw, Mw < n, z3.Or(xr_eq(_abs(lw), M), xr_eq(_abs(uw), M))))]


# ---------------------------------------------------------------- ghost records
def _ns(st):
    """null-space phase: (count, constraint added, constraint looked up, key set of the coefficient dict, its values), per row"""
    return st.ghost.get("ns", (z3.IntVal(0), z3.Const("ns_cons0", I_NP), z3.Const("ns_tgt0", I_NP), z3.Const("ns_dom0", I_SET),
                               z3.Const("ns_val0", I_MAP)))


def _tr(st):
    return st.ghost.get("trace", ())


def _verifying(eng):
    return getattr(getattr(eng, "cur_contract", None), "key", None) == KEY


# ---------------------------------------------------------------- hooks
def global_hook(eng, name):
    if not _verifying(eng):
        return None
    if name == "Zero":
        return N.VNp(ZERO)
    if name in ("normalize_cutoff", "create_stoichiometric_matrix", "nullspace", "abs", "str"):
        return VFunc("abstract", name)
    return None


def call_abstract(eng, st, f, pos, kw):
    if not _verifying(eng):
        return None
    if f.a == "normalize_cutoff":
        res = N.VNp(fresh("np:zero_cutoff", N.NP))
        return [("ok", st.setghost("cutoff", (tuple(pos), tuple(sorted(kw)), res)), res)]
    if f.a == "create_stoichiometric_matrix":
        res = N.VNp(fresh("np:S", N.NP))
        return [("ok", st.setghost("S", (tuple(pos), tuple(sorted(kw)), res)), res)]
    if f.a == "nullspace":
        if len(pos) != 1 or kw or not isinstance(pos[0], N.VNp):
            return None
        return [("ok", st.setghost("nullspace_of", pos[0].t), N.app("nullspace", pos[0]))]
    if f.a == "abs":
        if len(pos) == 1 and isinstance(pos[0], N.VNp):
            return [("ok", st, N.app("abs", pos[0]))]
        return B.bi_abs(eng, st, pos, kw)
    if f.a == "str":
        if len(pos) == 1 and not kw and isinstance(pos[0], VInt):
            return [("ok", st, VStr(STR_OF_INT(pos[0].t)))]
        return B.bi_str(eng, st, pos, kw)
    return None


def call_method_hook(eng, st, recv, name, pos, kw):
    if not _verifying(eng):
        return None
    if isinstance(recv, VObj) and recv.cls == "Model" and name == "add_cons_vars":
        what = pos[0] if len(pos) == 1 and not kw else None
        rec = st.objs[what.oid] if isinstance(what, VObj) and what.kind == "list" else None
        if rec is not None and rec.get("ekind") == "np" and len(_tr(st)) == 1 and z3.is_int_value(z3.simplify(rec["len"])) \
                and z3.simplify(rec["len"]).as_long() == 1:
            # null-space phase: [one constraint], recorded under the running row count
            cnt, cons, tgt, dom, val = _ns(st)
            return [("ok", st.setghost("ns", (cnt, z3.Store(cons, cnt, z3.Select(rec["elem"], 0)), tgt, dom, val)), NONE)]
        snap = (rec["len"], rec["elem"], rec["ekind"]) if rec is not None else None
        return [("ok", st.setghost("trace", _tr(st) + (("add_cons_vars", recv, snap, tuple(sorted(kw)), len(pos)),)), NONE)]
    if isinstance(recv, N.VNp) and name == "set_linear_coefficients":
        return _set_coefficients(eng, st, recv, pos, kw)
    return None


def call_object_hook(eng, st, f, pos, kw):
    # <opaque constraint>.set_linear_coefficients(D): the attribute is read first, then called
    if _verifying(eng) and isinstance(f, N.VNp) and z3.is_app(f.t) and f.t.decl().name() == "np:attr.set_linear_coefficients/1":
        return _set_coefficients(eng, st, N.VNp(f.t.arg(0)), pos, kw)
    return None


def _set_coefficients(eng, st, recv, pos, kw):
    """recorded under the running row count: the constraint object addressed and the dictionary (key set, values) handed over"""
    d = pos[0] if len(pos) == 1 and not kw else None
    rec = st.objs[d.oid] if isinstance(d, VObj) and d.kind == "dict" else None
    if rec is None or rec.get("lazy") or rec.get("pure") or rec.get("kkind") != "np" or rec.get("vkind") != "np":
        raise Unsupported("set_linear_coefficients needs a {variable: entry} dictionary of opaque terms")
    cnt, cons, tgt, dom, val = _ns(st)
    return [("ok", st.setghost("ns", (cnt + 1, cons, z3.Store(tgt, cnt, recv.t), z3.Store(dom, cnt, rec["dom"]),
                                      z3.Store(val, cnt, rec["val"]))), NONE)]


def getattr_hook(eng, st, v, name):
    if _verifying(eng) and isinstance(v, VRef) and v.cls == "Reaction" and name == "boundary":
        # Reaction.boundary: the ghost flag of c17_cyclefree's assumed getter contract, as a TERM (usable inside a comprehension)
        return [("ok", st, VBool(z3.Select(eng.heap_arr(st, "is_boundary"), v.t)))]
    return None


def getitem_hook(eng, st, obj, idx):
    """model.reactions[i] for an int i: DictList.__getitem__ by its contract (proved under C15: the element at the normalised position,
    IndexError outside the range), as a TERM instead of a fresh result constant (usable inside a comprehension)"""
    if _verifying(eng) and isinstance(obj, VObj) and obj.cls == "DictList" and isinstance(idx, VInt):
        rec = st.objs[obj.oid]
        n, e = rec["len"], rec["elem"]
        return [("ok", s2, VRef(z3.Select(e, norm(idx.t, n)), "Reaction")) if ok else eng.raise_(s2, "IndexError")
                for ok, s2 in eng.branch(st, z3.And(-n <= idx.t, idx.t < n))]
    return None


def list_display(eng, st, vs):
    if _verifying(eng) and vs and all(isinstance(x, N.VNp) for x in vs):
        return [B.list_from_values(eng, st, vs, ekind="np")]
    return None


def binop_hook(eng, st, op, a, b):
    if _verifying(eng):
        return CR.binop_hook(eng, st, op, a, b)          # 1.0 * forward_variable: a reaction's Variable inside an expression
    return None


def iter_hook(eng, st, v):
    """for i, row in enumerate(n_int): the rows of an opaque array - row k is n_int[k], there are len(n_int) >= 0 of them"""
    if _verifying(eng) and isinstance(v, N.VNp):
        n = N.np_len(v.t)
        seq = VSeq(n, lambda s, i, v=v: N.app("getitem", v, VInt(i)), tag="nprows")
        return [("ok", st.assume(n >= 0).setghost("rows_of", v.t), seq)]
    return None


def joined_str_hook(eng, st, node, vs):
    """f"literal{expr}...": the concatenation of the literal pieces and the (string-valued, unformatted) fields"""
    if not _verifying(eng):
        return None
    it, cur = iter(vs), None
    for part in node.values:
        if isinstance(part, ast.Constant) and isinstance(part.value, str):
            v = VConc(part.value)
        elif isinstance(part, ast.FormattedValue) and part.conversion == -1 and part.format_spec is None:
            v = next(it)
            if not (isinstance(v, VStr) or (isinstance(v, VConc) and isinstance(v.py, str))):
                return None
        else:
            return None
        if cur is None:
            cur = v
        elif isinstance(cur, VConc) and isinstance(v, VConc):
            cur = VConc(cur.py + v.py)
        else:
            cur = VStr(STR_CONCAT(unwrap(cur, "id"), unwrap(v, "id")))
    return [("ok", st, cur)] if cur is not None else None


HOOKS = chain_hooks({"global": global_hook, "call_abstract": call_abstract, "call_method": call_method_hook, "call_object": call_object_hook, "list_display": list_display,
                     "getattr": getattr_hook, "getitem": getitem_hook, "binop": binop_hook, "iter": iter_hook, "joined_str": joined_str_hook}, N.HOOKS)


# ---------------------------------------------------------------- the formulation, as terms
def _prob(E):
    return _m(E)["attr:problem"].t


def _name(E, prefix, r):
    return N.of_id(STR_CONCAT(id_lit(prefix), idarr(E, E.s0)[r]))


def _int(k):
    return N.lift(VInt(k))


def indicator(E, r):
    return N.term("call(type)", N.term("attr.Variable", _prob(E)), _name(E, "indicator_", r), N.lift(VConc("binary")))


def on_off(E, r):
    body = N.term("sub", CR.flux_expression(r), N.term("mul", N.lift(M), indicator(E, r)))
    return N.term("call(lb,name,ub)", N.term("attr.Constraint", _prob(E)), body, N.lift(VReal(-Mk, -Mv)), _name(E, "on_off_", r), _int(0))


def delta_g(E, r):
    return N.term("call", N.term("attr.Variable", _prob(E)), _name(E, "delta_g_", r))


def delta_g_range(E, r):
    body = N.term("add", delta_g(E, r), N.term("mul", N.lift(VReal(0, Mv + 1)), indicator(E, r)))
    return N.term("call(lb,name,ub)", N.term("attr.Constraint", _prob(E)), body, _int(1), _name(E, "delta_g_range_", r), N.lift(M))


def _internal(st):
    """(m, src, dst): the increasing enumeration of the non-boundary positions built by the list comprehension (ghost witnesses)"""
    ks = [k for k in st.ghost if isinstance(k, tuple) and len(k) == 2 and k[0] == "filter"]
    if len(ks) != 1:
        return None
    src, dst, n = st.ghost[ks[0]]
    return z3.Int(ks[0][1]), src, dst


def _enumeration_facts(E, m, src, dst):
    n, e = _rx(E)
    bnd = E.eng.heap_arr(E.s0, "is_boundary")
    j, j2, i = qv("ej"), qv("ek"), qv("ei")
    return [z3.And(0 <= m, m <= n),
            FA([j], z3.Implies(z3.And(0 <= j, j < m), z3.And(0 <= src[j], src[j] < n, z3.Not(bnd[e[src[j]]]))), patterns=[src[j]]),
            FA([j2], z3.Implies(z3.And(0 <= j2, j2 + 1 < m), src[j2] < src[j2 + 1]), patterns=[src[j2 + 1]]),
            FA([i], z3.Implies(z3.And(0 <= i, i < n, z3.Not(bnd[e[i]])), z3.And(0 <= dst[i], dst[i] < m, src[dst[i]] == i)),
               patterns=[dst[i]])]


def _blocks(E, elem, upto, src):
    n, e = _rx(E)
    j = qv("bj")
    r = e[src[j]]
    return FA([j], z3.Implies(z3.And(0 <= j, j < upto),
                              z3.And(elem[4 * j] == indicator(E, r), elem[4 * j + 1] == on_off(E, r),
                                     elem[4 * j + 2] == delta_g(E, r), elem[4 * j + 3] == delta_g_range(E, r))), patterns=[src[j]])


def _ns_name(k):
    return N.of_id(STR_CONCAT(id_lit("nullspace_constraint_"), STR_OF_INT(k)))


def _rows_done(E, st, upto, rows, cutoff, m, src):
    """for every row k < upto: the constraint added, the constraint whose coefficients are set, and the coefficient dictionary"""
    n, e = _rx(E)
    mo = _m(E)
    cnt, cons, tgt, dom, val = _ns(st)
    k, x, p, p2, q = qv("rk"), qv("rx", N.NP), qv("rp"), qv("rp2"), qv("rq")
    row = N.term("getitem", rows, N.of_int(k))
    entry = lambda ix: N.term("getitem", row, N.of_int(ix))                                          # noqa
    keep = lambda ix: N.truthy(N.term("gt", N.term("abs", entry(ix)), cutoff))                        # noqa
    dgv = lambda ix: N.term("getitem", mo["attr:variables"].t, _name(E, "delta_g_", e[src[ix]]))      # noqa
    want_cons = N.term("call(lb,name,ub)", N.term("attr.Constraint", _prob(E)), ZERO, _int(0), _ns_name(k), _int(0))
    produced = z3.Exists([p], z3.And(0 <= p, p < m, keep(p), x == dgv(p)))
    valued = z3.Exists([q], z3.And(0 <= q, q < m, keep(q), x == dgv(q), val[k][x] == entry(q)))
    return z3.And(cnt == upto,
                  FA([k], z3.Implies(z3.And(0 <= k, k < upto), z3.And(
                      cons[k] == want_cons, tgt[k] == N.term("getitem", mo["attr:constraints"].t, _ns_name(k)),
                      FA([p2], z3.Implies(z3.And(0 <= p2, p2 < m, keep(p2)), dom[k][dgv(p2)]), patterns=[src[p2]]),
                      FA([x], z3.Implies(dom[k][x], z3.And(produced, valued)), patterns=[dom[k][x]]))), patterns=[cons[k]]))


# ---------------------------------------------------------------- invariants
def _big_m_is_M(Lc):
    b = Lc.var("max_bound")
    return z3.And(xr_eq(b, M), b.k == 0) if isinstance(b, VReal) else z3.BoolVal(False)


def _inv_build(E, Lc):
    w = _internal(Lc.st)
    ta, il = Lc.var("to_add"), Lc.var("internal")
    if w is None or not (isinstance(ta, VObj) and isinstance(il, VObj)):
        return z3.BoolVal(False)
    m, src, dst = w
    rt, ri = Lc.st.objs[ta.oid], Lc.st.objs[il.oid]
    j = qv("ij")
    link = z3.And(ri["len"] == m, Lc.n == m, FA([j], z3.Implies(z3.And(0 <= j, j < m), ri["elem"][j] == src[j]), patterns=[ri["elem"][j]]))
    if rt["ekind"] != "np":
        return z3.And(link, _big_m_is_M(Lc), Lc.i == 0, rt["len"] == 0)
    return z3.And(link, _big_m_is_M(Lc), rt["len"] == 4 * Lc.i, _blocks(E, rt["elem"], Lc.i, src))


def _inv_rows(E, Lc):
    w = _internal(Lc.st)
    cut = Lc.st.ghost.get("cutoff")
    il = Lc.var("internal")
    if w is None or cut is None or not isinstance(il, VObj) or Lc.st.ghost.get("rows_of") is None:
        return z3.BoolVal(False)
    m, src, dst = w
    ri = Lc.st.objs[il.oid]
    j = qv("ij")
    link = z3.And(ri["len"] == m, FA([j], z3.Implies(z3.And(0 <= j, j < m), ri["elem"][j] == src[j]), patterns=[ri["elem"][j]]))
    return z3.And(link, _rows_done(E, Lc.st, Lc.i, Lc.st.ghost["rows_of"], cut[2].t, m, src))


def _mod_build(E, Lc):
    return [("list", Lc.var("to_add"), "np")]


def _mod_rows(E, Lc):
    return [("ghost", "ns", lambda st: (fresh("ns_cnt", I), fresh("ns_cons", I_NP), fresh("ns_tgt", I_NP), fresh("ns_dom", I_SET),
                                        fresh("ns_val", I_MAP)))]


# ---------------------------------------------------------------- post-condition
def _is_model(E, v):
    return isinstance(v, VObj) and v.oid == E["model"].oid


def _null_space_source(E, st):
    """n_int = nullspace(S[:, numpy.array(X)]).T with S = create_stoichiometric_matrix(model); X (the python list as an array
    argument) is an opaque constant: WHICH columns is not proved"""
    S, arg, rows = st.ghost.get("S"), st.ghost.get("nullspace_of"), st.ghost.get("rows_of")
    if S is None or arg is None or rows is None or not (len(S[0]) == 1 and _is_model(E, S[0][0]) and not S[1]):
        return None
    try:
        x = arg.arg(1).arg(1).arg(0)          # getitem(S, tuple(slice(..), numpy.array(X)))
    except Exception:  # noqa
        return None
    none = N.lift(NONE)
    cols = N.term("tuple", N.term("slice", none, none, none), N.term("numpy.array", x))
    return z3.And(arg == N.term("getitem", S[2].t, cols), rows == N.term("attr.T", N.term("nullspace", arg)))


def _post(E):
    st = E.s1
    w, cut, tr = _internal(st), st.ghost.get("cutoff"), _tr(st)
    src_ok = _null_space_source(E, st)
    if w is None or cut is None or src_ok is None or len(tr) != 1 or tr[0][0] != "add_cons_vars":
        return z3.BoolVal(False)
    _, recv, snap, kws, npos = tr[0]
    cpos, ckws, cres = cut
    if not (_is_model(E, recv) and snap is not None and snap[2] == "np" and not kws and npos == 1
            and len(cpos) == 2 and _is_model(E, cpos[0]) and cpos[1] is E["zero_cutoff"] and not ckws):
        return z3.BoolVal(False)
    m, src, dst = w
    ln, elem, _ = snap
    rows = st.ghost["rows_of"]
    return z3.And(*(_enumeration_facts(E, m, src, dst) + [ln == 4 * m, _blocks(E, elem, m, src), src_ok,
                                                          _rows_done(E, st, N.np_len(rows), rows, cres.t, m, src)]))


def _pre(E):
    dl = _m(E)["attr:reactions"]
    n, e = L(E.s0, dl)
    j = qv("pj")
    lb, ub = C1.lbub(E, E.s0, e[j])
    return z3.And(WF(E, E.s0, dl), FA([j], z3.Implies(z3.And(0 <= j, j < n), z3.And(C1.model_of(E, E.s0, e[j]) != NULL, lb.k == 0, ub.k == 0)),
                                      patterns=[e[j]]))


def _mod(E):
    return [("ghost", "trace", lambda st: ()), ("ghost", "ns", lambda st: None), ("ghost", "cutoff", lambda st: None),
            ("ghost", "S", lambda st: None), ("ghost", "nullspace_of", lambda st: None), ("ghost", "rows_of", lambda st: None)]


_zc = TNone()
_zc.default = NONE
REG.add(Contract(ML, "add_loopless", "C17", [("model", _model_t()), ("zero_cutoff", _zc)], [
    Case("has_reactions", requires=lambda E: _rx(E)[0] > 0, ensures=_post),
    Case("no_reactions", requires=lambda E: _rx(E)[0] <= 0, raises="ValueError"),
], pre=_pre, modifies=_mod, axioms=_axioms, key=KEY,
    loops={0: LoopSpec(_inv_build, _mod_build), 1: LoopSpec(_inv_rows, _mod_rows)},
    note="all bounds finite (the code computes max_bound + 1) and every reaction attached to the model; zero_cutoff = None (a given "
         "cutoff is only passed to normalize_cutoff); M is a spec constant DEFINED by axiom as the largest |bound| over all "
         "reactions; normalize_cutoff, create_stoichiometric_matrix, nullspace, numpy.array(list) are opaque"))


def lemmas():
    from pyvc.engine import Obl
    v, g, a, m, lb, ub = z3.Reals("l_v l_G l_a l_M l_lb l_ub")
    rows = [-m <= v - m * a, v - m * a <= 0, 1 <= g + (m + 1) * a, g + (m + 1) * a <= m]
    dom = [m >= 0, z3.Or(a == 0, a == 1)]
    return [Obl("C17/lemma/add_loopless/indicator-one-forward-flux-negative-dG", dom + rows + [a == 1], z3.And(0 <= v, v <= m, -m <= g, g <= -1), "lemma"),
            Obl("C17/lemma/add_loopless/indicator-zero-backward-flux-positive-dG", dom + rows + [a == 0], z3.And(-m <= v, v <= 0, 1 <= g, g <= m), "lemma"),
            Obl("C17/lemma/add_loopless/flux-sign-opposes-dG-sign", dom + rows, z3.And(z3.Implies(v > 0, g < 0), z3.Implies(v < 0, g > 0)), "lemma"),
            Obl("C17/lemma/add_loopless/every-flux-within-bounds-keeps-an-indicator",
                [lb <= v, v <= ub, -m <= lb, ub <= m, m >= 1],
                z3.Exists([a, g], z3.And(z3.Or(a == 0, a == 1), *rows)), "lemma")]
