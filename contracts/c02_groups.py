"""C02 — Model.remove_groups and Model.add_groups (without and with an open context).

Shape of the objects: the model `self` is MATERIALISED (get_context is proved for that shape; model.groups / metabolites / reactions
are DictLists with the C15 contracts); groups, metabolites, reactions are symbolic references whose fields live in the heap
(`_id`, `_model`, `_members`).  The undo functions registered with a context are a SYMBOLIC ghost trace with a witness map (as in
c02_update_genes): entry j = (kind, group, manager).

Model.remove_groups(group_list)   [keys: Model.remove_groups]
  Argument shapes covered (one case each, x no context / in a context): a list of Group objects of any length, a list of
  identifier strings of any length (the repair d046bb0: strings are resolved through model.groups.get_by_id), ONE Group object,
  ONE identifier string (the function wraps them into a list itself).  A list that MIXES objects and strings is not covered (the
  engine's lists have one element kind).
  With "handled" = the model's group registered (at entry) under an identifier that is listed, PROVED for any list / model size:
    * model.groups is well formed again; every remaining key was a key before and still finds the same object; the keys that are
      gone are exactly the listed identifiers that were present; the remaining groups keep their relative order;
    * `_model` of every handled group is None, no other `_model` pointer changes;
    * a listed group / identifier that is not in the model (or is listed a second time) changes nothing (only logger.warning);
    * nothing else changes: no group's member set, no identifier, no member of a group leaves the model (frame);
    * no context: nothing is registered anywhere; in a context: for every handled group exactly partial(model.groups.add, group)
      immediately followed by partial(setattr, group, "_model", model), both in the innermost context; nothing else, nothing twice.
  STATED precondition: model.groups well formed; for a list of OBJECTS: no element is None, and a listed object whose identifier is
  in the model IS the model's group of that identifier (for a foreign object with the same identifier DictList.remove raises
  ValueError after the earlier elements were handled: outside the contract).

Model.add_groups(group_list)   [keys: Model.add_groups]
  Argument shapes covered: a list of Group objects of any length, ONE Group object; x no context / in a context.  (A string, which
  the docstring also mentions, cannot work - the function reads `.id` of it - and is not covered.)
  With "joining" = the listed groups whose identifier is not in model.groups at entry, PROVED for any list / model / group size:
    * listed groups whose identifier is already present are ignored (nothing about them changes, only logger.warning);
    * model.groups keeps its old members in place and its new tail holds exactly the joining groups (each appended by DictList
      `+=`; their relative order is NOT stated), it is well formed again; every joining group points at the model; no other
      GROUP's `_model` changes; no member set, no identifier changes;
    * two joining groups with the same identifier: ValueError (raised by DictList(...) before anything is changed);
    * members: for every joining group g and every member m of g (in any enumeration order of the set): m is handed to
      self.add_metabolites([m]) exactly when m is a Metabolite and its identifier was not in model.metabolites at the moment m was
      examined, and to self.add_reactions([m]) exactly when m is a Reaction and its identifier was not in model.reactions at that
      moment; nothing else is handed to either function, nothing twice (ghost call trace with a witness map; "at the moment it was
      examined" is the recorded truth value of the very test the code makes - the two callees change the model in between);
    * no context: nothing is registered; in a context: for every joining group exactly partial(setattr, group, "_model", None)
      and, later, partial(model.groups.__isub__, [group]), both in the innermost context; nothing else, nothing twice (the position
      of these entries relative to the calls add_metabolites / add_reactions is not stated: two separate ghost traces).
  ASSUMED (abstract callees, recorded): Model.add_metabolites([m]) / Model.add_reactions([m]) may change model.metabolites and
  model.reactions arbitrarily (they are well-formed DictLists again) and the `_model` pointer of objects that are NOT groups; they
  change no identifier, no member set, not model.groups, not the context stack, no `_model` of a Group, and what THEY register with
  the context is their own business (not part of the trace).  `isinstance(member, Metabolite / Reaction)` is the class tag
  `class_tag(member)` (uninterpreted; the tags are pairwise different); STATED precondition: the listed groups carry the tag Group,
  no listed group is None, model.groups / metabolites / reactions are well formed.
Engine: NO change of pyvc.  `filter(f, <list>)` and `DictList(<list>)` get their meaning through the `global` / `call_abstract` hooks
  of this module (filter = the filtered comprehension of pyvc.comprehension with the disjunction of the true-returning paths of f as
  condition; DictList(...) = the C15 contract of DictList.__init__).
Wiring: keys KEYS = ["Model.remove_groups", "Model.add_groups"] (RG_KEYS / AG_KEYS), hook table HOOKS (one table for both keys).
"""
import z3
import cobra  # noqa
from .common import *  # noqa
from . import c15_dictlist as C15  # noqa
from . import c02_xref  # noqa
from . import c03_context as C3
from pyvc.values import ident_of

MM = "cobra/core/model.py"
REG.fields.update({"_model": "ref:Model", "_members": "set:ref:Object"})
REG.classes.setdefault("Group", ["Object"])
I_ = z3.IntSort()


def Hh(E, st, f):
    return E.eng.heap_arr(st, f)


def _me(E):
    return ident_of(E["self"].oid)


def _groups(E, st=None):
    st = st or E.s0
    return st.objs[E["self"].oid]["attr:groups"]


# ---------------------------------------------------------------- undo registrations: a symbolic ghost trace
# gtrace = (n, kind, arg, ctx, where): entry j < n is the registration, in manager ctx[j], of
#   kind 1  partial(model.groups.add, arg)            kind 2  partial(setattr, arg, "_model", model)         (remove_groups)
#   kind 3  partial(setattr, arg, "_model", None)      kind 4  partial(model.groups.__isub__, [arg])          (add_groups)
# where[c][g] = the position of the latest entry of kind c for group g (ghost witness map, updated at each registration)
K_ADD, K_SETM, K_UNSET, K_ISUB = 1, 2, 3, 4
WhereSort = z3.ArraySort(I_, z3.ArraySort(Ref, I_))
GT0 = (z3.IntVal(0), z3.K(I_, z3.IntVal(0)), z3.K(I_, NULL), z3.K(I_, NULL), z3.K(I_, z3.K(Ref, z3.IntVal(-1))))


def gtrace(st):
    return st.ghost.get("gtrace", GT0)


def havoc_gtrace(st):
    return (fresh("gt_n", I_), fresh("gt_kind", z3.ArraySort(I_, I_)), fresh("gt_arg", z3.ArraySort(I_, Ref)),
            fresh("gt_ctx", z3.ArraySort(I_, Ref)), fresh("gt_where", WhereSort))


def _classify(eng, st, f):
    """-> (kind, group term) of a registered undo function, or Unsupported"""
    model = eng.entry_args.get("self")
    if isinstance(f, VFunc) and f.kind == "partial" and not f.c and isinstance(model, VObj):
        a, b = f.a, tuple(f.b)
        gl = st.objs[model.oid].get("attr:groups")
        if isinstance(a, VFunc) and a.kind == "builtin" and a.a == "setattr" and len(b) == 3 and isinstance(b[0], VRef) \
                and isinstance(b[1], VConc) and b[1].py == "_model":
            if isinstance(b[2], VNone):
                return K_UNSET, b[0].t
            if isinstance(b[2], VObj) and b[2].oid == model.oid:
                return K_SETM, b[0].t
        if isinstance(a, VFunc) and a.kind == "bound" and isinstance(a.a, VObj) and isinstance(gl, VObj) and a.a.oid == gl.oid and len(b) == 1:
            if a.b == "add" and isinstance(b[0], VRef):
                return K_ADD, b[0].t
            if a.b == "__isub__" and isinstance(b[0], VObj) and b[0].kind == "list":
                rec = st.objs[b[0].oid]
                if z3.is_int_value(z3.simplify(rec["len"])) and z3.simplify(rec["len"]).as_long() == 1 and str(rec["ekind"]).startswith("ref"):
                    return K_ISUB, z3.simplify(z3.Select(rec["elem"], 0))
    raise Unsupported(f"undo registration of an unrecognised function {f!r}"[:200])


def call_object_hook(eng, st, f, pos, kw):
    """context(undo): HistoryManager.__call__ by its contract (C03: the operation is appended to that manager's history); the event
    is recorded in the symbolic ghost trace"""
    if isinstance(f, VRef) and f.cls == "HistoryManager" and len(pos) == 1 and not kw:
        kind, g = _classify(eng, st, pos[0])
        n, kd, ar, cx, wh = gtrace(st)
        gt = (n + 1, z3.Store(kd, n, z3.IntVal(kind)), z3.Store(ar, n, g), z3.Store(cx, n, f.t),
              z3.Store(wh, z3.IntVal(kind), z3.Store(z3.Select(wh, z3.IntVal(kind)), g, n)))
        return [("ok", st.setghost("gtrace", gt), NONE)]
    return None


def str_getattr_hook(eng, st, v, name):
    """a str has no attribute `id` (what the pre-repair remove_groups read from a listed identifier): AttributeError"""
    if name == "id" and (isinstance(v, VStr) or (isinstance(v, VConc) and isinstance(v.py, str))):
        return [eng.raise_(st, "AttributeError")]
    return None


def _has_entry(kd, ar, wh, g, k, n):
    w = wh[z3.IntVal(k)][g]
    return z3.And(0 <= w, w < n, kd[w] == k, ar[w] == g)


def _top(E):
    nc, ec = C3._ctxs(E.s0, E["self"])
    return ec[nc - 1]


def _has_ctx(E):
    return C3._ctxs(E.s0, E["self"])[0] > 0


# ================================================================ Model.remove_groups
class _Arg:
    """the listed identifiers: key(j) for 0 <= j < n (objects: their identifier at entry; strings: themselves)"""

    def __init__(self, E):
        v = E["group_list"]
        ids = Hh(E, E.s0, "_id")
        if isinstance(v, VObj):
            self.n, e = L(E.s0, v)
            self.elem = e
            self.objects = str(E.s0.objs[v.oid]["ekind"]).startswith("ref")
            self.key = (lambda j: ids[z3.Select(e, j)]) if self.objects else (lambda j: z3.Select(e, j))
            self.pat = lambda j: z3.Select(e, j)
            self.obj = (lambda j: z3.Select(e, j)) if self.objects else None
        else:
            self.n, self.elem = z3.IntVal(1), None
            self.objects = isinstance(v, VRef)
            k = ids[v.t] if self.objects else v.t
            self.key = lambda j: k
            self.pat = None
            self.obj = (lambda j: v.t) if self.objects else None


def _listed(A, k, upto):
    """the identifier k is one of the first `upto` listed ones"""
    if A.elem is None:
        return z3.And(upto >= 1, A.key(0) == k)
    j = qv("lj")
    return z3.Exists([j], z3.And(0 <= j, j < upto, A.key(j) == k))


def _handled(E, A, x, upto):
    """x is the model's group registered (at entry) under one of the first `upto` listed identifiers"""
    n0, e0 = L(E.s0, _groups(E))
    dom0, val0 = Dv(E.s0, _groups(E))
    k = Hh(E, E.s0, "_id")[x]
    return z3.And(z3.Select(dom0, k), e0[val0[k]] == x, _listed(A, k, upto))


def _rg_pre(E):
    A = _Arg(E)
    n0, e0 = L(E.s0, _groups(E))
    dom0, val0 = Dv(E.s0, _groups(E))
    cs = [WF(E, E.s0, _groups(E)), C3._ctx_nonnull(E, "self")]
    if A.objects:
        if A.elem is None:
            x = A.obj(0)
            cs += [x != NULL, z3.Implies(z3.Select(dom0, A.key(0)), e0[val0[A.key(0)]] == x)]
        else:
            j = qv("pj")
            cs.append(FA([j], z3.Implies(z3.And(0 <= j, j < A.n),
                                         z3.And(A.obj(j) != NULL,
                                                z3.Implies(z3.Select(dom0, A.key(j)), e0[val0[A.key(j)]] == A.obj(j)))),
                         patterns=[A.pat(j)]))
    return z3.And(*cs)


def _rg_view(E, st, upto):
    """model.groups and the `_model` pointers after the first `upto` listed identifiers were handled"""
    A = _Arg(E)
    gl = _groups(E)
    n0, e0 = L(E.s0, gl)
    dom0, val0 = Dv(E.s0, gl)
    n, e = L(st, gl)
    dom, val = Dv(st, gl)
    mo0, mo = Hh(E, E.s0, "_model"), Hh(E, st, "_model")
    k, k2, j, x = qv("vk", Id), qv("vk2", Id), qv("vj"), qv("vx", Ref)
    if A.elem is None:
        gone = z3.Implies(upto >= 1, z3.Not(z3.Select(dom, A.key(0))))
    else:
        gone = FA([j], z3.Implies(z3.And(0 <= j, j < upto), z3.Not(z3.Select(dom, A.key(j)))), patterns=[A.pat(j)])
    return [
        WF(E, st, gl),
        # a remaining key was a key before and finds the same object
        FA([k], z3.Implies(z3.Select(dom, k), z3.And(z3.Select(dom0, k), e[val[k]] == e0[val0[k]])), patterns=[z3.Select(dom, k)]),
        # the listed identifiers are gone; every key that is gone is a listed one
        gone,
        FA([k], z3.Implies(z3.And(z3.Select(dom0, k), z3.Not(z3.Select(dom, k))), _listed(A, k, upto)), patterns=[z3.Select(dom0, k)]),
        # relative order kept
        FA([k, k2], z3.Implies(z3.And(z3.Select(dom, k), z3.Select(dom, k2)), (val[k] < val[k2]) == (val0[k] < val0[k2])),
           patterns=[z3.MultiPattern(z3.Select(dom, k), z3.Select(dom, k2))]),
        # model pointers: None for the handled groups, nothing else
        FA([x], z3.Implies(_handled(E, A, x, upto), mo[x] == NULL), patterns=[mo[x]]),
        FA([x], z3.Implies(mo[x] != mo0[x], _handled(E, A, x, upto)), patterns=[mo[x]]),
    ]


def _rg_trace(E, st, upto, with_ctx):
    A = _Arg(E)
    n, kd, ar, cx, wh = gtrace(st)
    if not with_ctx:
        return [n == 0]
    top = _top(E)
    j, x = qv("tj"), qv("tx", Ref)
    wa, ws = wh[z3.IntVal(K_ADD)][x], wh[z3.IntVal(K_SETM)][x]
    return [n >= 0,
            FA([j], z3.Implies(z3.And(0 <= j, j < n),
                               z3.And(cx[j] == top, z3.Or(kd[j] == K_ADD, kd[j] == K_SETM), _handled(E, A, ar[j], upto),
                                      wh[kd[j]][ar[j]] == j)), patterns=[kd[j], ar[j]]),
            FA([x], z3.Implies(_handled(E, A, x, upto),
                               z3.And(_has_entry(kd, ar, wh, x, K_ADD, n), _has_entry(kd, ar, wh, x, K_SETM, n), ws == wa + 1)),
               patterns=[wa, ws])]


def _rg_inv(with_ctx):
    def inv(E, Lc):
        return z3.And(*(_rg_view(E, Lc.st, Lc.i) + _rg_trace(E, Lc.st, Lc.i, with_ctx)))
    return inv


def _rg_post(with_ctx):
    def post(E):
        A = _Arg(E)
        return z3.And(*(_rg_view(E, E.s1, A.n) + _rg_trace(E, E.s1, A.n, with_ctx)))
    return post


def _rg_mod(E):
    gl = _groups(E)
    return [("list", gl), ("dict", dict_of(E.s0, gl)), ("heap", "_model"), ("ghost", "gtrace", havoc_gtrace)]


def _rg_loop_mod(E, Lc):
    return _rg_mod(E)


def _rg_model_t():
    return TObj("Model", {"_contexts": TList("ref:HistoryManager"), "groups": TDictList("Group")})


def _pc(case, **over):
    case.params_override = over
    return case


_rg_cases = []
for _tag, _t in (("group_objects", TList("ref:Group")), ("identifier_strings", TList("id")), ("one_group_object", TRef("Group")),
                 ("one_identifier_string", TStr())):
    _rg_cases.append(_pc(Case(f"{_tag}:no_context", requires=lambda E: z3.Not(_has_ctx(E)), ensures=_rg_post(False)), group_list=_t))
    _rg_cases.append(_pc(Case(f"{_tag}:in_context", requires=_has_ctx, ensures=_rg_post(True)), group_list=_t))


def _rg_inv_any(E, Lc):
    """the invariant depends on whether the case has a context: the local `context` is a manager, or None"""
    ctx = Lc.var("context")
    return _rg_inv(isinstance(ctx, VRef))(E, Lc)


REG.add(Contract(MM, "Model.remove_groups", "C02", [("self", _rg_model_t()), ("group_list", TList("ref:Group"))], _rg_cases,
                 pre=_rg_pre, modifies=_rg_mod, loops={0: LoopSpec(_rg_inv_any, _rg_loop_mod)}, key="Model.remove_groups",
                 note="materialised model; argument: a list of Group objects, a list of identifier strings, one Group, one string "
                      "(mixed lists not covered); without / with an open context. Precondition: model.groups well formed; a listed "
                      "OBJECT whose identifier is in the model is the model's group of that identifier and is not None"))

RG_KEYS = ["Model.remove_groups"]


# ================================================================ Model.add_groups
from pyvc import builtins as _B  # noqa
from pyvc import comprehension as _C  # noqa
from pyvc.loops import havoc_locations  # noqa

class_tag = z3.Function("class_tag", Ref, I_)       # the dynamic class of an object, as far as isinstance() asks for it
TAGS = {"Metabolite": 1, "Reaction": 2, "Gene": 3, "Group": 4}
AM, AR = 1, 2
RefMap = z3.ArraySort(Ref, z3.ArraySort(Ref, z3.BoolSort()))
Where3 = z3.ArraySort(I_, z3.ArraySort(Ref, z3.ArraySort(Ref, I_)))
# ctrace = (n, kind, arg, grp, where): entry j < n is the call self.add_metabolites([arg[j]]) (kind 1) / self.add_reactions([arg[j]])
# (kind 2) made while the members of group grp[j] were handled; where[c][g][m] = position of the latest entry of kind c for (g, m)
CT0 = (z3.IntVal(0), z3.K(I_, z3.IntVal(0)), z3.K(I_, NULL), z3.K(I_, NULL), z3.K(I_, z3.K(Ref, z3.K(Ref, z3.IntVal(-1)))))
# exam = (xm, xr): xm[g][m] / xr[g][m] = "the identifier of m was in model.metabolites / model.reactions when member m of group g was
# examined" (the recorded truth value of the test the code makes)
EX0 = (z3.K(Ref, z3.K(Ref, z3.BoolVal(False))), z3.K(Ref, z3.K(Ref, z3.BoolVal(False))))


def ctrace(st):
    return st.ghost.get("ctrace", CT0)


def exam(st):
    return st.ghost.get("exam", EX0)


def havoc_ctrace(st):
    return (fresh("ct_n", I_), fresh("ct_kind", z3.ArraySort(I_, I_)), fresh("ct_arg", z3.ArraySort(I_, Ref)),
            fresh("ct_grp", z3.ArraySort(I_, Ref)), fresh("ct_where", Where3))


def havoc_exam(st):
    return (fresh("ex_m", RefMap), fresh("ex_r", RefMap))


def _is_ag(eng):
    return getattr(eng.cur_contract, "key", None) == "Model.add_groups"


def global_hook(eng, name):
    if _is_ag(eng) and name in ("filter", "DictList"):
        return VFunc("abstract", "ag:" + name)
    return None


def isinstance_hook(eng, st, v, clsname):
    if isinstance(v, VRef) and v.cls == "Object" and clsname in TAGS:
        return class_tag(v.t) == TAGS[clsname]
    return None


def _filter_call(eng, st, f, it):
    """filter(f, <list>) consumed at once by DictList(...): the list of the elements for which f returns a true value, in order
    (f must be free of side effects; it may fork - the condition is the disjunction of its true-returning paths)"""
    seq = _B.to_seq(eng, st, it)
    if seq is None:
        raise Unsupported("filter() of something else than a list")
    if seq.known_len is not None and seq.known_len <= 4:
        outs = [("ok", st, [])]
        for k in range(seq.known_len):
            def step(s, acc, k=k):
                x = seq.get(s, z3.IntVal(k))
                res = []
                for k2, s2, v2 in eng.call(s, f, [x], {}):
                    if k2 != "ok":
                        res.append((k2, s2, v2))
                        continue
                    for keep, s3 in eng.branch(s2, eng.truth(s2, v2)):
                        res.append(("ok", s3, acc + [x] if keep else acc))
                return res
            outs = eng.bind(outs, step)
        kind = _B.value_kind(seq.get(st, z3.IntVal(0))) if seq.known_len else "ref:Object"
        return eng.bind(outs, lambda s, vs: [_B.list_from_values(eng, s, vs, ekind=kind)])
    import pyvc.values as V
    i = z3.Const(fresh_name("fi"), I_)
    mark = next(V._counter)
    s = st.assume(0 <= i, i < seq.n)
    base = len(s.pc)
    x = seq.get(s, i)
    conds = []
    for k2, s2, v2 in eng.call(s, f, [x], {}):
        if k2 != "ok":
            raise Unsupported("filter(): the predicate may raise")
        if any(not _C._same_heap(s2, st, fld) for fld in s2.heap) or any(oid in st.objs and s2.objs[oid] is not st.objs[oid] for oid in s2.objs) \
                or any(isinstance(gk, str) and s2.ghost.get(gk) is not st.ghost.get(gk) for gk in s2.ghost):
            raise Unsupported("filter(): the predicate has side effects")
        t = eng.truth(s2, v2)
        t = z3.BoolVal(t) if isinstance(t, bool) else t
        conds.append(z3.And(*(list(s2.pc[base:]) + [t])))
    cond = z3.simplify(z3.Or(*conds)) if conds else z3.BoolVal(False)
    if _C._consts_after(cond, mark):
        raise Unsupported("filter(): the predicate introduces index-dependent fresh constants")
    return _C.gen_to_list(eng, st, _C.VGen(seq, i, cond, x))


def call_abstract_hook(eng, st, f, pos, kw):
    if f.a == "ag:filter" and len(pos) == 2 and not kw:
        return _filter_call(eng, st, pos[0], pos[1])
    if f.a == "ag:DictList":
        # DictList(<list>) by the contract of DictList.__init__ (C15); the new DictList holds objects of the class of the list's
        # elements (the contract's generic result builder says `Object`)
        outs = eng.construct(st, "DictList", pos, kw)
        if len(pos) == 1 and isinstance(pos[0], VObj) and pos[0].kind == "list" and str(st.objs[pos[0].oid].get("ekind", "")).startswith("ref:"):
            ek = st.objs[pos[0].oid]["ekind"]
            outs = [(k, s.updobj(v.oid, ekind=ek) if k == "ok" and isinstance(v, VObj) else s, v) for k, s, v in outs]
        return outs
    return None


def _model_dl(st, model, attr):
    v = st.objs[model.oid].get("attr:" + attr)
    return v if isinstance(v, VObj) else None


def ag_call_method_hook(eng, st, recv, name, pos, kw):
    if not _is_ag(eng):
        return None
    model = eng.entry_args.get("self")
    if isinstance(recv, VObj) and recv.oid == model.oid and name in ("add_metabolites", "add_reactions"):
        # ABSTRACT callee (assumed, see the module docstring): recorded; model.metabolites / model.reactions are well-formed
        # DictLists again, `_model` of an object tagged Group is not touched
        if len(pos) != 1 or kw or not (isinstance(pos[0], VObj) and pos[0].kind == "list"):
            raise Unsupported(f"{name} with an argument that is not a list display")
        rec = st.objs[pos[0].oid]
        if not (z3.is_int_value(z3.simplify(rec["len"])) and z3.simplify(rec["len"]).as_long() == 1 and str(rec["ekind"]).startswith("ref")):
            raise Unsupported(f"{name} with a list of another length than 1")
        m = z3.simplify(z3.Select(rec["elem"], 0))
        g = st.lookup(eng._top_fid, "group")
        if not isinstance(g, VRef):
            raise Unsupported("no current group")
        k = AM if name == "add_metabolites" else AR
        n, kd, ar, gr, wh = ctrace(st)
        ct = (n + 1, z3.Store(kd, n, z3.IntVal(k)), z3.Store(ar, n, m), z3.Store(gr, n, g.t),
              z3.Store(wh, z3.IntVal(k), z3.Store(wh[z3.IntVal(k)], g.t, z3.Store(wh[z3.IntVal(k)][g.t], m, n))))
        mets, rxns = _model_dl(st, model, "metabolites"), _model_dl(st, model, "reactions")
        mo = eng.heap_arr(st, "_model")
        st2 = havoc_locations(eng, st, [("list", mets), ("dict", dict_of(st, mets)), ("list", rxns), ("dict", dict_of(st, rxns)),
                                        ("heap", "_model")])
        E2 = Env({}, st2, eng=eng)
        x = qv("ax", Ref)
        mo2 = eng.heap_arr(st2, "_model")
        st2 = st2.assume(WF(E2, st2, mets), WF(E2, st2, rxns),
                         FA([x], z3.Implies(class_tag(x) == TAGS["Group"], mo2[x] == mo[x]), patterns=[mo2[x]]))
        return [("ok", st2.setghost("ctrace", ct), NONE)]
    if isinstance(recv, VObj) and name == "__contains__" and len(pos) == 1 and isinstance(pos[0], VRef) and not kw:
        for slot, attr in enumerate(("metabolites", "reactions")):
            dl = _model_dl(st, model, attr)
            if dl is not None and dl.oid == recv.oid:
                g = st.lookup(eng._top_fid, "group")
                if not isinstance(g, VRef):
                    return None
                outs = []
                for k, s, v in eng.apply_contract(st, eng.reg.get("DictList.__contains__"), [recv] + list(pos), kw):
                    if k == "ok":
                        ex = list(exam(s))
                        ex[slot] = z3.Store(ex[slot], g.t, z3.Store(ex[slot][g.t], pos[0].t, v.t))
                        s = s.setghost("exam", tuple(ex))
                    outs.append((k, s, v))
                return outs
    return None


HOOKS = chain_hooks({"call_object": call_object_hook, "global": global_hook, "isinstance": isinstance_hook, "getattr": str_getattr_hook,
                     "call_abstract": call_abstract_hook, "call_method": ag_call_method_hook}, C3.ALL_HOOKS)


# ---------------------------------------------------------------- specification
def _ag_model_t():
    return TObj("Model", {"_contexts": TList("ref:HistoryManager"), "groups": TDictList("Group"),
                          "metabolites": TDictList("Metabolite"), "reactions": TDictList("Reaction")})


def _dl(E, st, attr):
    return st.objs[E["self"].oid]["attr:" + attr]


class _AgArg:
    def __init__(self, E):
        v = E["group_list"]
        if isinstance(v, VObj):
            self.n, self.e = L(E.s0, v)
            self.single = None
        else:
            self.n, self.e, self.single = z3.IntVal(1), None, v.t

    def at(self, j):
        return self.single if self.single is not None else z3.Select(self.e, j)


def _absent(E, x):
    dom0, _ = Dv(E.s0, _groups(E))
    return z3.Not(z3.Select(dom0, Hh(E, E.s0, "_id")[x]))


def _joins(E, x):
    A = _AgArg(E)
    if A.single is not None:
        return z3.And(x == A.single, _absent(E, x))
    j = qv("jj")
    return z3.Exists([j], z3.And(0 <= j, j < A.n, z3.Select(A.e, j) == x, _absent(E, x)))


def _new_ids_distinct(E):
    A = _AgArg(E)
    if A.single is not None:
        return z3.BoolVal(True)
    ids = Hh(E, E.s0, "_id")
    j1, j2 = qv("d1"), qv("d2")
    a, b = z3.Select(A.e, j1), z3.Select(A.e, j2)
    return FA([j1, j2], z3.Implies(z3.And(0 <= j1, j1 < j2, j2 < A.n, _absent(E, a), _absent(E, b)), ids[a] != ids[b]),
              patterns=[z3.MultiPattern(a, b)])


def _ag_pre(E):
    A = _AgArg(E)
    cs = [WF(E, E.s0, _groups(E)), WF(E, E.s0, _dl(E, E.s0, "metabolites")), WF(E, E.s0, _dl(E, E.s0, "reactions")),
          C3._ctx_nonnull(E, "self")]
    if A.single is not None:
        cs += [A.single != NULL, class_tag(A.single) == TAGS["Group"]]
    else:
        j = qv("pj")
        x = z3.Select(A.e, j)
        cs.append(FA([j], z3.Implies(z3.And(0 <= j, j < A.n), z3.And(x != NULL, class_tag(x) == TAGS["Group"])), patterns=[x]))
    return z3.And(*cs)


def _done(arr, lo, hi, x):
    k = qv("dk")
    return z3.Exists([k], z3.And(lo <= k, k < hi, z3.Select(arr, k) == x))


def _is_filtered(E, arr, lo, hi):
    """arr[lo..hi) holds exactly the joining groups (every element joins; every joining group is an element)"""
    k, x = qv("fk"), qv("fx", Ref)
    return [hi >= lo,
            FA([k], z3.Implies(z3.And(lo <= k, k < hi), _joins(E, z3.Select(arr, k))), patterns=[z3.Select(arr, k)]),
            FA([x], z3.Implies(_joins(E, x), _done(arr, lo, hi, x)))]


def _call_ok(E, st, j, g_ok):
    """entry j of the call trace is justified: made for a group satisfying g_ok, for one of its members, of the right class, whose
    identifier was not in the model's list when it was examined; and it is THE entry of that kind for (group, member)"""
    n, kd, ar, gr, wh = ctrace(st)
    xm, xr = exam(st)
    mem = Hh(E, E.s0, "_members")
    g, m = gr[j], ar[j]
    return z3.And(g_ok(g), mem[g][m], wh[kd[j]][g][m] == j,
                  z3.Or(z3.And(kd[j] == AM, class_tag(m) == TAGS["Metabolite"], z3.Not(xm[g][m])),
                        z3.And(kd[j] == AR, class_tag(m) == TAGS["Reaction"], z3.Not(xr[g][m]))))


def _has_call(st, k, g, m, lo, n):
    _, kd, ar, gr, wh = ctrace(st)
    w = wh[z3.IntVal(k)][g][m]
    return z3.And(lo <= w, w < n, kd[w] == k, ar[w] == m, gr[w] == g)


def _calls_complete(E, st, g, m, lo, n):
    """member m of group g: handed to add_metabolites / add_reactions iff of that class and not found when examined"""
    xm, xr = exam(st)
    return z3.And(z3.Implies(z3.And(class_tag(m) == TAGS["Metabolite"], z3.Not(xm[g][m])), _has_call(st, AM, g, m, lo, n)),
                  z3.Implies(z3.And(class_tag(m) == TAGS["Reaction"], z3.Not(xr[g][m])), _has_call(st, AR, g, m, lo, n)))


def _pruned(Lc):
    p = Lc.var("pruned")
    return p, Lc.st.objs[p.oid]["len"], Lc.st.objs[p.oid]["elem"]


def _in_p(E, Lc, g, upto):
    """g is one of the first `upto` elements of the local DictList `pruned` (through its index: no existential)"""
    p, m, pe = _pruned(Lc)
    domp, valp = Dv(Lc.st, p)
    k = Hh(E, E.s0, "_id")[g]
    return z3.And(z3.Select(domp, k), pe[valp[k]] == g, valp[k] < upto, valp[k] >= 0)


def _ag_outer(E, Lc, st, i, with_ctx):
    """after the first i groups of `pruned` were handled completely"""
    p, m, pe = _pruned(Lc)
    gl = _groups(E)
    n0, e0 = L(E.s0, gl)
    n, e = L(st, gl)
    mo0, mo = Hh(E, E.s0, "_model"), Hh(E, st, "_model")
    mem = Hh(E, E.s0, "_members")
    j, x, g, mm = qv("oj"), qv("ox", Ref), qv("og", Ref), qv("om", Ref)
    cs = [Lc.n == m, WF(E, Lc.st, p)] + _is_filtered(E, pe, 0, m)
    # model.groups: the old members in place, then the groups handled so far
    cs += [WF(E, st, gl), n == n0 + i,
           FA([j], z3.Implies(z3.And(0 <= j, j < n0), e[j] == e0[j]), patterns=[e[j]]),
           FA([j], z3.Implies(z3.And(0 <= j, j < i), e[n0 + j] == pe[j]), patterns=[pe[j]]),
           FA([j], z3.Implies(z3.And(n0 <= j, j < n0 + i), e[j] == pe[j - n0]), patterns=[e[j]])]      # the same, triggered by e[j]
    # model pointers
    cs += [FA([j], z3.Implies(z3.And(0 <= j, j < i), mo[pe[j]] == _me(E)), patterns=[pe[j]]),
           FA([x], z3.Implies(z3.And(class_tag(x) == TAGS["Group"], mo[x] != mo0[x]), _in_p(E, Lc, x, i)), patterns=[mo[x]])]
    cs += [WF(E, st, _dl(E, st, "metabolites")), WF(E, st, _dl(E, st, "reactions"))]
    # call trace
    nc, kd, ar, gr, wh = ctrace(st)
    cs += [nc >= 0,
           FA([j], z3.Implies(z3.And(0 <= j, j < nc), _call_ok(E, st, j, lambda y: _in_p(E, Lc, y, i))), patterns=[kd[j], ar[j], gr[j]]),
           FA([g, mm], z3.Implies(z3.And(_in_p(E, Lc, g, i), mem[g][mm]), _calls_complete(E, st, g, mm, 0, nc)), patterns=[mem[g][mm]])]
    # undo registrations
    nt, tk, ta, tc, tw = gtrace(st)
    if not with_ctx:
        cs.append(nt == 0)
    else:
        top = _top(E)
        wu, ws = tw[z3.IntVal(K_UNSET)][pe[j]], tw[z3.IntVal(K_ISUB)][pe[j]]
        cs += [nt >= 0,
               FA([j], z3.Implies(z3.And(0 <= j, j < nt),
                                  z3.And(tc[j] == top, z3.Or(tk[j] == K_UNSET, tk[j] == K_ISUB), _in_p(E, Lc, ta[j], i), tw[tk[j]][ta[j]] == j)),
                  patterns=[tk[j], ta[j]]),
               FA([j], z3.Implies(z3.And(0 <= j, j < i),
                                  z3.And(_has_entry(tk, ta, tw, pe[j], K_UNSET, nt), _has_entry(tk, ta, tw, pe[j], K_ISUB, nt), wu < ws)),
                  patterns=[pe[j]])]
    return cs


def _with_ctx(Lc):
    return isinstance(Lc.var("context"), VRef)


def _ag_inv0(E, Lc):
    return z3.And(*_ag_outer(E, Lc, Lc.st, Lc.i, _with_ctx(Lc)))


def _ag_inv1(E, Lc):
    """inner loop over the members of the current group (ghost enumeration order / pos of the member set D)"""
    st, en, t = Lc.st, Lc.entry, Lc.i
    g = Lc.var("group").t
    _, order, pos, D = Lc.seq.src
    mo, moE = Hh(E, st, "_model"), Hh(E, en, "_model")
    n, kd, ar, gr, wh = ctrace(st)
    nA, kdA, arA, grA, whA = ctrace(en)
    xm, xr = exam(st)
    xmA, xrA = exam(en)
    j, x, y, mm = qv("ij"), qv("ix", Ref), qv("iy", Ref), qv("im", Ref)
    cs = [WF(E, st, _dl(E, st, "metabolites")), WF(E, st, _dl(E, st, "reactions")),
          FA([x], z3.Implies(class_tag(x) == TAGS["Group"], mo[x] == moE[x]), patterns=[mo[x]]),
          # the call trace: earlier entries kept, the witness maps and examination flags of the other groups kept
          n >= nA, nA >= 0,
          FA([j], z3.Implies(z3.And(0 <= j, j < nA), z3.And(kd[j] == kdA[j], ar[j] == arA[j], gr[j] == grA[j])), patterns=[kd[j], ar[j], gr[j]]),
          FA([y], z3.Implies(y != g, z3.And(wh[z3.IntVal(AM)][y] == whA[z3.IntVal(AM)][y], wh[z3.IntVal(AR)][y] == whA[z3.IntVal(AR)][y],
                                            xm[y] == xmA[y], xr[y] == xrA[y])),
             patterns=[wh[z3.IntVal(AM)][y], wh[z3.IntVal(AR)][y], xm[y], xr[y]]),
          # the entries made for this group: one per member examined so far that had to be handed on
          FA([j], z3.Implies(z3.And(nA <= j, j < n),
                             z3.And(_call_ok(E, st, j, lambda q: q == g), D[ar[j]], pos[ar[j]] < t)), patterns=[kd[j], ar[j], gr[j]]),
          FA([mm], z3.Implies(z3.And(D[mm], pos[mm] < t), _calls_complete(E, st, g, mm, nA, n)), patterns=[pos[mm], D[mm]])]
    return z3.And(*cs)


def _mods_callee(E, st):
    mets, rxns = _dl(E, st, "metabolites"), _dl(E, st, "reactions")
    return [("list", mets), ("dict", dict_of(st, mets)), ("list", rxns), ("dict", dict_of(st, rxns)), ("heap", "_model"),
            ("ghost", "ctrace", havoc_ctrace), ("ghost", "exam", havoc_exam)]


def _ag_mod(E):
    gl = _groups(E)
    return [("list", gl), ("dict", dict_of(E.s0, gl)), ("attr", E["self"], "groups", lambda st: (st, gl)),
            ("ghost", "gtrace", havoc_gtrace)] + _mods_callee(E, E.s0)


def _ag_post(with_ctx):
    def post(E):
        st = E.s1
        gl = _groups(E)
        n0, e0 = L(E.s0, gl)
        n1, e1 = L(st, gl)
        mo0, mo = Hh(E, E.s0, "_model"), Hh(E, st, "_model")
        mem = Hh(E, E.s0, "_members")
        j, x, g, mm = qv("qj"), qv("qx", Ref), qv("qg", Ref), qv("qm", Ref)
        cs = [WF(E, st, gl), n1 >= n0,
              FA([j], z3.Implies(z3.And(0 <= j, j < n0), e1[j] == e0[j]), patterns=[e1[j]])] + _is_filtered(E, e1, n0, n1)
        cs += [FA([j], z3.Implies(z3.And(n0 <= j, j < n1), mo[e1[j]] == _me(E)), patterns=[e1[j]]),
               FA([x], z3.Implies(z3.And(class_tag(x) == TAGS["Group"], mo[x] != mo0[x]), _joins(E, x)), patterns=[mo[x]])]
        nc, kd, ar, gr, wh = ctrace(st)
        cs += [nc >= 0,
               FA([j], z3.Implies(z3.And(0 <= j, j < nc), _call_ok(E, st, j, lambda y: _joins(E, y))), patterns=[kd[j], ar[j], gr[j]]),
               FA([j, mm], z3.Implies(z3.And(n0 <= j, j < n1, mem[e1[j]][mm]), _calls_complete(E, st, e1[j], mm, 0, nc)),
                  patterns=[mem[e1[j]][mm]])]
        nt, tk, ta, tc, tw = gtrace(st)
        if not with_ctx:
            cs.append(nt == 0)
        else:
            top = _top(E)
            wu, ws = tw[z3.IntVal(K_UNSET)][e1[j]], tw[z3.IntVal(K_ISUB)][e1[j]]
            cs += [nt >= 0,
                   FA([j], z3.Implies(z3.And(0 <= j, j < nt),
                                      z3.And(tc[j] == top, z3.Or(tk[j] == K_UNSET, tk[j] == K_ISUB), _joins(E, ta[j]), tw[tk[j]][ta[j]] == j)),
                      patterns=[tk[j], ta[j]]),
                   FA([j], z3.Implies(z3.And(n0 <= j, j < n1),
                                      z3.And(_has_entry(tk, ta, tw, e1[j], K_UNSET, nt), _has_entry(tk, ta, tw, e1[j], K_ISUB, nt), wu < ws)),
                      patterns=[e1[j]])]
        return z3.And(*cs)
    return post


def _ag_unchanged(E):
    """raising case: nothing has happened (heap, lists: frame; the ghost traces are empty)"""
    return z3.And(ctrace(E.s1)[0] == 0, gtrace(E.s1)[0] == 0, unchanged_dl(E, _groups(E)))


_ag_cases = []
for _tag, _t in (("group_objects", TList("ref:Group")), ("one_group_object", TRef("Group"))):
    _ag_cases.append(_pc(Case(f"{_tag}:no_context", requires=lambda E: z3.And(z3.Not(_has_ctx(E)), _new_ids_distinct(E)),
                              ensures=_ag_post(False)), group_list=_t))
    _ag_cases.append(_pc(Case(f"{_tag}:in_context", requires=lambda E: z3.And(_has_ctx(E), _new_ids_distinct(E)),
                              ensures=_ag_post(True)), group_list=_t))
_ag_cases.append(_pc(Case("group_objects:repeated_new_identifier", requires=lambda E: z3.Not(_new_ids_distinct(E)), raises="ValueError",
                          ensures=_ag_unchanged), group_list=TList("ref:Group")))

REG.add(Contract(MM, "Model.add_groups", "C02", [("self", _ag_model_t()), ("group_list", TList("ref:Group"))], _ag_cases,
                 pre=_ag_pre, modifies=_ag_mod, key="Model.add_groups",
                 loops={0: LoopSpec(_ag_inv0, lambda E, Lc: _ag_mod(E)), 1: LoopSpec(_ag_inv1, lambda E, Lc: _mods_callee(E, Lc.st))},
                 note="materialised model; argument: a list of Group objects or one Group; without / with an open context. ASSUMED: "
                      "self.add_metabolites([m]) / self.add_reactions([m]) are abstract recorded calls that may change "
                      "model.metabolites / model.reactions (well formed again) and `_model` of non-Group objects only; isinstance of a "
                      "member = uninterpreted class tag. Precondition: listed groups not None and tagged Group, the three DictLists "
                      "well formed"))
AG_KEYS = ["Model.add_groups"]
KEYS = RG_KEYS + AG_KEYS
