"""C02 / C08 - cobra.manipulation.modify.rename_genes(model, rename_dict) and its NodeTransformer `_Renamer`.

Documented: "Rename genes in a model from the rename_dict: keys old gene names, values new gene names."  C02: an editing operation
changes the model exactly as documented, leaves everything else as it was, model.genes stays a well-formed DictList.

Notation: ren(k) = rename_dict.get(k, k); for a set K of absent genes pre(K) = {k : ren(k) in K} (the PREIMAGE of K under the
renaming).  The identifiers of Name nodes are WRITTEN here, so the rule semantics takes the identifier array as one more argument:
semi(ID, VN, VS, BD, x, K) - the same one-step unfolding as `semh` of c08_visitors (Name: ID[x] not in K; Or / And; root).

PROVED
(1) `_Renamer.visit_Name` (key `_Renamer.visit_Name`): the node itself is returned; exactly ITS identifier is written, to
    ren(old identifier) (ID1 == Store(ID0, node, ren(ID0[node])): no other node, no other field - tags, operators, child lists
    and bodies are outside the write set); and for an ARBITRARY set K of absent genes (the constant vis_K)
        semi(ID1, h, node, K) == semi(ID0, h, node, pre(K))
    "the renamed rule with K absent is the old rule with the genes absent whose new name is in K".  For a renaming that is injective
    on the names of the rule pre(ren(K)) agrees with K on these names: the renamed rule with ren(K) absent is the old rule with K
    absent - the form of the statement the property text suggests; the preimage form needs no injectivity and says what happens when
    two genes are renamed onto one identifier (the merged gene is absent exactly when ... either old one was: pre(K) contains both).
    Lemma `C02/lemma/renamer/induction-step` (closed formula, z3): for ANY node t of a rule tree whose shape (tags, operators,
    child lists, body) is the same before and after, if every Name node's identifier went through ren (what visit_Name proves) and
    the claim holds for the children / the body of t, then it holds for t: semi(ID1, h, t, K) == semi(ID0, h, t, pre(K)).  With
    ast.NodeTransformer.generic_visit (every child visited, each replaced by the - identical - node returned; ASSUMED, finite trees)
    this is the claim for whole rules.
(2) `rename_genes` (key `rename_genes`; see the second half of this docstring, written when that part was proved).
"""
import z3
from .common import *  # noqa
from . import c15_dictlist as C15  # noqa
from . import c07_knockout as C7
from . import c08_visitors as V
from .c07_knockout import T_EXPRESSION, T_GPR, T_NAME, T_BOOLOP, T_OR, T_AND, IdSet

MM = "cobra/manipulation/modify.py"
REG.classes.setdefault("_Renamer", ["NodeTransformer"])
REG.classes.setdefault("NodeTransformer", ["NodeVisitor"])
REG.classes.setdefault("NodeVisitor", [])
RefInt, RefSeq, RefRef = V.RefInt, V.RefSeq, V.RefRef
RefId = z3.ArraySort(Ref, Id)
IdId = z3.ArraySort(Id, Id)
K_ = V.VIS_K

semi = z3.Function("semh_ids", RefId, RefInt, RefSeq, RefRef, Ref, IdSet, z3.BoolSort())
preimage = z3.Function("idset_preimage", IdSet, IdId, IdSet, IdSet)       # preimage(dom, val, K) = {k : ren(k) in K}


def ren(dom, val, k):
    """rename_dict.get(k, k)"""
    return z3.If(z3.Select(dom, k), z3.Select(val, k), k)


def semi_axioms_arr(tg, op, at=None):
    """one-step unfolding of semi for EVERY identifier array and heap; definition of the preimage of an identifier set"""
    ID, VN, VS, BD = z3.Const("iID", RefId), z3.Const("iVN", RefInt), z3.Const("iVS", RefSeq), z3.Const("iBD", RefRef)
    x, K, i, k = z3.Const("ix", Ref), z3.Const("iK", IdSet), z3.Int("ii"), z3.Const("ik", Id)
    d, v = z3.Const("id_", IdSet), z3.Const("iv", IdId)
    hv = [ID, VN, VS, BD] + ([x] if at is None else [])
    if at is not None:
        x = at
    S = lambda x_, K_: semi(ID, VN, VS, BD, x_, K_)  # noqa
    n, kid = VN[x], (lambda j: VS[x][j])
    is_root = z3.Or(tg[x] == T_EXPRESSION, tg[x] == T_GPR)
    kids_any = z3.Exists([i], z3.And(0 <= i, i < n, S(kid(i), K)))
    kids_all = z3.ForAll([i], z3.Implies(z3.And(0 <= i, i < n), S(kid(i), K)))
    return [
        z3.ForAll(hv + [K], z3.Implies(z3.And(is_root, BD[x] == NULL), S(x, K)), patterns=[S(x, K)]),
        z3.ForAll(hv + [K], z3.Implies(z3.And(is_root, BD[x] != NULL), S(x, K) == S(BD[x], K)), patterns=[S(x, K)]),
        z3.ForAll(hv + [K], z3.Implies(tg[x] == T_NAME, S(x, K) == z3.Not(K[ID[x]])), patterns=[S(x, K)]),
        z3.ForAll(hv + [K], z3.Implies(z3.And(tg[x] == T_BOOLOP, tg[op[x]] == T_OR), S(x, K) == kids_any), patterns=[S(x, K)]),
        z3.ForAll(hv + [K], z3.Implies(z3.And(tg[x] == T_BOOLOP, tg[op[x]] == T_AND), S(x, K) == kids_all), patterns=[S(x, K)]),
        z3.ForAll([d, v, K, k], preimage(d, v, K)[k] == K[ren(d, v, k)], patterns=[preimage(d, v, K)[k]]),
    ]


def semi_axioms(E, st):
    return semi_axioms_arr(V.H(E, st, "ast_tag"), V.H(E, st, "op"))


# ---------------------------------------------------------------- (1) _Renamer.visit_Name
def _renamer_t():
    return TObj("_Renamer", {"rename_dict": TDict("id", "id")})


def rdict(E, st=None):
    st = st or E.s0
    rec = st.objs[st.objs[E["self"].oid]["attr:rename_dict"].oid]
    if rec.get("lazy"):
        return z3.K(Id, z3.BoolVal(False)), z3.K(Id, z3.Const("no_id", Id))
    return rec["dom"], rec["val"]


def _vn_post(E):
    t = E["node"].t
    ID0, ID1 = V.H(E, E.s0, "id"), V.H(E, E.s1, "id")
    h = V.heap3(E, E.s0)
    dom, val = rdict(E)
    res = E.res.t if isinstance(E.res, VRef) else NULL
    return z3.And(res == t,                                                       # the node itself is returned
                  ID1 == z3.Store(ID0, t, ren(dom, val, ID0[t])),                 # exactly this node's identifier, to ren(old)
                  semi(ID1, *h, t, K_) == semi(ID0, *h, t, preimage(dom, val, K_)))


def _tag_is(E, tag):
    return V.H(E, E.s0, "ast_tag")[E["node"].t] == tag


_vn_case = Case("Name", requires=lambda E: _tag_is(E, T_NAME), ensures=_vn_post)
_vn_case.domain = _vn_case.requires
REG.add(Contract(MM, "_Renamer.visit_Name", "C02", [("self", _renamer_t()), ("node", TRef("AstNode"))], [_vn_case],
                 pre=lambda E: E["node"].t != NULL, modifies=lambda E: [("heap", "id")], axioms=lambda E: semi_axioms(E, E.s0),
                 key="_Renamer.visit_Name", props=["C02", "C08"],
                 note="visit_Name is reached for Name nodes only (dispatch of ast.NodeVisitor.visit)"))


def lemmas():
    """induction step of: every Name identifier of the tree t went through ren, the shape is unchanged
    ==> semi(ID1, h, t, K) == semi(ID0, h, t, pre(K))"""
    from pyvc.engine import Obl
    tg, op = z3.Const("rl_tag", RefInt), z3.Const("rl_op", RefRef)
    ID0, ID1 = z3.Const("rl_ID0", RefId), z3.Const("rl_ID1", RefId)
    h = (z3.Const("rl_VN", RefInt), z3.Const("rl_VS", RefSeq), z3.Const("rl_BD", RefRef))
    d, v = z3.Const("rl_dom", IdSet), z3.Const("rl_val", IdId)
    t, K, i = z3.Const("rl_t", Ref), z3.Const("rl_K", IdSet), z3.Int("rl_i")
    P = preimage(d, v, K)
    is_root = z3.Or(tg[t] == T_EXPRESSION, tg[t] == T_GPR)
    claim = lambda y: semi(ID1, *h, y, K) == semi(ID0, *h, y, P)  # noqa
    hyp = semi_axioms_arr(tg, op, at=t) + [
        t != NULL, z3.Or(is_root, tg[t] == T_NAME, z3.And(tg[t] == T_BOOLOP, z3.Or(tg[op[t]] == T_OR, tg[op[t]] == T_AND))),
        z3.Implies(tg[t] == T_NAME, ID1[t] == ren(d, v, ID0[t])),                  # what visit_Name proves
        z3.Implies(z3.And(is_root, h[2][t] != NULL), claim(h[2][t])),              # induction hypothesis: body, children
        z3.ForAll([i], z3.Implies(z3.And(0 <= i, i < h[0][t]), claim(h[1][t][i])), patterns=[h[1][t][i]]),
    ]
    return [Obl("C02/lemma/renamer/induction-step", hyp, claim(t), "lemma")]


KEYS_VISIT = ["_Renamer.visit_Name"]
HOOKS_VISIT = {"isinstance": V.isinstance_hook, "getattr": V.getattr_hook}
