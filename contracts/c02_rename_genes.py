"""C02 / C08 - cobra.manipulation.modify.rename_genes(model, rename_dict) and its NodeTransformer `_Renamer`.

Documented: "Rename genes in a model from the rename_dict: keys old gene names, values new gene names."  C02: an editing operation
changes the model exactly as documented, leaves everything else as it was, model.genes stays a well-formed DictList.

Notation: ren(k) = rename_dict.get(k, k); for a set K of absent genes pre(K) = {k : ren(k) in K} (the PREIMAGE of K under the
renaming).  The identifiers of Name nodes are WRITTEN here, so the rule semantics takes the identifier array as one more argument:
semi(ID, VN, VS, BD, x, K) - the same one-step unfolding as `semh` of c08_visitors (Name: ID[x] not in K; Or / And; root).

PROVED
(1) `_Renamer.visit_Name` (key `_Renamer.visit_Name`): the node itself is returned; exactly ITS identifier is written, to
    ren(old identifier) (ID1 == Store(ID0, node, ren(ID0[node])): no other node, no other field - tags, operators, child lists
    and bodies are outside the write set); and for an ARBITRARY set K of absent genes (the constant vis_K)
        semi(ID1, h, node, K) == semi(ID0, h, node, pre(K))
    "the renamed rule with K absent is the old rule with the genes absent whose new name is in K".  For a renaming that is injective
    on the names of the rule pre(ren(K)) agrees with K on these names: the renamed rule with ren(K) absent is the old rule with K
    absent - the form of the statement the property text suggests; the preimage form needs no injectivity and says what happens when
    two genes are renamed onto one identifier (the merged gene is absent exactly when ... either old one was: pre(K) contains both).
    Lemma `C02/lemma/renamer/induction-step` (closed formula, z3): for ANY node t of a rule tree whose shape (tags, operators,
    child lists, body) is the same before and after, if every Name node's identifier went through ren (what visit_Name proves) and
    the claim holds for the children / the body of t, then it holds for t: semi(ID1, h, t, K) == semi(ID0, h, t, pre(K)).  With
    ast.NodeTransformer.generic_visit (every child visited, each replaced by the - identical - node returned; ASSUMED, finite trees)
    this is the claim for whole rules.
(2) `rename_genes` (key `rename_genes`, hook table HOOKS; a model with any number of genes / reactions / groups, a dictionary of any
    size, no context open), for the STATED CASE `fresh new identifiers` (PRE1, the case's requires / domain):
        every new identifier names no gene of the model, is not itself a key of the dictionary (no chains, no identity entries),
        and two keys that name genes of the model have different new identifiers (no two genes onto one identifier).
    Under PRE1 the merge branch (`new_name in model.genes`) is unreachable (shown: the path is infeasible under the invariant).
    Loop `for old_name, new_name in rename_dict.items()` (ghost enumeration of the dictionary, any order), invariant after EVERY
    entry: model.genes is a well-formed DictList (list and index agree in both directions) with its entry members at their entry
    positions; identifier(g) == rename_dict[entry id] for a member g whose entry identifier is a handled key, == the entry identifier
    for every other object; the set recompute_reactions is exactly the union of the entry reaction sets of the members whose entry
    identifier is a handled key (both inclusions); remove_genes stays empty.  (DictList.index / __contains__ / __getitem__ /
    _generate_index by their proved C15 contracts - index needs a well-formed list at every iteration, _generate_index gives one back
    only for pairwise different identifiers, which is obliged from the invariant and PRE1.)
    Loop `for rxn in recompute_reactions` (ghost enumeration of the set): a reaction of the set with a rule object that has been
    visited has semi(ID_now, h, rule, K) == semi(ID_entry, h, rule, pre(K)) for the arbitrary K; every other rule object keeps its
    value for K and for pre(K); the ghost set of visited rule objects is exactly {rule(x) : x handled, rule(x) is not None}.
    Post-condition, for the state SN in which `model.repair()` is called (exactly one such call; RECORDED, its write set - model.genes,
    gene sets, reaction sets, model pointers - havocked): the three parts above with `all keys handled`; explicitly: a key k naming a
    gene of the model: rename_dict[k] is in the index at the OLD position of k, k is not in the index any more; a non-key identifier of
    the model is found as before; model pointers, group members, reaction sets, gene sets, rule pointers, tags, operators, child
    lists, bodies, model.reactions and model.groups are as at entry.  After repair() the loop over remove_genes runs over the empty
    set (nothing happens).
    NOT proved: (a) calls outside PRE1 - chains, two old identifiers onto one new one, a new identifier already in use (the MERGE
    branch with its group handling, repair 7173bc7): see the native observations below; (b) the effect of Model.repair() (it re-derives
    every reaction's gene set through update_genes_from_gpr, whose own contract is contracts/c02_update_genes.py): the composition -
    `a reaction's genes are exactly the genes of its rule` afterwards - needs names(renamed rule) = ren(names(old rule)), which is not
    stated here (semantic statement only); (c) the in-context behaviour (undo registrations); (d) the identifier frame of Name nodes
    outside the visited rules is stated at the value level (semi unchanged for K and pre(K)), not as `ID unchanged`.
    PRECONDITIONS (stated): no context open; model.genes a well-formed DictList; every rule object (`_gpr` of any reaction, when not
    None) is a GPR object owned by that one reaction (ghost inverse rn_gown).
    ASSUMED (listed in the evidence): `_Renamer.visit` on the ROOT GPR object (ast.NodeTransformer: every node below is visited
    once, Name nodes by the PROVED visit_Name, every child list rebuilt with the same nodes; tree induction with the PROVED step
    lemma gives the value clause; rule trees of different GPR objects share no node); `_Renamer(d)`: a new visitor holding d itself;
    the Object.id setter for a string: `_id := value` on every branch (Gene does not override Object._set_id_with_model);
    Species.reactions = a new set with the content of `_reaction`; GPR.copy() returns another object and writes nothing that exists.

Native observations OUTSIDE PRE1 (/venv/bin/python against /repo, 5-reaction model, genes g1..g4, a group {g1, g2}; the source comment
says "undefined if there a value matches a different key"):
  * chain {"g1": "x", "x": "y"} (x, y unused), in this insertion order: the gene is renamed twice (g1 -> x -> y) but _Renamer applies
    the dictionary ONCE to the rules (g1 -> x): repair() then creates a NEW gene x for the rules and the renamed gene y is left without
    reactions (in the group, in model.genes); in the other insertion order only g1 -> x happens.  Cross references agree afterwards.
  * chained merge {"g1": "g2", "g2": "g3"} (either order): KeyError 'g2' from `model.genes.get_by_id(rename_dict[i.id])` in the final
    loop (g2 has been removed when g1 asks for its merge target) AFTER the model was changed: model.genes == [g1, g3, g4], rules
    "g2 and g3", "(g2 or g4) and g3" name a gene object g2 that is no longer in model.genes - cross references broken.  Whether
    the KeyError is raised depends on the iteration order of the set remove_genes (7 of 20 runs of a two-reaction model: no
    exception), but in BOTH outcomes a reaction keeps the removed gene g2 in its gene set (rules renamed once: "g2 and g3", gene g2
    merged away).  FINDING (reported; outside the case proved here).
  * {"g1": "n", "g2": "n"}, {"g1": "g2"} (merge), {"g1": "g1"}: documented behaviour, cross references agree, group repaired.
  * inside PRE1 ({"g1": "n1", "g3": "n3", "zz": "n9"}): identifiers / rules as specified; new rule with K absent == old rule with
    pre(K) absent for all 256 subsets K of the 8 identifiers in play x 5 rules: no deviation.

Mutation trials (tools/mutate_and_run.sh on cobra/manipulation/modify.py; every mutant left the named obligation unproved.  loop#1
conjuncts: 1-3 well-formedness (length, list -> index, index -> list), 4 identifiers, 5-6 recompute set, 7 remove_genes empty)
  visit_Name: `.get(node.id, node.id)` -> `.get(node.id, None)`              engine: cannot store None as identifier (no path verified)
  visit_Name: `.get(node.id, node.id)` -> `.get(node.id, 'x')`               visit_Name post.2 (identifier), post.3 (value)
  visit_Name: assignment to node.id dropped                                   visit_Name post.2, post.3
  visit_Name: `return node` -> `return None`                                  visit_Name post.1 (the node itself is returned)
  rename_genes: per-entry `model.genes._generate_index()` dropped             loop#1/inv-preserve.2, .3
  rename_genes: index rebuilt ONCE after the loop (the seeded mutant)         loop#1/inv-preserve.2, .3  (under PRE1 the mutant's FINAL
      state equals the original's: it is the invariant `well formed after every entry` - and with it the precondition of
      DictList.index in the next iteration - that rejects it; its visible misbehaviour needs dependent entries, outside PRE1)
  rename_genes: `gene.id = new_name` -> `= old_name`                          loop#1/inv-preserve.4
  rename_genes: `recompute_reactions.update(gene.reactions)` dropped          loop#1/inv-preserve.6
  rename_genes: `model.genes[gene_index]` -> `model.genes[0]`                 loop#1/inv-preserve.4, .5, .6
  rename_genes: `_Renamer(rename_dict)` -> `_Renamer({})`                     loop#2/inv-preserve.1, .2
  rename_genes: `gene_renamer.visit(rxn.gpr)` dropped                         loop#2/inv-preserve.1, .3
  rename_genes: rule loop over model.reactions instead of the set             not verified (checker refuses: the invariant is over a set enumeration)
  rename_genes: `model.repair()` dropped                                      post (no recorded call)
Vacuity guards: the engine's own check `an iteration is possible under the invariant` for both loops; a probe conjunct `i <= 0` added
to the invariant of the rule loop is NOT provable (RN_PROBE=1).
"""
import z3
from .common import *  # noqa
from . import c15_dictlist as C15  # noqa
from . import c07_knockout as C7
from . import c08_visitors as V
from .c07_knockout import T_EXPRESSION, T_GPR, T_NAME, T_BOOLOP, T_OR, T_AND, IdSet

MM = "cobra/manipulation/modify.py"
REG.classes.setdefault("_Renamer", ["NodeTransformer"])
REG.classes.setdefault("NodeTransformer", ["NodeVisitor"])
REG.classes.setdefault("NodeVisitor", [])
RefInt, RefSeq, RefRef = V.RefInt, V.RefSeq, V.RefRef
RefId = z3.ArraySort(Ref, Id)
IdId = z3.ArraySort(Id, Id)
K_ = V.VIS_K

semi = z3.Function("semh_ids", RefId, RefInt, RefSeq, RefRef, Ref, IdSet, z3.BoolSort())
preimage = z3.Function("idset_preimage", IdSet, IdId, IdSet, IdSet)       # preimage(dom, val, K) = {k : ren(k) in K}


def ren(dom, val, k):
    """rename_dict.get(k, k)"""
    return z3.If(z3.Select(dom, k), z3.Select(val, k), k)


def semi_axioms_arr(tg, op, at=None):
    """one-step unfolding of semi for EVERY identifier array and heap; definition of the preimage of an identifier set"""
    ID, VN, VS, BD = z3.Const("iID", RefId), z3.Const("iVN", RefInt), z3.Const("iVS", RefSeq), z3.Const("iBD", RefRef)
    x, K, i, k = z3.Const("ix", Ref), z3.Const("iK", IdSet), z3.Int("ii"), z3.Const("ik", Id)
    d, v = z3.Const("id_", IdSet), z3.Const("iv", IdId)
    hv = [ID, VN, VS, BD] + ([x] if at is None else [])
    if at is not None:
        x = at
    S = lambda x_, K_: semi(ID, VN, VS, BD, x_, K_)  # noqa
    n, kid = VN[x], (lambda j: VS[x][j])
    is_root = z3.Or(tg[x] == T_EXPRESSION, tg[x] == T_GPR)
    kids_any = z3.Exists([i], z3.And(0 <= i, i < n, S(kid(i), K)))
    kids_all = z3.ForAll([i], z3.Implies(z3.And(0 <= i, i < n), S(kid(i), K)))
    return [
        z3.ForAll(hv + [K], z3.Implies(z3.And(is_root, BD[x] == NULL), S(x, K)), patterns=[S(x, K)]),
        z3.ForAll(hv + [K], z3.Implies(z3.And(is_root, BD[x] != NULL), S(x, K) == S(BD[x], K)), patterns=[S(x, K)]),
        z3.ForAll(hv + [K], z3.Implies(tg[x] == T_NAME, S(x, K) == z3.Not(K[ID[x]])), patterns=[S(x, K)]),
        z3.ForAll(hv + [K], z3.Implies(z3.And(tg[x] == T_BOOLOP, tg[op[x]] == T_OR), S(x, K) == kids_any), patterns=[S(x, K)]),
        z3.ForAll(hv + [K], z3.Implies(z3.And(tg[x] == T_BOOLOP, tg[op[x]] == T_AND), S(x, K) == kids_all), patterns=[S(x, K)]),
        z3.ForAll([d, v, K, k], preimage(d, v, K)[k] == K[ren(d, v, k)], patterns=[preimage(d, v, K)[k]]),
    ]


def semi_axioms(E, st):
    return semi_axioms_arr(V.H(E, st, "ast_tag"), V.H(E, st, "op"))


# ---------------------------------------------------------------- (1) _Renamer.visit_Name
def _renamer_t():
    return TObj("_Renamer", {"rename_dict": TDict("id", "id")})


def rdict(E, st=None):
    st = st or E.s0
    rec = st.objs[st.objs[E["self"].oid]["attr:rename_dict"].oid]
    if rec.get("lazy"):
        return z3.K(Id, z3.BoolVal(False)), z3.K(Id, z3.Const("no_id", Id))
    return rec["dom"], rec["val"]


def _vn_post(E):
    t = E["node"].t
    ID0, ID1 = V.H(E, E.s0, "id"), V.H(E, E.s1, "id")
    h = V.heap3(E, E.s0)
    dom, val = rdict(E)
    res = E.res.t if isinstance(E.res, VRef) else NULL
    return z3.And(res == t,                                                       # the node itself is returned
                  ID1 == z3.Store(ID0, t, ren(dom, val, ID0[t])),                 # exactly this node's identifier, to ren(old)
                  semi(ID1, *h, t, K_) == semi(ID0, *h, t, preimage(dom, val, K_)))


def _tag_is(E, tag):
    return V.H(E, E.s0, "ast_tag")[E["node"].t] == tag


_vn_case = Case("Name", requires=lambda E: _tag_is(E, T_NAME), ensures=_vn_post)
_vn_case.domain = _vn_case.requires
REG.add(Contract(MM, "_Renamer.visit_Name", "C02", [("self", _renamer_t()), ("node", TRef("AstNode"))], [_vn_case],
                 pre=lambda E: E["node"].t != NULL, modifies=lambda E: [("heap", "id")], axioms=lambda E: semi_axioms(E, E.s0),
                 key="_Renamer.visit_Name", props=["C02", "C08"],
                 note="visit_Name is reached for Name nodes only (dispatch of ast.NodeVisitor.visit)"))


def lemmas():
    """induction step of: every Name identifier of the tree t went through ren, the shape is unchanged
    ==> semi(ID1, h, t, K) == semi(ID0, h, t, pre(K))"""
    from pyvc.engine import Obl
    tg, op = z3.Const("rl_tag", RefInt), z3.Const("rl_op", RefRef)
    ID0, ID1 = z3.Const("rl_ID0", RefId), z3.Const("rl_ID1", RefId)
    h = (z3.Const("rl_VN", RefInt), z3.Const("rl_VS", RefSeq), z3.Const("rl_BD", RefRef))
    d, v = z3.Const("rl_dom", IdSet), z3.Const("rl_val", IdId)
    t, K, i = z3.Const("rl_t", Ref), z3.Const("rl_K", IdSet), z3.Int("rl_i")
    P = preimage(d, v, K)
    is_root = z3.Or(tg[t] == T_EXPRESSION, tg[t] == T_GPR)
    claim = lambda y: semi(ID1, *h, y, K) == semi(ID0, *h, y, P)  # noqa
    hyp = semi_axioms_arr(tg, op, at=t) + [
        t != NULL, z3.Or(is_root, tg[t] == T_NAME, z3.And(tg[t] == T_BOOLOP, z3.Or(tg[op[t]] == T_OR, tg[op[t]] == T_AND))),
        z3.Implies(tg[t] == T_NAME, ID1[t] == ren(d, v, ID0[t])),                  # what visit_Name proves
        z3.Implies(z3.And(is_root, h[2][t] != NULL), claim(h[2][t])),              # induction hypothesis: body, children
        z3.ForAll([i], z3.Implies(z3.And(0 <= i, i < h[0][t]), claim(h[1][t][i])), patterns=[h[1][t][i]]),
    ]
    return [Obl("C02/lemma/renamer/induction-step", hyp, claim(t), "lemma")]


KEYS_VISIT = ["_Renamer.visit_Name"]
HOOKS_VISIT = {"isinstance": V.isinstance_hook, "getattr": V.getattr_hook}


# ================================================================ (2) rename_genes
from . import c03_context as C3  # noqa
from . import c02_remove_genes as RG  # noqa
from pyvc.state import alloc_set, alloc_obj  # noqa
from pyvc.loops import havoc_locations  # noqa

REG.fields.update({"_gpr": "ref:GPR", "_model": "ref:Model", "_members": "set:ref:Object", "_genes": "set:ref:Gene",
                   "_reaction": "set:ref:Reaction"})
REG.inline.add("Reaction.gpr@getter")
I_ = z3.IntSort()
RefSet = z3.ArraySort(Ref, z3.BoolSort())
EMPTYR = z3.K(Ref, z3.BoolVal(False))


def Hh(E, st, f):
    return E.eng.heap_arr(st, f)


def _model_t():
    return TObj("Model", {"_contexts": TList("ref:HistoryManager"), "genes": TDictList("Gene"), "reactions": TDictList("Reaction"),
                          "groups": TDictList("Group")})


def _entry_model(eng):
    m = (getattr(eng, "entry_args", None) or {}).get("model")
    return m if isinstance(m, VObj) and m.cls == "Model" else None


def g_getattr_hook(eng, st, v, name):
    if isinstance(v, VRef) and v.cls == "Gene" and name == "reactions":
        # Species.reactions: frozenset(self._reaction) - a new set with the gene's current reaction set
        st2, s = alloc_set(st, "ref:Reaction", dom=z3.Select(eng.heap_arr(st, "_reaction"), v.t))
        return [("ok", st2, s)]
    if isinstance(v, VObj) and v.cls == "_Renamer" and name == "visit":
        return [("ok", st, VFunc("bound", v, "visit"))]             # ast.NodeVisitor.visit: see the call_method hook
    return None


def g_setattr_hook(eng, st, v, name, val):
    if isinstance(v, VRef) and v.cls == "Gene" and name == "id" and isinstance(val, VStr):
        # ASSUMED: the Object.id setter for a string - `_id := value` on every branch (equal: pass; in a model:
        # Object._set_id_with_model, which Gene does not override, is `self._id = value`; otherwise `self._id = value`)
        return [("ok", st.setheap("_id", z3.Store(eng.heap_arr(st, "_id"), v.t, val.t)), NONE)]
    return None


def vis(st):
    return st.ghost.get("rn_vis", EMPTYR)


def _rd(st, d):
    rec = st.objs[d.oid]
    if rec.get("lazy"):
        return z3.K(Id, z3.BoolVal(False)), z3.K(Id, z3.Const("no_id", Id))
    return rec["dom"], rec["val"]


def _sdom(st, v, sort=Ref):
    rec = st.objs[v.oid]
    return z3.K(sort, z3.BoolVal(False)) if rec.get("lazy") else rec["dom"]


def g_call_method_hook(eng, st, recv, name, pos, kw):
    m = _entry_model(eng)
    if m is None:
        return None
    mrec = st.objs[m.oid]
    if isinstance(recv, VRef) and recv.cls == "GPR" and name == "copy" and not pos and not kw:
        # ASSUMED: GPR.copy() (deepcopy) returns another object and writes nothing that exists (the copy is only used by the undo
        # registration inside a context)
        r = fresh("gpr_copy", Ref)
        return [("ok", st.assume(r != NULL, r != recv.t), VRef(r, "GPR"))]
    if isinstance(recv, VObj) and recv.cls == "_Renamer" and name == "visit" and len(pos) == 1 and not kw \
            and isinstance(pos[0], VRef) and pos[0].cls == "GPR":
        return _visit_root(eng, st, recv, pos[0])
    if isinstance(recv, VObj) and recv.oid == m.oid and name == "repair" and not pos and not kw:
        # RECORDED call (the state as it is now); then everything Model.repair may write in view is havocked
        if "rn_repair" in st.ghost:
            raise Unsupported("a second Model.repair call")
        st = st.setghost("rn_repair", st)
        gl = mrec["attr:genes"]
        st = havoc_locations(eng, st, [("list", gl), ("dict", dict_of(st, gl)), ("heap", "_genes"), ("heap", "_reaction"),
                                       ("heap", "_model")])
        return [("ok", st, NONE)]
    return None


def _visit_root(eng, st, recv, node):
    """ASSUMED: ast.NodeTransformer.visit on the ROOT of a rule (GPR object): generic_visit visits the body, every node below is
    visited once, every Name node by the PROVED visit_Name (identifier := ren(identifier), node returned, so every child list is
    rebuilt with the same nodes), nothing else is written; by tree induction with the proved lemma renamer/induction-step:
    semi(ID1, h, g, K) == semi(ID0, h, g, pre(K)).  SEPARATION: rule trees of different GPR objects share no node."""
    g = node.t
    tg = eng.heap_arr(st, "ast_tag")
    eng.oblige(st, z3.And(g != NULL, tg[g] == T_GPR), "call:_Renamer.visit(root)/pre", kind="callpre")
    ID0 = eng.heap_arr(st, "id")
    h = tuple(eng.heap_arr(st, f) for f in ("values_n", "values_seq", "body"))
    dom, val = _rd(st, st.objs[recv.oid]["attr:rename_dict"])
    P = preimage(dom, val, K_)
    ID1 = fresh("id_after_visit", RefId)
    y = qv("sy", Ref)
    same = lambda KK: semi(ID1, *h, y, KK) == semi(ID0, *h, y, KK)  # noqa
    st = st.setheap("id", ID1).assume(
        semi(ID1, *h, g, K_) == semi(ID0, *h, g, P),
        FA([y], z3.Implies(z3.And(tg[y] == T_GPR, y != g), z3.And(same(K_), same(P))),
           patterns=[semi(ID1, *h, y, K_), semi(ID1, *h, y, P)]))
    st = st.setghost("rn_vis", z3.Store(vis(st), g, z3.BoolVal(True)))
    return [("ok", st, node)]


def _renamer_new(eng, st, E):
    return alloc_obj(st, "_Renamer", {"attr:rename_dict": E["rename_dict"]})


REG.add(Contract(MM, "_Renamer.__init__", "C02", [("self", TNone()), ("rename_dict", TDict("id", "id"))], [Case("new")], assumed=True,
                 key="_Renamer.__init__", result=_renamer_new,
                 note="_Renamer(d): a new visitor whose rename_dict IS the given dictionary (two-line constructor; super().__init__ of "
                      "ast.NodeTransformer does nothing)"))


HOOKS = chain_hooks({"getattr": g_getattr_hook, "setattr": g_setattr_hook, "call_method": g_call_method_hook},
                    {"isinstance": V.isinstance_hook, "getattr": V.getattr_hook})


GOWN = z3.Const("rn_gown", RefRef)        # ghost: the reaction owning a GPR object


class _Cx:
    def __init__(self, E):
        self.E = E
        mrec = E.s0.objs[E["model"].oid]
        self.gl, self.rx, self.gr = mrec["attr:genes"], mrec["attr:reactions"], mrec["attr:groups"]
        self.n0, self.e0 = L(E.s0, self.gl)
        self.dom0, self.val0 = Dv(E.s0, self.gl)
        self.ids0 = idarr(E, E.s0)
        self.rdom, self.rval = _rd(E.s0, E["rename_dict"])
        self.R0 = Hh(E, E.s0, "_reaction")
        self.gpr = Hh(E, E.s0, "_gpr")
        self.tg = Hh(E, E.s0, "ast_tag")
        self.ID0 = Hh(E, E.s0, "id")
        self.h = V.heap3(E, E.s0)
        self.P = preimage(self.rdom, self.rval, K_)

    def memb0(self, g):
        return z3.And(z3.Select(self.dom0, self.ids0[g]), self.e0[self.val0[self.ids0[g]]] == g)


def _pre(E):
    c = _Cx(E)
    k, k2, x = qv("pk", Id), qv("pk2", Id), qv("px", Ref)
    g = c.gpr[x]
    return z3.And(WF(E, E.s0, c.gl), C3._ctx_nonnull(E, "model"), C3._ctxs(E.s0, E["model"])[0] == 0,
                  # every rule object is a GPR object owned by one reaction
                  FA([x], z3.Implies(g != NULL, z3.And(c.tg[g] == T_GPR, GOWN[g] == x)), patterns=[g]))


def _fresh_new_ids(E):
    """PRE1: every new identifier is unused (names no gene of the model), is not itself an old identifier of the dictionary (no
    chains, no identity entries), and two old identifiers that name genes of the model have different new identifiers (no merge)"""
    c = _Cx(E)
    k, k2 = qv("pk", Id), qv("pk2", Id)
    return z3.And(FA([k], z3.Implies(c.rdom[k], z3.And(z3.Not(z3.Select(c.dom0, c.rval[k])), z3.Not(c.rdom[c.rval[k]]))),
                     patterns=[c.rdom[k]]),
                  FA([k, k2], z3.Implies(z3.And(c.rdom[k], c.rdom[k2], k != k2, z3.Select(c.dom0, k), z3.Select(c.dom0, k2)),
                                         c.rval[k] != c.rval[k2]), patterns=[z3.MultiPattern(c.rval[k], c.rval[k2])]))


def _genes_part(E, st, done):
    """model.genes and the identifiers when the entries k with done(k) have been handled"""
    c = _Cx(E)
    n, e = L(st, c.gl)
    ids = idarr(E, st)
    g = qv("ig", Ref)
    return [same_list(E, E.s0, st, c.gl), WF(E, st, c.gl),
            FA([g], ids[g] == z3.If(z3.And(c.memb0(g), done(c.ids0[g])), c.rval[c.ids0[g]], c.ids0[g]), patterns=[ids[g]])]


def _rc_part(E, RC, done):
    """RC (a set of reactions) = the reactions listed by a gene of the model whose identifier is a handled key"""
    c = _Cx(E)
    x, j, j2 = qv("cx", Ref), qv("cj"), qv("cj2")
    ren_ = lambda p: z3.And(0 <= p, p < c.n0, done(c.ids0[c.e0[p]]))  # noqa
    return [FA([x], z3.Implies(RC[x], z3.Exists([j2], z3.And(ren_(j2), c.R0[c.e0[j2]][x]))), patterns=[RC[x]]),
            FA([j, x], z3.Implies(z3.And(ren_(j), c.R0[c.e0[j]][x]), RC[x]), patterns=[c.R0[c.e0[j]][x]])]


def _dict_order(st, d):
    rec = st.objs[d.oid]
    return st.ghost[("order", d.oid, rec["dom"].get_id())]


# ---- loop 1: `for old_name, new_name in rename_dict.items()`
def _inv1(E, Lc):
    c = _Cx(E)
    order, pos, card = _dict_order(Lc.st, E["rename_dict"])
    done = lambda k: z3.And(c.rdom[k], pos[k] < Lc.i)  # noqa
    x = qv("rx", Ref)
    RC = _sdom(Lc.st, Lc.var("recompute_reactions"))
    RGs = _sdom(Lc.st, Lc.var("remove_genes"))
    return z3.And(*(_genes_part(E, Lc.st, done) + _rc_part(E, RC, done) + [FA([x], z3.Not(RGs[x]), patterns=[RGs[x]])]))


def _mod1(E, Lc):
    gl = _Cx(E).gl
    return [("heap", "_id"), ("attr", gl, "_dict", lambda st: alloc_dict_id_int(st)),
            ("setlazy", Lc.var("recompute_reactions"), "ref:Reaction")]


# ---- loop 2: `for rxn in recompute_reactions`
def _rules_part(E, st, visited):
    c = _Cx(E)
    ID1 = Hh(E, st, "id")
    x = qv("vx", Ref)
    g = c.gpr[x]
    same = lambda KK: semi(ID1, *c.h, g, KK) == semi(c.ID0, *c.h, g, KK)  # noqa
    VIS = vis(st)
    y = qv("vy", Ref)
    return [FA([x], z3.Implies(z3.And(g != NULL, visited(x)), semi(ID1, *c.h, g, K_) == semi(c.ID0, *c.h, g, c.P)), patterns=[g]),
            FA([x], z3.Implies(z3.And(g != NULL, z3.Not(visited(x))), z3.And(same(K_), same(c.P))), patterns=[g]),
            FA([y], VIS[y] == z3.And(y != NULL, c.gpr[GOWN[y]] == y, visited(GOWN[y])), patterns=[VIS[y]])]


def _inv2(E, Lc):
    _, order, pos, D = Lc.seq.src[:4]
    visited = lambda x: z3.And(D[x], pos[x] < Lc.i)  # noqa
    import os
    probe = [Lc.i <= 0] if os.environ.get("RN_PROBE") else []
    return z3.And(*(_rules_part(E, Lc.st, visited) + probe))


def _mod2(E, Lc):
    return [("heap", "id"), ("ghost", "rn_vis", lambda st: fresh("rn_vis", RefSet))]


def _post(E):
    sn = E.s1.ghost.get("rn_repair")
    if sn is None:
        return z3.BoolVal(False)
    c = _Cx(E)
    done = lambda k: c.rdom[k]  # noqa
    rc = None
    for _fid, (_parent, vars_) in sn.frames.items():
        if "recompute_reactions" in vars_ and "gene_renamer" in vars_:
            rc = vars_["recompute_reactions"]
    if rc is None:
        return z3.BoolVal(False)
    RC = _sdom(sn, rc)
    domN, valN = Dv(sn, c.gl)
    k = qv("qk", Id)
    cs = _genes_part(E, sn, done) + _rc_part(E, RC, done) + _rules_part(E, sn, lambda x: RC[x])
    # lookups: a renamed gene is found under its new identifier at its old position and not under the old one; the others as before
    cs += [FA([k], z3.Implies(z3.And(c.rdom[k], z3.Select(c.dom0, k)),
                              z3.And(z3.Select(domN, c.rval[k]), valN[c.rval[k]] == c.val0[k], z3.Not(z3.Select(domN, k)))),
              patterns=[c.rval[k]]),
           FA([k], z3.Implies(z3.And(z3.Not(c.rdom[k]), z3.Select(c.dom0, k)), z3.And(z3.Select(domN, k), valN[k] == c.val0[k])),
              patterns=[z3.Select(domN, k)])]
    # nothing else is written before Model.repair() is called
    for f in ("_model", "_members", "_reaction", "_genes", "_gpr", "values_n", "values_seq", "body", "ast_tag", "op"):
        a, b = Hh(E, sn, f), Hh(E, E.s0, f)
        if not a.eq(b):
            cs.append(a == b)
    cs += [same_list(E, E.s0, sn, c.rx), same_index(E, E.s0, sn, c.rx), same_list(E, E.s0, sn, c.gr), same_index(E, E.s0, sn, c.gr)]
    return z3.And(*cs)


def _mod(E):
    c = _Cx(E)
    return (dl_locs(Env({"self": c.gl}, E.s0, eng=E.eng)) + [("attr", c.gl, "_dict", lambda st: alloc_dict_id_int(st))] +
            [("heap", f) for f in ("_id", "id", "_genes", "_reaction", "_model")] +
            [("ghost", "rn_vis", lambda st: fresh("rn_vis", RefSet))])


_c1 = Case("fresh_new_ids:no_context", requires=_fresh_new_ids, ensures=_post)
_c1.domain = _c1.requires          # stated restriction: calls with dependent entries / merges are outside this case
REG.add(Contract(MM, "rename_genes", "C02", [("model", _model_t()), ("rename_dict", TDict("id", "id"))], [_c1],
                 pre=_pre, modifies=_mod, key="rename_genes", props=["C02"],
                 axioms=lambda E: semi_axioms(E, E.s0),
                 loops={1: LoopSpec(_inv1, _mod1), 2: LoopSpec(_inv2, _mod2)},
                 note="no context open; PRE1 (case requires): every new identifier unused, no chains, no two genes renamed onto one "
                      "identifier; Model.repair() RECORDED (state) and its write set havocked; _Renamer.visit on the root GPR object, "
                      "the renamer's constructor, the Object.id setter (`_id := value`), GPR.copy (another object) assumed as "
                      "described in the module docstring"))
KEYS = ["rename_genes"]
