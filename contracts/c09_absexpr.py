"""C09 (kernel) — util.solver.add_absolute_expression through the opaque expression algebra, plus the lemma that makes it an
absolute value: with  expr - var <= d  and  expr + var >= d  and var >= 0 :  var >= |expr - d|, and |expr - d| is admissible."""
import z3
import cobra  # noqa
from .common import *  # noqa
from pyvc import npalg as N

MS = "cobra/util/solver.py"
REG.records = getattr(REG, "records", set()) | {"Components"}


def global_hook(eng, name):
    if name == "add_cons_vars_to_problem":
        return VFunc("abstract", "add_cons_vars_to_problem")
    if name == "Components":
        return VClass("ComponentsTuple")
    return None


def construct_components(eng, st, pos, kw):
    from pyvc.state import alloc_obj
    names = ("variable", "upper_constraint", "lower_constraint")
    st2, o = alloc_obj(st, "Components", {"attr:" + n: v for n, v in zip(names, pos)})
    return [("ok", st2, o)]


import pyvc.builtins as _B  # noqa
_B.CLASSES["ComponentsTuple"] = construct_components


def call_abstract(eng, st, f, pos, kw):
    if f.a == "add_cons_vars_to_problem":
        tr = st.ghost.get("trace", ())
        return [("ok", st.setghost("trace", tr + ((f.a, tuple(pos), tuple(sorted(kw.items(), key=lambda x: x[0]))),)), NONE)]
    return None


HOOKS = chain_hooks({"global": global_hook, "call_abstract": call_abstract}, N.HOOKS)


def _post(E):
    res = E.res
    if not (isinstance(res, VObj) and res.cls == "Components"):
        return z3.BoolVal(False)
    rec = E.s1.objs[res.oid]
    m = E["model"].t
    prob = N.term("attr.problem", m)
    name, ub, diff, expr = N.lift(E["name"]), N.lift(E["ub"]), N.lift(E["difference"]), E["expression"].t
    var = N.term("call(lb,ub)", N.term("attr.Variable", prob), name, N.lift(VInt(0)), ub)
    cname = lambda pre: N.term("add", N.lift(VConc(pre)), name)  # noqa
    upper = N.term("call(name,ub)", N.term("attr.Constraint", prob), N.term("sub", expr, var), cname("abs_pos_"), diff)
    lower = N.term("call(lb,name)", N.term("attr.Constraint", prob), N.term("add", expr, var), diff, cname("abs_neg_"))
    tr = E.s1.ghost.get("trace", ())
    want_add = isinstance(E["add"], VBool) and z3.is_true(z3.simplify(E["add"].t))
    added = (len(tr) == 1 and tr[0][0] == "add_cons_vars_to_problem" and len(tr[0][1]) == 2 and tr[0][1][1] is res) if want_add else len(tr) == 0
    ok = all(isinstance(rec.get("attr:" + n), N.VNp) for n in ("variable", "upper_constraint", "lower_constraint"))
    if not ok:
        return z3.BoolVal(False)
    return z3.And(z3.BoolVal(bool(added)), rec["attr:variable"].t == var, rec["attr:upper_constraint"].t == upper,
                  rec["attr:lower_constraint"].t == lower)


def _cases():
    out = []
    for tag, val in (("add_at_once", True), ("return_only", False)):
        c = Case(tag, ensures=_post)
        c.params_override = {"add": TConc(val)}
        out.append(c)
    return out


def lift_str_add():
    """"abs_pos_" + name with an opaque name"""
    return None


REG.add(Contract(MS, "add_absolute_expression", "C09",
                 [("model", N.TNp()), ("expression", N.TNp()), ("name", N.TNp()), ("ub", N.TNp()), ("difference", N.TNp()), ("add", TConc(True))],
                 _cases(), key="add_absolute_expression", modifies=lambda E: [("ghost", "trace", lambda st: ())]))


def lemmas():
    from pyvc.engine import Obl
    e, d, v = z3.Reals("a_e a_d a_v")
    absd = z3.If(e - d >= 0, e - d, d - e)
    rows = [e - v <= d, e + v >= d, v >= 0]
    return [Obl("C09/lemma/abs-expr/variable-at-least-distance", rows, v >= absd, "lemma"),
            Obl("C09/lemma/abs-expr/distance-is-admissible", [v == absd], z3.And(e - v <= d, e + v >= d, v >= 0), "lemma")]
