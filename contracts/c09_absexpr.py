"""C09 (kernel) — util.solver.add_absolute_expression through the opaque expression algebra, plus the lemma that makes it an
absolute value: with  expr - var <= d  and  expr + var >= d  and var >= 0 :  var >= |expr - d|, and |expr - d| is admissible."""
import z3
import cobra  # noqa
from .common import *  # noqa
from pyvc import npalg as N

MS = "cobra/util/solver.py"
REG.records = getattr(REG, "records", set()) | {"Components"}


def global_hook(eng, name):
    if name == "add_cons_vars_to_problem":
        return VFunc("abstract", "add_cons_vars_to_problem")
    if name == "Components":
        return VClass("ComponentsTuple")
    return None


def construct_components(eng, st, pos, kw):
    from pyvc.state import alloc_obj
    names = ("variable", "upper_constraint", "lower_constraint")
    st2, o = alloc_obj(st, "Components", dict({"attr:" + n: v for n, v in zip(names, pos)}, tuple_fields=names))
    return [("ok", st2, o)]


import pyvc.builtins as _B  # noqa
_B.CLASSES["ComponentsTuple"] = construct_components


def call_abstract(eng, st, f, pos, kw):
    if f.a == "add_cons_vars_to_problem":
        tr = st.ghost.get("trace", ())
        return [("ok", st.setghost("trace", tr + ((f.a, tuple(pos), tuple(sorted(kw.items(), key=lambda x: x[0]))),)), NONE)]
    return None


HOOKS = chain_hooks({"global": global_hook, "call_abstract": call_abstract}, N.HOOKS)


def problem_of(E):
    """model.problem: of an opaque model, or of a materialised Model object that carries the attribute (call sites in add_moma)"""
    m = E["model"]
    if isinstance(m, VObj):
        return E.s0.objs[m.oid]["attr:problem"].t
    return N.term("attr.problem", m.t)


def component_terms(prob, expr, name, ub, diff):
    """(variable, upper row, lower row) as documented:  Variable(name, lb=0, ub);  expr - var <= diff;  expr + var >= diff"""
    var = N.term("call(lb,ub)", N.term("attr.Variable", prob), name, N.lift(VInt(0)), ub)
    cname = lambda pre: N.term("add", N.lift(VConc(pre)), name)  # noqa
    upper = N.term("call(name,ub)", N.term("attr.Constraint", prob), N.term("sub", expr, var), cname("abs_pos_"), diff)
    lower = N.term("call(lb,name)", N.term("attr.Constraint", prob), N.term("add", expr, var), diff, cname("abs_neg_"))
    return var, upper, lower


def _post(E):
    res = E.res
    if not (isinstance(res, VObj) and res.cls == "Components"):
        return z3.BoolVal(False)
    rec = E.s1.objs[res.oid]
    prob = problem_of(E)
    if not isinstance(E["expression"], N.VNp):
        raise Unsupported(f"add_absolute_expression applied to {E['expression']!r}: not an opaque expression")
    name, ub, diff, expr = N.lift(E["name"]), N.lift(E["ub"]), N.lift(E["difference"]), E["expression"].t
    var, upper, lower = component_terms(prob, expr, name, ub, diff)
    tr0, tr = E.s0.ghost.get("trace", ()), E.s1.ghost.get("trace", ())
    if tr[:len(tr0)] != tr0:
        return z3.BoolVal(False)
    tr = tr[len(tr0):]         # the calls made by this function (at a call site the caller's trace is the prefix)
    want_add = _concrete_add(E["add"]) is True
    added = (len(tr) == 1 and tr[0][0] == "add_cons_vars_to_problem" and len(tr[0][1]) == 2 and tr[0][1][1] is res) if want_add else len(tr) == 0
    ok = all(isinstance(rec.get("attr:" + n), N.VNp) for n in ("variable", "upper_constraint", "lower_constraint"))
    if not ok:
        return z3.BoolVal(False)
    return z3.And(z3.BoolVal(bool(added)), rec["attr:variable"].t == var, rec["attr:upper_constraint"].t == upper,
                  rec["attr:lower_constraint"].t == lower)


def _concrete_add(v):
    if isinstance(v, VBool):
        t = z3.simplify(v.t)
        return True if z3.is_true(t) else False if z3.is_false(t) else None
    return None


def _cases():
    out = []
    for tag, val in (("add_at_once", True), ("return_only", False)):
        c = Case(tag, ensures=_post)
        c.params_override = {"add": TConc(val)}
        # at call sites: the case is chosen by the literal `add` argument; add=True only from a caller that has made no traced call yet
        # (the frame below resets the trace) - anything else finds no case and stays undecided
        c.applies = (lambda val: lambda a, st: _concrete_add(a.get("add")) is val and (not val or not st.ghost.get("trace")))(val)
        out.append(c)
    return out


def _result(eng, st, E):
    """call sites: a fresh Components tuple whose three fields the post-condition then determines"""
    from pyvc.state import alloc_obj
    names = ("variable", "upper_constraint", "lower_constraint")
    return alloc_obj(st, "Components", dict({"attr:" + n: N.VNp(fresh("np:" + n, N.NP)) for n in names}, tuple_fields=names))


def _modifies(E):
    return [] if _concrete_add(E["add"]) is False else [("ghost", "trace", lambda st: ())]


_ub_t = N.TNp()
_ub_t.default = NONE          # ub=None


def lift_str_add():
    """"abs_pos_" + name with an opaque name"""
    return None


REG.add(Contract(MS, "add_absolute_expression", "C09",
                 [("model", N.TNp()), ("expression", N.TNp()), ("name", N.TNp()), ("ub", _ub_t), ("difference", N.TNp()), ("add", TConc(True))],
                 _cases(), key="add_absolute_expression", modifies=_modifies, result=_result))


def lemmas():
    from pyvc.engine import Obl
    e, d, v = z3.Reals("a_e a_d a_v")
    absd = z3.If(e - d >= 0, e - d, d - e)
    rows = [e - v <= d, e + v >= d, v >= 0]
    return [Obl("C09/lemma/abs-expr/variable-at-least-distance", rows, v >= absd, "lemma"),
            Obl("C09/lemma/abs-expr/distance-is-admissible", [v == absd], z3.And(e - v <= d, e + v >= d, v >= 0), "lemma")]
