"""C02 — Model.add_metabolites (no context open): what joins the model and what the cross-references look like afterwards.

Documented: "Will add a list of metabolites to the model object and add new constraints accordingly."  The invariant it has to keep
(C02): identifiers unique, every member points at the model, a metabolite of the model lists only reactions of the model.
Proved for lists of any length, with the model's metabolite list of any length:
  * the metabolites that join are exactly those of the argument whose identifier is not yet in the model, in their order, appended
    to model.metabolites, which is well formed again (DictList.__iadd__'s contract; a repeated new identifier raises ValueError -
    stated, the pointers already set stay);
  * every metabolite that joins points at the model; no other model pointer changes;
  * every metabolite that joins lists afterwards exactly those of its reactions that belong to this model (the repair f52a176: the
    back-references to reactions outside the model are dropped); no other reaction set changes;
  * the mass-balance constraints handed to add_cons_vars (one call) are Constraint(Zero, name=<id>, lb=0, ub=0), one for every
    joining metabolite whose identifier names no constraint yet, and nothing else;
  * an empty argument changes nothing; an empty identifier among the joining ones raises ValueError before anything is changed.
"""
import z3
import cobra  # noqa
from .common import *  # noqa
from . import c03_context as C3
from . import c15_dictlist as C15
from pyvc import npalg as N
from pyvc.values import ident_of

MM = "cobra/core/model.py"
REG.fields.update({"_reaction": "set:ref:Reaction", "_model": "ref:Model"})
idlen = z3.Function("id_length", Id, z3.IntSort())


def _model_t():
    return TObj("Model", {"_contexts": TList("ref:HistoryManager"), "metabolites": TDictList("Metabolite"), "constraints": TSet("id"),
                          "problem": N.TNp()})


def Hh(E, st, f):
    return E.eng.heap_arr(st, f)


# ---------------------------------------------------------------- hooks
def len_hook(eng, st, v):
    if isinstance(v, VStr):
        return [("ok", st, VInt(idlen(v.t)))]
    return None


def global_hook(eng, name):
    if name == "Zero":
        return N.VNp(z3.Const("np:Zero", N.NP))
    return None


def call_method_hook(eng, st, recv, name, pos, kw):
    if isinstance(recv, VObj) and recv.cls == "Model" and name == "add_cons_vars":
        tr = st.ghost.get("am_trace", ())
        return [("ok", st.setghost("am_trace", tr + (("add_cons_vars", tuple(pos), st),)), NONE)]
    return None


def list_display_hook(eng, st, vs):
    """[constraint]: a real list of opaque terms (so that `to_add += [constraint]` is list concatenation)"""
    if vs and all(isinstance(v, N.VNp) for v in vs):
        from pyvc.state import alloc_list
        st2, l = alloc_list(st, "np", length=z3.IntVal(0))
        e = st2.objs[l.oid]["elem"]
        for i_, v in enumerate(vs):
            e = z3.Store(e, i_, v.t)
        return [("ok", st2.updobj(l.oid, len=z3.IntVal(len(vs)), elem=e), l)]
    return None


def hasattr_hook(eng, st, v, name):
    if isinstance(v, VObj) and v.kind == "list" and name == "__iter__":
        return True
    return None


HOOKS = chain_hooks({"len": len_hook, "global": global_hook, "call_method": call_method_hook, "hasattr": hasattr_hook,
                     "list_display": list_display_hook}, C3.ALL_HOOKS, N.HOOKS)


# ---------------------------------------------------------------- specification
def _me(E):
    return ident_of(E["self"].oid)


def _arg(E):
    return L(E.s0, E["metabolite_list"])


def _mets(E, st):
    return st.objs[E["self"].oid]["attr:metabolites"]


def _absent(E, x):
    """the identifier of x is not in the model at entry"""
    dom, _ = Dv(E.s0, _mets(E, E.s0))
    return z3.Not(z3.Select(dom, Hh(E, E.s0, "_id")[x]))


def _joins(E, x):
    n, e = _arg(E)
    j = qv("jj")
    return z3.Exists([j], z3.And(0 <= j, j < n, z3.Select(e, j) == x, _absent(E, x)))


def _pre(E):
    n, e = _arg(E)
    j, r = qv("pj"), qv("pr", Ref)
    R0 = Hh(E, E.s0, "_reaction")
    j3, j4 = qv("pj3"), qv("pj4")
    return z3.And(WF(E, E.s0, _mets(E, E.s0)), C3._ctxs(E.s0, E["self"])[0] == 0,          # no context open
                  # the argument holds pairwise different objects
                  FA([j3, j4], z3.Implies(z3.And(0 <= j3, j3 < j4, j4 < n), z3.Select(e, j3) != z3.Select(e, j4)),
                     patterns=[z3.MultiPattern(z3.Select(e, j3), z3.Select(e, j4))]),
                  FA([j], z3.Implies(z3.And(0 <= j, j < n), z3.Select(e, j) != NULL), patterns=[z3.Select(e, j)]),
                  # type discipline: a reaction listed by an argument metabolite is not itself an argument metabolite
                  FA([j, r], z3.Implies(z3.And(0 <= j, j < n, R0[z3.Select(e, j)][r]), z3.Not(_joins(E, r))),
                     patterns=[R0[z3.Select(e, j)][r]]))


def _some_bad(E):
    n, e = _arg(E)
    j = qv("bj")
    ids = Hh(E, E.s0, "_id")
    return z3.Exists([j], z3.And(0 <= j, j < n, _absent(E, z3.Select(e, j)), idlen(ids[z3.Select(e, j)]) < 1))


def _done(arr, lo, hi, x):
    k = qv("dk")
    return z3.Exists([k], z3.And(lo <= k, k < hi, z3.Select(arr, k) == x))


def _pointers(E, st, arr, lo, hi):
    """model pointers and reaction sets after the joining metabolites arr[lo..hi) were handled: each of them points at the model and
    lists exactly those of its entry reactions that belong to the model; nothing else differs from the entry state"""
    x, r, k = qv("sx", Ref), qv("sr", Ref), qv("sk")
    mo0, mo1 = Hh(E, E.s0, "_model"), Hh(E, st, "_model")
    R0, R1 = Hh(E, E.s0, "_reaction"), Hh(E, st, "_reaction")
    ak = z3.Select(arr, k)
    return z3.And(FA([k], z3.Implies(z3.And(lo <= k, k < hi), mo1[ak] == _me(E)), patterns=[ak]),
                  FA([x], z3.Implies(mo1[x] != mo0[x], _done(arr, lo, hi, x)), patterns=[mo1[x]]),
                  FA([k, r], z3.Implies(z3.And(lo <= k, k < hi), R1[ak][r] == z3.And(R0[ak][r], mo0[r] == _me(E))), patterns=[R1[ak][r]]),
                  FA([x, r], z3.Implies(R1[x][r] != R0[x][r], _done(arr, lo, hi, x)), patterns=[R1[x][r]]))


def _is_filtered(E, arr, lo, hi):
    """arr[lo..hi) holds exactly the joining metabolites (every element joins; every joining metabolite is an element)"""
    k, x = qv("fk"), qv("fx", Ref)
    return z3.And(hi >= lo,
                  FA([k], z3.Implies(z3.And(lo <= k, k < hi), _joins(E, z3.Select(arr, k))), patterns=[z3.Select(arr, k)]),
                  FA([x], z3.Implies(_joins(E, x), _done(arr, lo, hi, x))))


def _flist(Lc):
    lst = Lc.var("metabolite_list")
    return Lc.st.objs[lst.oid]["len"], Lc.st.objs[lst.oid]["elem"]


def _inv_pointers(E, Lc):
    m, fe = _flist(Lc)
    k, r = qv("hk"), qv("hr", Ref)
    R0 = Hh(E, E.s0, "_reaction")
    mo0, mo = Hh(E, E.s0, "_model"), Hh(E, Lc.st, "_model")
    # helper facts (consequences of the precondition and of the first conjuncts, stated so that the solver finds them):
    # a reaction listed by a joining metabolite is not itself among the joining ones, hence its model pointer is as at entry
    helper = z3.And(FA([k, r], z3.Implies(z3.And(0 <= k, k < m, R0[z3.Select(fe, k)][r]),
                                          z3.And(z3.Not(_done(fe, 0, m, r)), mo[r] == mo0[r])),
                       patterns=[R0[z3.Select(fe, k)][r]]))
    R = Hh(E, Lc.st, "_reaction")
    k2, r2 = qv("hk2"), qv("hr2", Ref)
    # the elements still to come are untouched (the argument holds pairwise different objects: precondition)
    pending = FA([k2, r2], z3.Implies(z3.And(Lc.i <= k2, k2 < m), R[z3.Select(fe, k2)][r2] == R0[z3.Select(fe, k2)][r2]),
                 patterns=[R[z3.Select(fe, k2)][r2]])
    k3, k4 = qv("hk3"), qv("hk4")
    distinct = FA([k3, k4], z3.Implies(z3.And(0 <= k3, k3 < k4, k4 < m), z3.Select(fe, k3) != z3.Select(fe, k4)),
                  patterns=[z3.MultiPattern(z3.Select(fe, k3), z3.Select(fe, k4))])
    return z3.And(Lc.n == m, _pointers(E, Lc.st, fe, 0, Lc.i), _is_filtered(E, fe, 0, m), helper, pending, distinct)


def _inv_constraints(E, Lc):
    m, fe = _flist(Lc)
    rec = Lc.st.objs[Lc.var("to_add").oid]
    return z3.And(Lc.n == m, _is_filtered(E, fe, 0, m), _cons_list(E, rec, fe, 0, Lc.i))


def _constraint_term(E, mid):
    prob = E.s0.objs[E["self"].oid]["attr:problem"].t
    return N.term("call(lb,name,ub)", N.term("attr.Constraint", prob), z3.Const("np:Zero", N.NP), N.lift(VInt(0)), N.of_id(mid), N.lift(VInt(0)))


def _cons_list(E, rec, arr, lo, hi):
    """to_add = the zero mass-balance constraints of the joining metabolites arr[lo..hi) whose identifier names no constraint yet"""
    if rec.get("untyped") or rec.get("ekind") != "np":
        return rec["len"] == 0
    n, e = rec["len"], rec["elem"]
    ids = Hh(E, E.s0, "_id")
    cons = E.s0.objs[E.s0.objs[E["self"].oid]["attr:constraints"].oid]
    has = (lambda k: z3.BoolVal(False)) if cons.get("lazy") else (lambda k: z3.Select(cons["dom"], k))
    k, j, w = qv("ck"), qv("cj"), qv("cw")
    return z3.And(n >= 0,
                  FA([k], z3.Implies(z3.And(0 <= k, k < n),
                                     z3.Exists([j], z3.And(lo <= j, j < hi, z3.Not(has(ids[z3.Select(arr, j)])),
                                                           z3.Select(e, k) == _constraint_term(E, ids[z3.Select(arr, j)])))),
                     patterns=[z3.Select(e, k)]),
                  FA([j], z3.Implies(z3.And(lo <= j, j < hi, z3.Not(has(ids[z3.Select(arr, j)]))),
                                     z3.Exists([w], z3.And(0 <= w, w < n, z3.Select(e, w) == _constraint_term(E, ids[z3.Select(arr, j)])))),
                     patterns=[z3.Select(arr, j)]))


def _post(E):
    tr = E.s1.ghost.get("am_trace", ())
    if len(tr) != 1 or len(tr[0][1]) != 1 or not isinstance(tr[0][1][0], VObj):
        return z3.BoolVal(False)
    ta, st_add = tr[0][1][0], tr[0][2]
    rec = st_add.objs[ta.oid]
    # the joining metabolites are the new tail of model.metabolites
    n0, e0 = L(E.s0, _mets(E, E.s0))
    n1, e1 = L(E.s1, _mets(E, E.s1))
    j = qv("oj")
    return z3.And(WF(E, E.s1, _mets(E, E.s1)), n1 >= n0,
                  FA([j], z3.Implies(z3.And(0 <= j, j < n0), z3.Select(e1, j) == z3.Select(e0, j)), patterns=[z3.Select(e1, j)]),
                  _is_filtered(E, e1, n0, n1), _pointers(E, E.s1, e1, n0, n1), _cons_list(E, rec, e1, n0, n1))


def _unchanged(E):
    x, r = qv("ux", Ref), qv("ur", Ref)
    n0, e0 = L(E.s0, _mets(E, E.s0))
    n1, e1 = L(E.s1, _mets(E, E.s1))
    return z3.And(FA([x], Hh(E, E.s1, "_model")[x] == Hh(E, E.s0, "_model")[x]),
                  FA([x, r], Hh(E, E.s1, "_reaction")[x][r] == Hh(E, E.s0, "_reaction")[x][r]),
                  n1 == n0, z3.BoolVal(len(E.s1.ghost.get("am_trace", ())) == 0))


def _mod(E):
    mets = _mets(E, E.s0)
    # the attribute keeps naming the same DictList object, whose content changes
    return dl_locs(Env({"self": mets}, E.s0, eng=E.eng)) + [("attr", E["self"], "metabolites", lambda st: (st, mets)), ("heap", "_model"), ("heap", "_reaction"), ("ghost", "am_trace", lambda st: ())]


_c_empty = Case("empty_argument", requires=lambda E: _arg(E)[0] == 0, ensures=_unchanged)
_c_bad = Case("empty_identifier", requires=lambda E: z3.And(_arg(E)[0] > 0, _some_bad(E)), raises="ValueError", ensures=_unchanged)
_c_ok = Case("joining", requires=lambda E: z3.And(_arg(E)[0] > 0, z3.Not(_some_bad(E))), ensures=_post)
_c_ok.may_raise = "ValueError"          # the same new identifier twice in the argument: DictList.__iadd__ raises (stated)
_c_ok.ensures_on_raise = lambda E: z3.BoolVal(True)
REG.add(Contract(MM, "Model.add_metabolites", "C02", [("self", _model_t()), ("metabolite_list", TList("ref:Metabolite"))],
                 [_c_empty, _c_bad, _c_ok], pre=_pre, modifies=_mod, key="Model.add_metabolites",
                 loops={0: LoopSpec(_inv_pointers, lambda E, Lc: [("heap", "_model"), ("heap", "_reaction")]),
                        1: LoopSpec(_inv_constraints, lambda E, Lc: [("list", Lc.var("to_add"), "np")])},
                 note="no context open; the argument is a list of pairwise different objects (a single metabolite is wrapped by the "
                      "function itself: not covered)"))
