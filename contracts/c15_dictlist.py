"""C15 — contracts for cobra.core.dictlist.DictList (DESIGN.md Appendix A).

View: E = element sequence, I = `_dict` (dom,val), id(x) = heap field `_id`.  Every case requires WF and ensures WF'
plus the *whole* new sequence; raising cases must leave list and index unchanged.
"""
import z3
from .common import *  # noqa

M = "cobra/core/dictlist.py"
OBJ = "ref:Object"


def _pre(E):
    return WF(E, E.s0, E["self"])


def _types(**kw):
    return kw


def add(qual, params, cases, **kw):
    kw.setdefault("pre", _pre)
    return REG.add(Contract(M, "DictList." + qual, "C15", params, cases, key="DictList." + qual, **kw))


def ida(E):
    return idarr(E, E.s0)


def key_of(E, v):
    """identifier denoted by an argument that is either a str or an Object"""
    if isinstance(v, VRef):
        return ida(E)[v.t]
    return unwrap(v, "id")


def is_str(v):
    return isinstance(v, VStr) or (isinstance(v, VConc) and isinstance(v.py, str))


def typed(case, **types):
    """restrict a case to argument value classes (used at call sites and to pick parameter types)"""
    case.types = types
    return case


SELF = ("self", TDictList("Object"))


def ELEM(eng, st, E):
    """result: an element of the list (class taken from the list's declared element class)"""
    kind = st.objs[E["self"].oid]["ekind"]
    return st, VRef(fresh("res", Ref), kind[4:])


# ---------------------------------------------------------------- spec fragments
def removed_at(E, v, p):
    n0, e0 = L(E.s0, v)
    n1, e1 = L(E.s1, v)
    j = qv("rj")
    return z3.And(n1 == n0 - 1,
                  FA([j], z3.Implies(z3.And(0 <= j, j < p), e1[j] == e0[j]), patterns=[e1[j]]),
                  FA([j], z3.Implies(z3.And(p <= j, j < n0 - 1), e1[j] == e0[j + 1]), patterns=[e1[j]]))


def index_after_removal(E, v, p):
    """the index after removing position p: that key is gone, later positions moved down by one (explicit form, implied by
    WF' and removed_at; stated so that callers need not re-derive it)"""
    dom0, val0 = Dv(E.s0, v)
    dom1, val1 = Dv(E.s1, v)
    n0, e0 = L(E.s0, v)
    rid = ida(E)[e0[p]]
    k = qv("rk", Id)
    return FA([k], z3.And(z3.Select(dom1, k) == z3.And(z3.Select(dom0, k), k != rid),
                          z3.Implies(z3.Select(dom1, k), val1[k] == z3.If(val0[k] > p, val0[k] - 1, val0[k]))),
              patterns=[z3.Select(dom1, k)])


def inserted_at(E, v, p, x):
    n0, e0 = L(E.s0, v)
    n1, e1 = L(E.s1, v)
    j = qv("ij")
    return z3.And(n1 == n0 + 1, e1[p] == x,
                  FA([j], z3.Implies(z3.And(0 <= j, j < p), e1[j] == e0[j]), patterns=[e1[j]]),
                  FA([j], z3.Implies(z3.And(p < j, j <= n0), e1[j] == e0[j - 1]), patterns=[e1[j]]))


def post_wf(E, extra):
    return z3.And(WF(E, E.s1, E["self"]), extra)


def unchanged(E):
    return unchanged_dl(E, E["self"])


# ---------------------------------------------------------------- pure look-ups
add("has_id", [SELF, ("id", TStr())],
    [Case("any", ensures=lambda E: E.res.t == z3.Select(Dv(E.s0, E["self"])[0], E["id"].t))], result="bool",
    pre=lambda E: TRUE())

add("_check", [SELF, ("id", TStr())], [
    Case("absent", requires=lambda E: z3.Not(z3.Select(Dv(E.s0, E["self"])[0], E["id"].t))),
    Case("present", requires=lambda E: z3.Select(Dv(E.s0, E["self"])[0], E["id"].t), raises="ValueError"),
], pre=lambda E: TRUE())

add("get_by_id", [SELF, ("id", TStr())], [
    Case("present", requires=lambda E: z3.Select(Dv(E.s0, E["self"])[0], E["id"].t),
         ensures=lambda E: z3.And(E.res.t == L(E.s0, E["self"])[1][Dv(E.s0, E["self"])[1][E["id"].t]],
                                  ida(E)[E.res.t] == E["id"].t)),
    Case("absent", requires=lambda E: z3.Not(z3.Select(Dv(E.s0, E["self"])[0], E["id"].t)), raises="KeyError"),
], result=ELEM)


def _idx_found(E):
    k = key_of(E, E["id"])
    dom, val = Dv(E.s0, E["self"])
    if isinstance(E["id"], VRef):
        return z3.And(z3.Select(dom, k), L(E.s0, E["self"])[1][val[k]] == E["id"].t)
    return z3.Select(dom, k)


add("index", [SELF, ("id", TStr()), ("*args", TTuple([]))], [
    typed(Case("str_present", requires=_idx_found,
               ensures=lambda E: E.res.t == Dv(E.s0, E["self"])[1][key_of(E, E["id"])]), id=VStr),
    typed(Case("str_absent", requires=lambda E: z3.Not(_idx_found(E)), raises="ValueError"), id=VStr),
    typed(Case("obj_present", requires=_idx_found,
               ensures=lambda E: z3.And(E.res.t == Dv(E.s0, E["self"])[1][key_of(E, E["id"])],
                                        L(E.s0, E["self"])[1][E.res.t] == E["id"].t)), id=VRef),
    typed(Case("obj_absent_or_other", requires=lambda E: z3.Not(_idx_found(E)), raises="ValueError"), id=VRef),
], result="int")

add("__contains__", [SELF, ("entity", TStr())], [
    typed(Case("str", ensures=lambda E: E.res.t == z3.Select(Dv(E.s0, E["self"])[0], key_of(E, E["entity"]))), entity=VStr),
    typed(Case("obj", ensures=lambda E: E.res.t == z3.Select(Dv(E.s0, E["self"])[0], key_of(E, E["entity"]))), entity=VRef),
],
    # at call sites the result is the term itself (usable inside comprehension conditions)
    result=lambda eng, st, E: (st, VBool(z3.Select(Dv(st, E["self"])[0], key_of(E, E["entity"])))))


def _gi_in(E):
    n, _ = L(E.s0, E["self"])
    i = E["i"].t
    return z3.And(-n <= i, i < n)


add("__getitem__", [SELF, ("i", TInt())], [
    typed(Case("int_in_range", requires=_gi_in,
               ensures=lambda E: E.res.t == L(E.s0, E["self"])[1][norm(E["i"].t, L(E.s0, E["self"])[0])]), i=VInt),
    typed(Case("int_out_of_range", requires=lambda E: z3.Not(_gi_in(E)), raises="IndexError"), i=VInt),
], result=ELEM)

# ---------------------------------------------------------------- mutators
ENT = ("entity", TRef("Object"))


def _fresh_id(E, name="entity"):
    return z3.Not(z3.Select(Dv(E.s0, E["self"])[0], ida(E)[E[name].t]))


def _append_post(E):
    n0, e0 = L(E.s0, E["self"])
    return post_wf(E, inserted_at(E, E["self"], n0, E["entity"].t))


add("append", [SELF, ENT], [
    Case("fresh_id", requires=_fresh_id, ensures=_append_post),
    Case("duplicate_id", requires=lambda E: z3.Not(_fresh_id(E)), raises="ValueError", ensures=unchanged),
], modifies=dl_locs)


def _insert_post(E):
    n0, _ = L(E.s0, E["self"])
    return post_wf(E, inserted_at(E, E["self"], clamp(E["index"].t, n0), E["entity"].t))


def _in_range_ins(E):
    n0, _ = L(E.s0, E["self"])
    return z3.And(0 <= E["index"].t, E["index"].t <= n0)


add("insert", [SELF, ("index", TInt()), ENT], [
    Case("fresh_id_index_in_range", requires=lambda E: z3.And(_fresh_id(E), _in_range_ins(E)), ensures=_insert_post),
    Case("fresh_id_index_negative", requires=lambda E: z3.And(_fresh_id(E), E["index"].t < 0), ensures=_insert_post),
    Case("fresh_id_index_beyond_end", requires=lambda E: z3.And(_fresh_id(E), E["index"].t > L(E.s0, E["self"])[0]),
         ensures=_insert_post),
    Case("duplicate_id", requires=lambda E: z3.Not(_fresh_id(E)), raises="ValueError", ensures=unchanged),
], modifies=dl_locs)


def _pop_idx(E):
    a = E["args"].items
    return a[0].t if a else z3.IntVal(-1)


def _pop_in(E):
    n0, _ = L(E.s0, E["self"])
    i = _pop_idx(E)
    return z3.And(-n0 <= i, i < n0)


def _pop_post(E):
    n0, e0 = L(E.s0, E["self"])
    p = norm(_pop_idx(E), n0)
    return post_wf(E, z3.And(E.res.t == e0[p], removed_at(E, E["self"], p), index_after_removal(E, E["self"], p)))


def _argc(n):
    return lambda E: len(E["args"].items) == n


def pcase(case, **over):
    case.params_override = over
    return case


def _with_argc(n, f):
    def g(E):
        if len(E["args"].items) != n:
            return z3.BoolVal(False)
        return f(E)
    return g


add("pop", [SELF, ("*args", TTuple([]))], [
    pcase(Case("last_nonempty", requires=_with_argc(0, _pop_in), ensures=_pop_post), args=TTuple([])),
    pcase(Case("last_empty", requires=_with_argc(0, lambda E: z3.Not(_pop_in(E))), raises="IndexError", ensures=unchanged),
          args=TTuple([])),
    pcase(Case("index_in_range", requires=_with_argc(1, _pop_in), ensures=_pop_post), args=TTuple([TInt()])),
    pcase(Case("index_out_of_range", requires=_with_argc(1, lambda E: z3.Not(_pop_in(E))), raises="IndexError",
               ensures=unchanged), args=TTuple([TInt()])),
], modifies=dl_locs, result=ELEM)


def _rm_found(E):
    k = key_of(E, E["x"])
    dom, val = Dv(E.s0, E["self"])
    if isinstance(E["x"], VRef):
        return z3.And(z3.Select(dom, k), L(E.s0, E["self"])[1][val[k]] == E["x"].t)
    return z3.Select(dom, k)


def _rm_post(E):
    dom, val = Dv(E.s0, E["self"])
    p = val[key_of(E, E["x"])]
    return post_wf(E, z3.And(removed_at(E, E["self"], p), index_after_removal(E, E["self"], p)))


add("remove", [SELF, ("x", TStr())], [
    typed(pcase(Case("str_present", requires=_rm_found, ensures=_rm_post), x=TStr()), x=VStr),
    typed(pcase(Case("str_missing", requires=lambda E: z3.Not(_rm_found(E)), raises="ValueError", ensures=unchanged),
                x=TStr()), x=VStr),
    typed(pcase(Case("obj_present", requires=_rm_found, ensures=_rm_post), x=TRef("Object")), x=VRef),
    typed(pcase(Case("obj_missing_or_foreign", requires=lambda E: z3.Not(_rm_found(E)), raises="ValueError",
                     ensures=unchanged), x=TRef("Object")), x=VRef),
], modifies=dl_locs)


def _di_in(E):
    n0, _ = L(E.s0, E["self"])
    return z3.And(-n0 <= E["index"].t, E["index"].t < n0)


def _di_post(E):
    n0, _ = L(E.s0, E["self"])
    p = norm(E["index"].t, n0)
    return post_wf(E, z3.And(removed_at(E, E["self"], p), index_after_removal(E, E["self"], p)))


add("__delitem__", [SELF, ("index", TInt())], [
    typed(Case("int_nonnegative_in_range", requires=lambda E: z3.And(_di_in(E), E["index"].t >= 0), ensures=_di_post), index=VInt),
    typed(Case("int_negative_in_range", requires=lambda E: z3.And(_di_in(E), E["index"].t < 0), ensures=_di_post), index=VInt),
    typed(Case("int_out_of_range", requires=lambda E: z3.Not(_di_in(E)), raises="IndexError", ensures=unchanged), index=VInt),
], modifies=dl_locs)


def _si_in(E):
    n0, _ = L(E.s0, E["self"])
    return z3.And(-n0 <= E["i"].t, E["i"].t < n0)


def _si_ok_id(E):
    n0, e0 = L(E.s0, E["self"])
    dom, val = Dv(E.s0, E["self"])
    yid = ida(E)[E["y"].t]
    return z3.Or(z3.Not(z3.Select(dom, yid)), yid == ida(E)[e0[norm(E["i"].t, n0)]])


def _si_post(E):
    n0, e0 = L(E.s0, E["self"])
    n1, e1 = L(E.s1, E["self"])
    p = norm(E["i"].t, n0)
    j = qv("sj")
    return post_wf(E, z3.And(n1 == n0, e1[p] == E["y"].t,
                             FA([j], z3.Implies(z3.And(0 <= j, j < n0, j != p), e1[j] == e0[j]), patterns=[e1[j]])))


Y = ("y", TRef("Object"))
add("__setitem__", [SELF, ("i", TInt()), Y], [
    typed(Case("int_nonnegative_ok", requires=lambda E: z3.And(_si_in(E), E["i"].t >= 0, _si_ok_id(E)), ensures=_si_post), i=VInt),
    typed(Case("int_negative_ok", requires=lambda E: z3.And(_si_in(E), E["i"].t < 0, _si_ok_id(E)), ensures=_si_post), i=VInt),
    typed(Case("int_duplicate_id", requires=lambda E: z3.And(_si_in(E), z3.Not(_si_ok_id(E))), raises="ValueError",
               ensures=unchanged), i=VInt),
    typed(Case("int_out_of_range", requires=lambda E: z3.Not(_si_in(E)), raises="IndexError", ensures=unchanged), i=VInt),
], modifies=dl_locs)


# ================================================================ index rebuilding, reordering, copying
def _distinct_self(E):
    n, e = L(E.s0, E["self"])
    return distinct_ids(E, E.s0, n, e)


def _gi_mod(E):
    return [havoc_index_attr(E)]


add("_generate_index", [SELF], [
    Case("distinct_ids", requires=_distinct_self,
         ensures=lambda E: z3.And(WF(E, E.s1, E["self"]), same_list(E, E.s0, E.s1, E["self"]))),
    Case("repeated_ids", requires=lambda E: z3.Not(_distinct_self(E))),   # last-wins; no coherence possible, nothing claimed
], pre=lambda E: L(E.s0, E["self"])[0] >= 0, modifies=_gi_mod)

add("__setstate__", [SELF, ("state", TNone())], [
    Case("distinct_ids", requires=_distinct_self,
         ensures=lambda E: z3.And(WF(E, E.s1, E["self"]), same_list(E, E.s0, E.s1, E["self"]))),
    Case("repeated_ids", requires=lambda E: z3.Not(_distinct_self(E))),
], pre=lambda E: L(E.s0, E["self"])[0] >= 0, modifies=_gi_mod)


def _list_and_index(E):
    return [("list", E["self"]), havoc_index_attr(E)]


def _rev_post(E):
    n0, e0 = L(E.s0, E["self"])
    n1, e1 = L(E.s1, E["self"])
    j = qv("rv")
    return post_wf(E, z3.And(n1 == n0, FA([j], z3.Implies(z3.And(0 <= j, j < n0), e1[j] == e0[n0 - 1 - j]), patterns=[e1[j]])))


add("reverse", [SELF], [Case("any", ensures=_rev_post)], modifies=_list_and_index)


def _sort_post(E):
    """E' is a permutation of E (ghost bijection recorded by the list.sort axiom) and coherent."""
    n0, e0 = L(E.s0, E["self"])
    n1, e1 = L(E.s1, E["self"])
    g = E.s1.ghost.get(("perm", E["self"].oid))
    if g is None:
        return z3.BoolVal(False)
    perm, inv = g
    j = qv("sp")
    return post_wf(E, z3.And(
        n1 == n0,
        FA([j], z3.Implies(z3.And(0 <= j, j < n0), z3.And(0 <= perm[j], perm[j] < n0, inv[perm[j]] == j, e1[j] == e0[perm[j]])),
           patterns=[e1[j]]),
        FA([j], z3.Implies(z3.And(0 <= j, j < n0), z3.And(0 <= inv[j], inv[j] < n0, perm[inv[j]] == j)), patterns=[inv[j]])))


add("sort", [SELF, ("cmp", TNone()), ("key", TNone()), ("reverse", TBool())], [Case("default_key", ensures=_sort_post)],
    modifies=_list_and_index)


def _same_elems(E, st_a, a, st_b, b):
    na, ea = L(st_a, a)
    nb, eb = L(st_b, b)
    j = qv("se")
    return z3.And(na == nb, FA([j], z3.Implies(z3.And(0 <= j, j < nb), ea[j] == eb[j]), patterns=[ea[j]]))


def _is_new(E):
    return z3.BoolVal(isinstance(E.res, VObj) and E.res.oid != E["self"].oid and E.res.cls == "DictList")


add("__copy__", [SELF], [
    Case("any", ensures=lambda E: z3.And(_is_new(E), WF(E, E.s1, E.res), _same_elems(E, E.s1, E.res, E.s0, E["self"]))),
], result=new_dictlist)


def _replace_post(E):
    n0, e0 = L(E.s0, E["self"])
    n1, e1 = L(E.s1, E["self"])
    dom, val = Dv(E.s0, E["self"])
    p = val[ida(E)[E["new_object"].t]]
    j = qv("rp")
    return post_wf(E, z3.And(n1 == n0, e1[p] == E["new_object"].t,
                             FA([j], z3.Implies(z3.And(0 <= j, j < n0, j != p), e1[j] == e0[j]), patterns=[e1[j]])))


add("_replace_on_id", [SELF, ("new_object", TRef("Object"))], [
    Case("id_present", requires=lambda E: z3.Not(_fresh_id(E, "new_object")), ensures=_replace_post),
    Case("id_absent", requires=lambda E: _fresh_id(E, "new_object"), raises="KeyError", ensures=unchanged),
], modifies=dl_locs)


# ================================================================ bulk insertion
XS = ("iterable", TList(OBJ))


def _xs(E, name="iterable"):
    return L(E.s0, E[name])


def _xs_ok(E, name="iterable"):
    """ids of the new items pairwise distinct and disjoint from the ids present"""
    m, x = _xs(E, name)
    dom, val = Dv(E.s0, E["self"])
    i = qv("xo")
    return z3.And(distinct_ids(E, E.s0, m, x),
                  FA([i], z3.Implies(z3.And(0 <= i, i < m), z3.Not(z3.Select(dom, ida(E)[x[i]]))), patterns=[x[i]]))


def _appended(E, target_state, target, name="iterable"):
    n0, e0 = L(E.s0, E["self"])
    m, x = _xs(E, name)
    n1, e1 = L(target_state, target)
    j = qv("ap")
    return z3.And(n1 == n0 + m,
                  FA([j], z3.Implies(z3.And(0 <= j, j < n0), e1[j] == e0[j]), patterns=[e1[j]]),
                  FA([j], z3.Implies(z3.And(0 <= j, j < m), e1[n0 + j] == x[j]), patterns=[x[j]]))


def _ext_post(E):
    return post_wf(E, _appended(E, E.s1, E["self"]))


def _ext_inv(E, Lc, name="iterable"):
    """index = old index + entries for the first Lc.i new items (positions n0 .. n0+i-1)"""
    n0, e0 = L(E.s0, E["self"])
    m, x = _xs(E, name)
    dom0, val0 = Dv(E.s0, E["self"])
    dom, val = Dv(Lc.st, E["self"])
    idA = ida(E)
    t = Lc.i
    k, j = qv("ik", Id), qv("ij")
    return z3.And(
        FA([k], z3.Implies(z3.Select(dom0, k), z3.And(z3.Select(dom, k), val[k] == val0[k])), patterns=[z3.Select(dom, k)]),
        FA([j], z3.Implies(z3.And(0 <= j, j < t), z3.And(z3.Select(dom, idA[x[j]]), val[idA[x[j]]] == n0 + j)), patterns=[x[j]]),
        FA([k], z3.Implies(z3.And(z3.Select(dom, k), z3.Not(z3.Select(dom0, k))),
                           z3.And(n0 <= val[k], val[k] < n0 + t, idA[x[val[k] - n0]] == k)), patterns=[z3.Select(dom, k)]))


def _ext_loop_mod(E, Lc):
    return [("dict", dict_of(Lc.st, E["self"]))]


add("extend", [SELF, XS], [
    Case("new_unique_ids", requires=_xs_ok, ensures=_ext_post),
    Case("duplicate_id", requires=lambda E: z3.Not(_xs_ok(E)), raises="ValueError", ensures=unchanged),
], modifies=dl_locs, loops={0: LoopSpec(_ext_inv, _ext_loop_mod)})

add("_extend_nocheck", [SELF, XS], [
    Case("empty_self", requires=lambda E: z3.And(_xs_ok(E), L(E.s0, E["self"])[0] == 0), ensures=_ext_post),
    Case("nonempty_self", requires=lambda E: z3.And(_xs_ok(E), L(E.s0, E["self"])[0] > 0), ensures=_ext_post),
], pre=lambda E: z3.And(_pre(E), _xs_ok(E)), modifies=lambda E: dl_locs(E) + [havoc_index_attr(E)],
    loops={0: LoopSpec(_ext_inv, _ext_loop_mod)})

add("__iadd__", [SELF, ("other", TList(OBJ))], [
    Case("new_unique_ids", requires=lambda E: _xs_ok(E, "other"),
         ensures=lambda E: z3.And(z3.BoolVal(isinstance(E.res, VObj) and E.res.oid == E["self"].oid),
                                  post_wf(E, _appended(E, E.s1, E["self"], "other")))),
    Case("duplicate_id", requires=lambda E: z3.Not(_xs_ok(E, "other")), raises="ValueError", ensures=unchanged),
], modifies=dl_locs, result="self")


def _add_post(E):
    n0, e0 = L(E.s0, E["self"])
    return post_wf(E, inserted_at(E, E["self"], n0, E["x"].t))


add("add", [SELF, ("x", TRef("Object"))], [
    Case("fresh_id", requires=lambda E: _fresh_id(E, "x"), ensures=_add_post),
    Case("duplicate_id", requires=lambda E: z3.Not(_fresh_id(E, "x")), raises="ValueError", ensures=unchanged),
], modifies=dl_locs)

add("__add__", [SELF, ("other", TList(OBJ))], [
    Case("new_unique_ids", requires=lambda E: _xs_ok(E, "other"),
         ensures=lambda E: z3.And(_is_new(E), WF(E, E.s1, E.res), _appended(E, E.s1, E.res, "other"))),
    Case("duplicate_id", requires=lambda E: z3.Not(_xs_ok(E, "other")), raises="ValueError"),
], result=new_dictlist)


# ---------------------------------------------------------------- union (never raises)
def _union_inv(E, Lc):
    n0, e0 = L(E.s0, E["self"])
    m, x = _xs(E)
    dom0, val0 = Dv(E.s0, E["self"])
    n, e = L(Lc.st, E["self"])
    dom, val = Dv(Lc.st, E["self"])
    idA = ida(E)
    t = Lc.i
    k, j = qv("uk", Id), qv("uj")
    w = qv("uw")
    return z3.And(
        WF(E, Lc.st, E["self"]), n >= n0,
        FA([j], z3.Implies(z3.And(0 <= j, j < n0), e[j] == e0[j]), patterns=[e[j]]),
        FA([j], z3.Implies(z3.And(0 <= j, j < t), z3.Select(dom, idA[x[j]])), patterns=[x[j]]),
        FA([k], z3.Implies(z3.And(z3.Select(dom, k), z3.Not(z3.Select(dom0, k))),
                           z3.Exists([w], z3.And(0 <= w, w < t, idA[x[w]] == k))), patterns=[z3.Select(dom, k)]))


def _union_post(E):
    n0, e0 = L(E.s0, E["self"])
    m, x = _xs(E)
    dom0, val0 = Dv(E.s0, E["self"])
    n, e = L(E.s1, E["self"])
    dom, val = Dv(E.s1, E["self"])
    idA = ida(E)
    k, j, w = qv("uk", Id), qv("uj"), qv("uw")
    return post_wf(E, z3.And(
        n >= n0,
        FA([j], z3.Implies(z3.And(0 <= j, j < n0), e[j] == e0[j]), patterns=[e[j]]),
        FA([j], z3.Implies(z3.And(0 <= j, j < m), z3.Select(dom, idA[x[j]])), patterns=[x[j]]),
        FA([k], z3.Implies(z3.And(z3.Select(dom, k), z3.Not(z3.Select(dom0, k))),
                           z3.Exists([w], z3.And(0 <= w, w < m, idA[x[w]] == k))))))


add("union", [SELF, XS], [Case("any", ensures=_union_post)], modifies=dl_locs,
    loops={0: LoopSpec(_union_inv, lambda E, Lc: dl_locs(E))})


# ================================================================ construction
def _blank_self(st, name):
    """the object under construction: list part and attributes not yet meaningful"""
    from pyvc.state import alloc_list
    return alloc_list(st, OBJ, base=name, cls="DictList", attrs={})


def _new_empty(eng, st, E=None):
    from pyvc.state import alloc_list, alloc_dict
    st, d = alloc_dict(st, "id", "int", dom=z3.K(Id, z3.BoolVal(False)), val=z3.K(Id, z3.IntVal(0)))
    st, l = alloc_list(st, OBJ, length=z3.IntVal(0), cls="DictList", attrs={"attr:_dict": d})
    return st, l


def _init_empty_post(E):
    n, e = L(E.s1, E["self"])
    dom, val = Dv(E.s1, E["self"])
    k = qv("ek", Id)
    return z3.And(n == 0, FA([k], z3.Not(z3.Select(dom, k))))


def _init_argc(nargs, f=None):
    def g(E):
        if len(E["args"].items) != nargs:
            return z3.BoolVal(False)
        return f(E) if f else z3.BoolVal(True)
    return g


def _init_other(E):
    return E["args"].items[0]


def _init_list_ok(E):
    o = _init_other(E)
    m, x = L(E.s0, o)
    return distinct_ids(E, E.s0, m, x)


def _init_from_post(E):
    o = _init_other(E)
    return z3.And(WF(E, E.s1, E["self"]), _same_elems(E, E.s1, E["self"], E.s0, o))


def _init_mod(E):
    v = E["self"]
    return [("list", v), ("attr", v, "_dict", lambda st: alloc_dict_id_int(st))]


def _is_dl(E):
    o = _init_other(E)
    return isinstance(o, VObj) and o.cls == "DictList"


add("__init__", [("self", TCustom(_blank_self)), ("*args", TTuple([]))], [
    pcase(Case("no_argument", requires=_init_argc(0), ensures=_init_empty_post), args=TTuple([])),
    pcase(Case("from_dictlist", requires=_init_argc(1, lambda E: WF(E, E.s0, _init_other(E)) if _is_dl(E) else z3.BoolVal(False)),
               ensures=_init_from_post), args=TTuple([TDictList("Object")])),
    pcase(Case("from_iterable_unique", requires=_init_argc(1, lambda E: _init_list_ok(E) if not _is_dl(E) else z3.BoolVal(False)),
               ensures=_init_from_post), args=TTuple([TList(OBJ)])),
    pcase(Case("from_iterable_duplicate", requires=_init_argc(1, lambda E: z3.Not(_init_list_ok(E)) if not _is_dl(E) else z3.BoolVal(False)),
               raises="ValueError"), args=TTuple([TList(OBJ)])),
], pre=lambda E: TRUE(), modifies=_init_mod, result=lambda eng, st, E: _blank_self(st, fresh_name("new")))
for _c in REG.get("DictList.__init__").cases:
    _c.modifies_on_raise = _init_mod
REG.get("DictList.__init__").cases[1].domain = lambda E: WF(E, E.s0, _init_other(E))   # a DictList argument is coherent


# ================================================================ removal of several items:  -=  and  -
OTHER = ("other", TList(OBJ))


def _found_all_distinct(E, st=None):
    """every item is the identical element found under its id, and no element is named twice"""
    st = st or E.s0
    m, x = L(E.s0, E["other"])
    n0, e0 = L(E.s0, E["self"])
    dom0, val0 = Dv(E.s0, E["self"])
    idA = ida(E)
    i, j = qv("fi"), qv("fj")
    return z3.And(
        FA([i], z3.Implies(z3.And(0 <= i, i < m), z3.And(z3.Select(dom0, idA[x[i]]), e0[val0[idA[x[i]]]] == x[i])), patterns=[x[i]]),
        FA([i, j], z3.Implies(z3.And(0 <= i, i < j, j < m), idA[x[i]] != idA[x[j]]), patterns=[z3.MultiPattern(x[i], x[j])]))


def _removed_view(E, st, target, t):
    """`target` (in state st) is self's original content minus the first t items of `other`, order kept"""
    m, x = L(E.s0, E["other"])
    n0, e0 = L(E.s0, E["self"])
    dom0, val0 = Dv(E.s0, E["self"])
    n, e = L(st, target)
    dom, val = Dv(st, target)
    idA = ida(E)
    k, k2, j, w = qv("vk", Id), qv("vk2", Id), qv("vj"), qv("vw")
    return z3.And(
        WF(E, st, target), n == n0 - t,
        # surviving keys are original keys holding the same element
        FA([k], z3.Implies(z3.Select(dom, k), z3.And(z3.Select(dom0, k), e[val[k]] == e0[val0[k]])), patterns=[z3.Select(dom, k)]),
        # the first t items are gone, every other original key survives
        FA([j], z3.Implies(z3.And(0 <= j, j < t), z3.Not(z3.Select(dom, idA[x[j]]))), patterns=[x[j]]),
        FA([k], z3.Implies(z3.And(z3.Select(dom0, k), z3.Not(z3.Select(dom, k))),
                           z3.Exists([w], z3.And(0 <= w, w < t, idA[x[w]] == k))), patterns=[z3.Select(dom0, k)]),
        # relative order kept
        FA([k, k2], z3.Implies(z3.And(z3.Select(dom, k), z3.Select(dom, k2)), (val[k] < val[k2]) == (val0[k] < val0[k2])),
           patterns=[z3.MultiPattern(z3.Select(dom, k), z3.Select(dom, k2))]))


def _isub_post(E):
    m, _ = L(E.s0, E["other"])
    return z3.And(z3.BoolVal(isinstance(E.res, VObj) and E.res.oid == E["self"].oid), _removed_view(E, E.s1, E["self"], m))


def _isub_inv0(E, Lc):
    """validation loop: the positions seen so far are those of the first i items, pairwise different; self untouched"""
    m, x = L(E.s0, E["other"])
    n0, e0 = L(E.s0, E["self"])
    dom0, val0 = Dv(E.s0, E["self"])
    idA = ida(E)
    pos = Lc.var("positions")
    rec = Lc.st.objs[pos.oid]
    t = Lc.i
    i, j, p, w = qv("zi"), qv("zj"), qv("zp"), qv("zw")
    if rec.get("lazy"):
        return t == 0
    P = rec["dom"]
    return z3.And(
        FA([i], z3.Implies(z3.And(0 <= i, i < t), z3.And(z3.Select(dom0, idA[x[i]]), e0[val0[idA[x[i]]]] == x[i],
                                                       z3.Select(P, val0[idA[x[i]]]))), patterns=[x[i]]),
        FA([p], z3.Implies(z3.Select(P, p), z3.Exists([w], z3.And(0 <= w, w < t, val0[idA[x[w]]] == p))), patterns=[z3.Select(P, p)]),
        FA([i, j], z3.Implies(z3.And(0 <= i, i < j, j < t), idA[x[i]] != idA[x[j]]), patterns=[z3.MultiPattern(x[i], x[j])]))


def _isub_inv1(E, Lc):
    return z3.And(_found_all_distinct(E), _removed_view(E, Lc.st, E["self"], Lc.i))


def _positions_loc(E, Lc):
    pos = Lc.var("positions")
    if Lc.st.objs[pos.oid].get("lazy"):
        # typed at first use: positions are ints
        return [("setlazy", pos, "int")]
    return [("set", pos)]


add("__isub__", [SELF, OTHER], [
    Case("all_present_once", requires=_found_all_distinct, ensures=_isub_post),
    Case("missing_or_repeated", requires=lambda E: z3.Not(_found_all_distinct(E)), raises="ValueError", ensures=unchanged),
], modifies=dl_locs, result="self",
    loops={0: LoopSpec(_isub_inv0, _positions_loc), 1: LoopSpec(_isub_inv1, lambda E, Lc: dl_locs(E))})


def _sub_total(Lc):
    return Lc.var("total")


def _found_prefix(E, t):
    """the first t items were each the identical element found under its id, pairwise different"""
    m, x = L(E.s0, E["other"])
    n0, e0 = L(E.s0, E["self"])
    dom0, val0 = Dv(E.s0, E["self"])
    idA = ida(E)
    i, j = qv("pi"), qv("pj")
    return z3.And(
        FA([i], z3.Implies(z3.And(0 <= i, i < t), z3.And(z3.Select(dom0, idA[x[i]]), e0[val0[idA[x[i]]]] == x[i])), patterns=[x[i]]),
        FA([i, j], z3.Implies(z3.And(0 <= i, i < j, j < t), idA[x[i]] != idA[x[j]]), patterns=[z3.MultiPattern(x[i], x[j])]))


def _sub_inv(E, Lc):
    return z3.And(_found_prefix(E, Lc.i), _removed_view(E, Lc.st, _sub_total(Lc), Lc.i))


def _sub_post(E):
    m, _ = L(E.s0, E["other"])
    return z3.And(_is_new(E), _removed_view(E, E.s1, E.res, m))


def _sub_loop_mod(E, Lc):
    t = _sub_total(Lc)
    return [("list", t), ("dict", dict_of(Lc.st, t))]


add("__sub__", [SELF, OTHER], [
    Case("all_present_once", requires=_found_all_distinct, ensures=_sub_post),
    Case("missing_or_repeated", requires=lambda E: z3.Not(_found_all_distinct(E)), raises="ValueError"),
], result=new_dictlist, loops={0: LoopSpec(_sub_inv, _sub_loop_mod)})


# ================================================================ simple slices (step None or 1)
def _sl_bounds(E, name):
    sl = E[name]
    n0, _ = L(E.s0, E["self"])
    from pyvc.builtins import slice_bounds
    return slice_bounds(E.eng, E.s0, sl, n0)


def _getslice_post(E):
    lo, hi = _sl_bounds(E, "i")
    n0, e0 = L(E.s0, E["self"])
    n1, e1 = L(E.s1, E.res)
    cnt = z3.If(hi > lo, hi - lo, 0)
    j = qv("gs")
    return z3.And(_is_new(E), WF(E, E.s1, E.res), n1 == cnt,
                  FA([j], z3.Implies(z3.And(0 <= j, j < cnt), e1[j] == e0[lo + j]), patterns=[e1[j]]))


def _slice_type(st, name):
    lo, hi = z3.Int(name + "_lo"), z3.Int(name + "_hi")
    return st, VSlice(VInt(lo), VInt(hi), NONE)


_gs = typed(pcase(Case("slice_step_one", ensures=_getslice_post), i=TCustom(_slice_type)), i=VSlice)
_gs.result = new_dictlist
REG.get("DictList.__getitem__").cases.append(_gs)


def _delslice_post(E):
    lo, hi = _sl_bounds(E, "index")
    n0, e0 = L(E.s0, E["self"])
    n1, e1 = L(E.s1, E["self"])
    cnt = z3.If(hi > lo, hi - lo, 0)
    j = qv("ds")
    return post_wf(E, z3.And(n1 == n0 - cnt,
                             FA([j], z3.Implies(z3.And(0 <= j, j < lo), e1[j] == e0[j]), patterns=[e1[j]]),
                             FA([j], z3.Implies(z3.And(lo <= j, j < n0 - cnt), e1[j] == e0[j + cnt]), patterns=[e1[j]])))


_ds = typed(pcase(Case("slice_step_one", ensures=_delslice_post), index=TCustom(_slice_type)), index=VSlice)
REG.get("DictList.__delitem__").cases.append(_ds)
REG.get("DictList.__delitem__").modifies = lambda E: dl_locs(E) + [havoc_index_attr(E)]


# ---------------------------------------------------------------- attribute-style lookup and the legacy slice methods
add("__getattr__", [SELF, ("attr", TStr())], [
    Case("present", requires=lambda E: z3.Select(Dv(E.s0, E["self"])[0], E["attr"].t),
         ensures=lambda E: z3.And(E.res.t == L(E.s0, E["self"])[1][Dv(E.s0, E["self"])[1][E["attr"].t]],
                                  ida(E)[E.res.t] == E["attr"].t)),
    Case("absent", requires=lambda E: z3.Not(z3.Select(Dv(E.s0, E["self"])[0], E["attr"].t)), raises="AttributeError", ensures=unchanged),
], result=ELEM)


def _legacy_slice(E, a, b):
    """slice(i, j) as the legacy methods build it"""
    return VSlice(E[a], E[b], NONE)


def _lgs_post(E):
    E2 = Env(dict(E.a, i=_legacy_slice(E, "i", "j")), E.s0, E.s1, res=E.res, eng=E.eng)
    return _getslice_post(E2)


def _lds_post(E):
    E2 = Env(dict(E.a, index=_legacy_slice(E, "i", "j")), E.s0, E.s1, res=E.res, eng=E.eng)
    return _delslice_post(E2)


add("__getslice__", [SELF, ("i", TInt()), ("j", TInt())], [Case("any", ensures=_lgs_post)], result=new_dictlist)
add("__delslice__", [SELF, ("i", TInt()), ("j", TInt())], [Case("any", ensures=_lds_post)],
    modifies=lambda E: dl_locs(E) + [havoc_index_attr(E)])
