"""C18 (kernel) — Model.medium accessors: is_active, get_active_bound, set_active_bound (nested functions of the property).

An exchange is abstracted to (has_reactants, has_products, lb, ub); `reaction.reactants` / `.products` are assumed to return a
non-empty list exactly when the corresponding flag holds (Reaction.reactants/products are list comprehensions over the
stoichiometry; zero coefficients are excluded by the cross-reference invariant of C02).
"""
import z3
from .common import *  # noqa
from . import c01_lp as C1
from pyvc.values import VReal, xr_eq, xr_lt, xr_le
from pyvc.state import alloc_list

MM = "cobra/core/model.py"
REG.fields.update({"has_reactants": "bool", "has_products": "bool", "n_reactants": "int", "n_products": "int"})
RX = ("reaction", TRef("Reaction"))


def flag(E, st, name, r):
    return E.eng.heap_arr(st, name)[r]


def _list_result(flagname):
    def build(eng, st, E):
        st, l = alloc_list(st, "ref:Metabolite", base=flagname)
        n = st.objs[l.oid]["len"]
        cnt = eng.heap_arr(st, "n_" + flagname[4:])[E["self"].t]        # ghost count behind the ghost flag
        return st.assume((n > 0) == eng.heap_arr(st, flagname)[E["self"].t], n == cnt, n >= 0), l
    return build


for _p, _f in (("reactants", "has_reactants"), ("products", "has_products")):
    REG.add(Contract("cobra/core/reaction.py", f"Reaction.{_p}@getter", "C18", [("self", TRef("Reaction"))],
                     [Case("any")], assumed=True, key=f"Reaction.{_p}@getter", result=_list_result(_f),
                     note=f"returns the list of metabolites with negative/positive coefficient; non-empty iff the ghost flag {_f} (abstraction of the list PROVED on the real body in contracts/w_reaction_sides.py)"))
REG.classes["Metabolite"] = []

ZERO = VReal(0, 0)


def _lb(E, st=None):
    return C1.lbub(E, st or E.s0, E["reaction"].t)[0]


def _ub(E, st=None):
    return C1.lbub(E, st or E.s0, E["reaction"].t)[1]


def active(E, st, r):
    lb, ub = C1.lbub(E, st, r)
    return z3.Or(z3.And(flag(E, st, "has_products", r), xr_lt(ZERO, ub)), z3.And(flag(E, st, "has_reactants", r), xr_lt(lb, ZERO)))


REG.add(Contract(MM, "Model.medium@getter.is_active", "C18", [RX], [
    Case("any", ensures=lambda E: E.res.t == active(E, E.s0, E["reaction"].t)),
], key="medium.is_active",
    # the result is the term itself (not a fresh constant constrained by the post): usable inside comprehension conditions
    result=lambda eng, st, E: (st, VBool(active(E, st, E["reaction"].t)))))


def _gab_post_r(E):
    lb = _lb(E)
    return xr_eq(E.eng.to_real(E.res), VReal(-lb.k, -lb.v)) if isinstance(E.res, VReal) else z3.BoolVal(False)


def _gab_cases():
    c1 = Case("consumes", requires=lambda E: flag(E, E.s0, "has_reactants", E["reaction"].t), ensures=_gab_post_r)
    c2 = Case("produces_only", requires=lambda E: z3.And(z3.Not(flag(E, E.s0, "has_reactants", E["reaction"].t)),
                                                         flag(E, E.s0, "has_products", E["reaction"].t)),
              ensures=lambda E: xr_eq(E.eng.to_real(E.res), _ub(E)) if isinstance(E.res, VReal) else z3.BoolVal(False))
    c3 = Case("empty_reaction", requires=lambda E: z3.And(z3.Not(flag(E, E.s0, "has_reactants", E["reaction"].t)),
                                                          z3.Not(flag(E, E.s0, "has_products", E["reaction"].t))),
              ensures=lambda E: z3.BoolVal(isinstance(E.res, VNone)))
    c3.result = lambda eng, st, E: (st, NONE)
    return [c1, c2, c3]


_gab = REG.add(Contract(MM, "Model.medium@getter.get_active_bound", "C18", [RX], _gab_cases(), key="medium.get_active_bound", result="real"))


def import_bound(E, st, r):
    """the import-side bound of r as ONE term: -lb for a reaction with reactants (`met -->`), else ub"""
    lb, ub = C1.lbub(E, st, r)
    hr = flag(E, st, "has_reactants", r)
    return VReal(z3.If(hr, -lb.k, ub.k), z3.If(hr, -lb.v, ub.v))


def _gab_call_cases():
    """how get_active_bound is seen AT CALL SITES: the two value cases merged into one whose result is the term import_bound (no
    fork, no fresh constant: usable as the value expression of a comprehension); implied by the proved cases above - the
    implication is the lemma `get_active_bound-call-summary` below"""
    c1 = Case("has_a_side", requires=lambda E: z3.Or(flag(E, E.s0, "has_reactants", E["reaction"].t),
                                                      flag(E, E.s0, "has_products", E["reaction"].t)))
    c1.result = lambda eng, st, E: (st, import_bound(E, st, E["reaction"].t))
    c3 = Case("empty_reaction", requires=lambda E: z3.And(z3.Not(flag(E, E.s0, "has_reactants", E["reaction"].t)),
                                                          z3.Not(flag(E, E.s0, "has_products", E["reaction"].t))))
    c3.result = lambda eng, st, E: (st, NONE)
    return [c1, c3]


_gab.call_cases = _gab_call_cases()


# ---------------------------------------------------------------- set_active_bound
def _bound(E):
    return E.eng.to_real(E["bound"])


def _neg(x):
    return VReal(-x.k, -x.v)


def _sab_ok(E):
    """the new value does not cross the opposite bound (otherwise the bounds setter raises ValueError: stated, not hidden)"""
    r = E["reaction"].t
    b = _bound(E)
    return z3.If(flag(E, E.s0, "has_reactants", r), z3.And(xr_le(_neg(b), _ub(E)), (_neg(b)).k != 1),
                 z3.If(flag(E, E.s0, "has_products", r), z3.And(xr_le(_lb(E), b), b.k != -1), z3.BoolVal(True)))


def _sab_post(E):
    r = E["reaction"].t
    b = _bound(E)
    lb1, ub1 = C1.lbub(E, E.s1, r)
    return z3.And(
        z3.If(flag(E, E.s0, "has_reactants", r), z3.And(xr_eq(lb1, _neg(b)), xr_eq(ub1, _ub(E))),      # import side = lower bound
              z3.If(flag(E, E.s0, "has_products", r), z3.And(xr_eq(ub1, b), xr_eq(lb1, _lb(E))),          # import side = upper bound
                    z3.And(xr_eq(lb1, _lb(E)), xr_eq(ub1, _ub(E))))),
        C1.heap_real_unchanged_except(E, "_lower_bound", [r]), C1.heap_real_unchanged_except(E, "_upper_bound", [r]))


REG.add(Contract(MM, "Model.medium@setter.set_active_bound", "C18", [RX, ("bound", TReal())], [
    Case("within_opposite_bound", requires=_sab_ok, ensures=_sab_post),
    Case("crosses_opposite_bound", requires=lambda E: z3.Not(_sab_ok(E)), raises="ValueError"),
], pre=lambda E: z3.And(C1._valid(Env({"self": E["reaction"]}, E.s0, eng=E.eng)), C1.vars_distinct(E["reaction"].t),
                        _bound(E).k == 0),   # medium values are finite numbers
    modifies=C1.SET_MOD, key="medium.set_active_bound"))


# ---------------------------------------------------------------- glue lemmas over the contracts (LRA, per exchange)
def lemmas():
    """round trip get(set(m)) = {k: v in m | v > 0} and closing of unlisted exchanges, per exchange, from the contracts above"""
    from pyvc.engine import Obl
    out = []
    hr, hp = z3.Bool("l_has_reactants"), z3.Bool("l_has_products")
    lbk, lbv, ubk, ubv = z3.Int("l_lbk"), z3.Real("l_lbv"), z3.Int("l_ubk"), z3.Real("l_ubv")
    v = z3.Real("l_v")
    lb, ub = VReal(lbk, lbv), VReal(ubk, ubv)
    dom = [lbk >= -1, lbk <= 1, ubk >= -1, ubk <= 1, z3.Xor(hr, hp), v >= 0]   # exchange: exactly one side; medium values >= 0
    # listed exchange: after set_active_bound(r, v): (lb', ub') per contract
    lb1 = VReal(z3.If(hr, 0, lbk), z3.If(hr, -v, lbv))
    ub1 = VReal(z3.If(hr, ubk, 0), z3.If(hr, ubv, v))
    act1 = z3.Or(z3.And(hp, xr_lt(ZERO, ub1)), z3.And(hr, xr_lt(lb1, ZERO)))
    got = VReal(z3.If(hr, -lb1.k, ub1.k), z3.If(hr, -lb1.v, ub1.v))
    out.append(Obl("C18/lemma/listed-exchange-read-back", dom, z3.And(act1 == (v > 0), z3.Implies(act1, xr_eq(got, VReal(0, v)))), "lemma"))
    out.append(Obl("C18/lemma/listed-exchange-export-bound-untouched", dom,
                   z3.If(hr, xr_eq(ub1, ub), xr_eq(lb1, lb)), "lemma"))
    # unlisted exchange: set_active_bound(r, min(0, -lb if is_export else ub)), is_export = reactants and not products
    arg = z3.If(hr, VReal(z3.If(z3.And(lbk == 0, -lbv < 0), 0, z3.If(lbk == 1, -1, 0)), z3.If(z3.And(lbk == 0, -lbv < 0), -lbv, 0)).v, 0)
    # min(0.0, x) on extended reals
    def xmin0(x):
        neg = xr_lt(x, ZERO)
        return VReal(z3.If(neg, x.k, 0), z3.If(neg, x.v, 0))
    a = z3.If(hr, 0, 0)
    m_r = xmin0(_neg(lb))
    m_p = xmin0(ub)
    lb2 = VReal(z3.If(hr, -m_r.k, lbk), z3.If(hr, -m_r.v, lbv))
    ub2 = VReal(z3.If(hr, ubk, m_p.k), z3.If(hr, ubv, m_p.v))
    act2 = z3.Or(z3.And(hp, xr_lt(ZERO, ub2)), z3.And(hr, xr_lt(lb2, ZERO)))
    out.append(Obl("C18/lemma/unlisted-exchange-import-closed", dom, z3.And(z3.Not(act2), z3.If(hr, xr_eq(ub2, ub), xr_eq(lb2, lb))), "lemma"))
    out.append(Obl("C18/lemma/unlisted-exchange-bounds-only-tightened", dom + [xr_le(lb, ub)],
                   z3.And(xr_le(lb, lb2), xr_le(ub2, ub)), "lemma"))
    return out


# ---------------------------------------------------------------- minimal_medium.add_linear_obj (the LP minimal-medium objective)
# Documented: "the objective is to minimise the total import flux".  Proved: afterwards the objective has coefficient 1 on the IMPORT
# variable of every exchange (the reverse variable of an exchange written `met -->`, i.e. with a reactant; the forward variable of one
# written `--> met`), every other coefficient is as before, and the direction is "min".
from . import c04_status as C4  # noqa
from . import c05_fva as C5  # noqa
MMM = "cobra/medium/minimal_medium.py"


def _alo_model_t():
    return TObj("Model", {"_solver": C4.SOLVER_T()})


def _exchanges(st):
    l = st.ghost["exchanges"]
    rec = st.objs[l.oid]
    return rec["len"], rec["elem"]


def _fbt_result(eng, st, E):
    st, l = alloc_list(st, "ref:Reaction", base="exch")
    n, e = st.objs[l.oid]["len"], st.objs[l.oid]["elem"]
    j, j2 = qv("ej"), qv("ej2")
    mo = eng.heap_arr(st, "_model")
    nre = eng.heap_arr(st, "n_reactants")
    st = st.assume(n >= 0,
                   FA([j], z3.Implies(z3.And(0 <= j, j < n), z3.And(z3.Select(e, j) != NULL, mo[z3.Select(e, j)] != NULL,
                                                                    C1.vars_distinct(z3.Select(e, j)),
                                                                    nre[z3.Select(e, j)] <= 1)),      # one metabolite only
                      patterns=[z3.Select(e, j)]))
    return st.setghost("exchanges", l), l


REG.add(Contract("cobra/medium/boundary_types.py", "find_boundary_types", "C18", [("model", _alo_model_t()), ("boundary_type", TConc("exchange"))],
                 [Case("any")], assumed=True, key="find_boundary_types", result=_fbt_result,
                 note="find_boundary_types(model, 'exchange'): a list of reactions of the model (each with its two distinct solver "
                      "variables) that have a single metabolite; WHICH reactions count as exchanges is the heuristic of boundary_types.py, outside this contract"))

def _import_var(E, st, r):
    return z3.If(flag(E, st, "has_reactants", r), C1.rev(r), C1.fwd(r))


def _alo_inv(E, Lc):
    n, e = _exchanges(Lc.st)
    d = Lc.st.objs[Lc.var("coefs").oid]
    x, j = qv("ax", Ref), qv("aj")
    if d.get("lazy"):
        return z3.And(Lc.i == 0, Lc.n == n)
    return z3.And(Lc.n == n,
                  FA([j], z3.Implies(z3.And(0 <= j, j < Lc.i), z3.And(z3.Select(d["dom"], _import_var(E, Lc.st, e[j])),
                                                                      z3.Select(d["val"], _import_var(E, Lc.st, e[j])) == 1)),
                     patterns=[e[j]]),
                  FA([x], z3.Implies(z3.Select(d["dom"], x),
                                     z3.Exists([j], z3.And(0 <= j, j < Lc.i, _import_var(E, Lc.st, e[j]) == x))),
                     patterns=[z3.Select(d["dom"], x)]))


def _alo_post(E):
    n, e = _exchanges(E.s1)
    o0, o1 = C5.objc(E.s0), C5.objc(E.s1)
    x, j = qv("px", Ref), qv("pj")
    is_import = z3.Exists([j], z3.And(0 <= j, j < n, _import_var(E, E.s0, e[j]) == x))
    obj = E.s1.objs[C4.solver_of(E.s1, E["model"]).oid]["attr:objective"]
    direction = E.s1.objs[obj.oid]["attr:direction"]
    c = E.eng.eq(E.s1, direction, VConc("min"))
    return z3.And(FA([j], z3.Implies(z3.And(0 <= j, j < n), o1[_import_var(E, E.s0, e[j])] == 1), patterns=[e[j]]),
                  FA([x], z3.Implies(z3.Not(is_import), o1[x] == o0[x]), patterns=[o1[x]]),
                  z3.BoolVal(c) if isinstance(c, bool) else c)


def _alo_mod(E):
    sol = C4.solver_of(E.s0, E["model"])
    obj = E.s0.objs[sol.oid]["attr:objective"]
    return [("ghost", "objc", lambda st: fresh("objc", C5.CoefMap)), ("ghost", "exchanges", lambda st: None),
            ("attr", obj, "direction", lambda st: (st, VStr(fresh("dir", Id))))]


REG.add(Contract(MMM, "add_linear_obj", "C18", [("model", _alo_model_t())], [Case("any", ensures=_alo_post)],
                 key="add_linear_obj", modifies=_alo_mod,
                 loops={0: LoopSpec(_alo_inv, lambda E, Lc: [("dict", Lc.var("coefs"), "ref:Variable", "int")])}))
