"""C03 (glue) — from the per-operation contracts to the property: the CONTEXT INVARIANT, by explicit base / step obligations.

No function of /repo is put under contract here: this module only has `lemmas()`.  Every lemma is a closed SMT obligation over the
SAME spec function `run` (and `eff`, sort `World`) that the proved contracts of `HistoryManager.reset` and `Model.__exit__`
(contracts/c03_context.py) use:   run(h, 0, w) = w,   run(h, n, w) = run(h, n - 1, eff(h[n - 1], w))   (replay of the first n entries
of h last-in-first-out).  The SMT solvers do no induction: each inductive lemma is given as a BASE and a STEP obligation, the step
with the induction hypothesis (generalised over the start state w) as a hypothesis; the induction principle over the natural numbers
itself is the one meta-level step (trusted, as in contracts/c07_knockout.py `sem-monotone`).  Later lemmas take the statement of an
earlier inductive lemma (for the same free constants) as a hypothesis: that is a use of the lemma, not an assumption.

(1) CONTEXT INVARIANT   CI(h, n, s, s_entry) :=  run(h, n, s) == s_entry     (h, n: history and length of the innermost manager)
    run/prefix:{base,step}     run(h, n, .) looks only at h[0..n): agree(h, h', n) ==> forall w. run(h, n, w) = run(h', n, w)
    run/segment:{base,step}    run(h1 + h2, s) = run(h1, run(h2, s)):  h[n1 + i] = h2[i] for i < k ==>
                               forall w. run(h, n1 + k, w) = run(h, n1, run(h2, k, w))               (induction on k = len(h2))
    CI/base                    from the very post-condition of Model.__enter__ (synthetic pair of states): the new innermost manager
                               has length 0 and the world is untouched, hence CI(its history, 0, world, world at entry)
    CI/step                    CI(h, n, s, s_entry), an operation takes s to s' and appends u_1..u_k (h' = h + U) such that
                               run(U, k, s') = s  -  which IS the operation's `undo-restores` lemma (k = 2 for Reaction.__imul__, k = 1
                               for a `resettable` setter and for Reaction.add_metabolites, k = len(trace) for Model.remove_reactions,
                               k = 0 for an operation that changes nothing or a completed nested block)  ==>  CI(h', n + k, s', s_entry)
    run/congruence:{base,step}, CI/step:modulo-observational-equality   the operation contracts give EQUAL VIEWS, not equal worlds:
                               with obs := `all views agree` (an equivalence) and the ASSUMED congruence `an undo entry run in
                               obs-equal worlds leaves obs-equal worlds`, replay respects obs (induction on n) and CI/step holds
                               with `==` on worlds replaced by obs everywhere
    run/unfold:k=1,2           run(U, 1, w) = eff(U[0], w), run(U, 2, w) = eff(U[0], eff(U[1], w)): the undo-restores lemmas of
                               c12_rxn_arith (__imul__: two entries), c02_rxn_add_metabolites, c03_objective and c03_context
                               (removed variable: two entries) walk through explicit intermediate states in exactly this order
    undo-restores/sequence     two operations in sequence, each with an undo-restores lemma: the concatenated registrations restore
                               (so knock_out_model_genes - one Gene.knock_out per gene and reads - needs no lemma of its own)
    CI/exit                    from the very post-condition of Model.__exit__ (case innermost_context): CI for the innermost manager
                               ==> the world after the exit is s_entry, the stack is one shorter; __exit__ has no raising path in that
                               case (proved in c03_context: every path of the case ends normally given the non-reentrancy assumption
                               that an undo entry returns) - so `the exit itself does not raise` is reduced to: every registered undo
                               returns normally when run in the state CI promises it (each undo-restores lemma's business)
    CI/nested-block            a complete inner `with model:` block is a null step of the OUTER invariant: from __enter__'s and
                               __exit__'s post-conditions, the inner CI, and `every registration goes to the innermost manager` (proved
                               per operation: get_context returns the last element of model._contexts) the outer manager's history is
                               as before and the world after the inner exit is the world before the inner entry.  Hypothesis NOT
                               proved: the manager allocated by __enter__ is none of those on the stack and __enter__ leaves the
                               other managers' lengths alone (allocation; HistoryManager.__init__ is an assumed contract whose
                               post-condition has the frame clause, Model.__enter__'s post-condition does not repeat it)
(2) CLOSED FORM (what contracts/c02_remove_reactions_ctx.py `undo-restores:*` take as hypothesis `_replayed`): for a view V of the
    world whose cells are read point-wise (`_model[x]`, `x in reactions`, `R[y][x]`, `members[g][x]`; also lb[x], ub[x], S[r][m]) and a
    segment U[0..k) each of whose entries either does not touch V or writes ONE cell of V with a constant
    (view(eff(u, w)) = If(wr(u), Store(view(w), cell(u), val(u)), view(w))), two writes to the same cell carrying the same constant:
        closed-form/<view>:{base,step}    for every start state w:  a cell some entry writes holds the written constant in
                                          view(run(U, k, w)), a cell that differs from view(w) is written by some entry
    (induction on k; one pair of obligations per shape of view: Ref -> Ref, Ref -> Bool, Ref -> Ref -> Bool), and
        closed-form/remove_reactions:replayed   the eleven clauses of `_replayed` (built by that module's own function on its own synthetic
                                          states) follow for the world run(U, n, exit world) when entry j of the manager's history
                                          is the undo the ghost trace describes (kind / arg / arg2) and SETM / RADD / XADD / GADD
                                          entries are the point writes named there, POP / OBJ entries leave the four views alone
                                          (both ASSUMED there and here: setattr, DictList.add C15, set.add, Group.add_members)
    so the closed-form `undo-restores` lemmas are statements about the LIFO replay `run` of the kernel.
(3) `resettable` setters (bounds setters, Gene.functional, Model.objective_direction, Reaction.gene_reaction_rule / gpr): the proved
    contract of resettable.wrapper registers partial(setter, self, OLD value) in the innermost context BEFORE the setter runs and
    gives the same trace when the setter RAISES.  So the step hypothesis run([u], 1, s') = s must hold for EVERY state s' the setter
    can leave behind, including a partial change before a raise.
        resettable/overwriting-setter    abstract: if the setter OVERWRITES a fixed set D of cells with values that depend only on its
                                         argument and on cells outside D, s' differs from s at most on D (any partial change), and
                                         the cells of D held at entry what the setter computes from the old value (entry invariant),
                                         then setter(old) in s' gives s back exactly
        resettable/bounds:{lower_bound,upper_bound,bounds}   concrete instance over (lb, ub, var_lb, var_ub) with the three-branch map
                                         F of Reaction.update_variable_bounds (proved in c01_lp `_uvb_map`; re-stated here): the cells
                                         the setter writes (its own bound(s) and the four variable bounds of fwd(r), rev(r)) are
                                         ARBITRARY in s' (covers NaN / a string accepted by _check_bounds and rejected by optlang
                                         after `_lower_bound` was assigned: natively `r.lower_bound = float("nan")` raises from optlang
                                         with r._lower_bound nan left behind - a C01 matter - and the exit restores -5.0), the undo's
                                         own _check_bounds(old, other bound) passes by the entry invariant lb <= ub, and afterwards
                                         all four views are those of s
        resettable/functional, resettable/objective_direction   (bodies under contract: contracts/c03_knockout_ctx.py `[raise]` keys,
                                         contracts/c03_direction.py)  D = one cell, the setter either raises before writing or writes
                                         its argument (normalised for the direction: max / min); the raising case leaves s' = s and
                                         the undo (old value: a bool / "max" / "min" by the entry invariant) does not raise
    Natively (26 trials, /var/tmp-style script in the docstring of `_NATIVE`): every raising setter call inside `with model:` was
    restored on exit and no exit raised - NO finding.  gene_reaction_rule / gpr: the setter assigns `_gpr` and calls
    update_genes_from_gpr, which registers its own undos (contracts/c02_update_genes.py); only the abstract lemma applies, with the
    round trip GPR.from_string(gpr.to_string()) (C08) as the entry invariant - not instantiated here.
(4) Gene.knock_out / Reaction.knock_out / knock_out_model_genes inside a context register nothing themselves: every registration is
    made by the `resettable` wrappers of `Gene.functional` and `Reaction.bounds` they go through, one per changed attribute, in the
    order of the changes.  contracts/c03_knockout_ctx.py puts Reaction.knock_out and Gene.knock_out under a second, in-context
    contract (real sources, wrapper-then-body) and derives `undo-restores` from those post-conditions and the closed form (2).  Here:
        knock_out/undo-restores:{reaction,gene-step}   over the shapes of the PROVED post-conditions (c01_lp `_set_post`,
                                         c07_knockout `_ko_effect`) with the exact map F: one reaction's bounds undo gives back lb,
                                         ub and the four variable bounds; the knock-out and the undo of x leave the other reactions'
                                         cells alone (frame), so CI/step applies once per changed reaction (k = 1).
    ONE raising operation did NOT satisfy the step: `with model: reaction *= 0` (Reaction.__imul__ registered
    _populate_solver([self]), then `1.0 / coefficient` raised ZeroDivisionError with the zeroed stoichiometry left behind and no
    inverse registered: the DEFECT reported in contracts/c12_rxn_arith.py; re-confirmed natively at the start of this work - after
    the exit the coefficients were {a: -0.0, b: 0.0} - and repaired in /repo by 7c2470e while this module was written: the undo is
    now setattr(self, "_metabolites", <entry dictionary>), registered after the change, nothing can raise in between).

KERNEL MUTANTS the glue rests on (tools/mutate_and_run.sh against contracts.c03_context, each must NOT verify - the glue lemmas
themselves are closed formulas over contracts and have the hypothesis-dropping / wrong-statement guards instead):
  context.py  wrapper: the registration moved AFTER `func(self, new_value)` ........ resettable.wrapper in_model:changed_value post (sat, both exits)
  context.py  wrapper: partial(func, self, new_value) .............................. resettable.wrapper in_model:changed_value post.2 (sat)
  context.py  reset: `self._history.pop(0)` (first-in-first-out) ................... HistoryManager.reset loop#0/inv-preserve (unknown)
  model.py    __exit__: `self._contexts.pop(0)` (the outermost context) ............ Model.__exit__ innermost_context post.2 (sat)
  context.py  __call__: `self._history.insert(0, operation)` ....................... HistoryManager.__call__ post.2, post.3 (sat)
  model.py    __exit__: the stack is not hidden while the undos run ................ Model.__exit__ exit/context-stack-hidden-while-undoing (sat)

GUARDS (run when `lemmas()` builds the obligations; a failed guard raises): for every lemma the hypotheses are satisfiable or at
least not refuted (`False` does not follow), and for every hypothesis marked droppable the lemma WITHOUT it is not provable (the
negated goal is satisfiable / not refuted).  `GUARDS` records the verdict of each probe.

STAYS ASSUMED (not provable inside this framework): Python's `with` protocol (`__exit__` is called exactly once on every way out of
the block, normal or exceptional, with the stack as the block left it); the induction principle; non-reentrancy (an undo entry does
not touch the history being reset and returns); that the effect of an undo entry depends only on the point-indexed views the operation
contracts use (congruence, stated as a hypothesis of run/congruence:step), i.e. that worlds with equal views are interchangeable for the purpose of C03 (the order of the reaction / metabolite /
gene lists is not a view: the statement excludes it); that every context-aware operation of the library HAS an `undo-restores` lemma
(those that have one: Model.remove_reactions, Reaction.__imul__, Reaction.add_metabolites, set_objective, remove_cons_vars of a
variable, the resettable setters and knock-outs here; the others: bounded driver).
"""
import z3
from .common import *  # noqa
from . import c03_context as C3

World, eff, run, SeqRef = C3.World, C3.eff, C3.run, C3.SeqRef
I_, B_, R_ = z3.IntSort(), z3.BoolSort(), z3.RealSort()
GUARDS = {}
_PROBE_MS = 1500


def _probe(formulas):
    s = z3.Solver()
    s.set("timeout", _PROBE_MS)
    s.add(*formulas)
    return str(s.check())


def _lemma(out, name, hyps, goal, guard=True):
    """hyps: [(label, formula, droppable)].  Vacuity guard + one `fails without` guard per droppable hypothesis."""
    from pyvc.engine import Obl
    fs = [h for _, h, _ in hyps]
    if guard:
        v = _probe(fs)
        GUARDS[name + " / hypotheses satisfiable"] = v
        if v == "unsat":
            raise RuntimeError(f"c03_glue: contradictory hypotheses (vacuous lemma) {name}")
        for lab, h, droppable in hyps:
            if not droppable:
                continue
            v = _probe([g for l2, g, _ in hyps if l2 != lab] + [z3.Not(goal)])
            GUARDS[f"{name} / fails without `{lab}`"] = v
            if v == "unsat":
                raise RuntimeError(f"c03_glue: lemma {name} does not need its hypothesis `{lab}` (guard failed)")
    out.append(Obl(f"C03/lemma/glue/{name}", fs, goal, "lemma"))


def _agree(h, h2, n, off=0, nm="aj"):
    j = z3.Int(nm)
    return z3.ForAll([j], z3.Implies(z3.And(0 <= j, j < n), h[off + j] == h2[j]), patterns=[h2[j]])


def _axs():
    a0, a1 = C3.run_axioms()
    return [("run-axiom-0", a0, False), ("run-axiom-step", a1, False)]


def _same_run(h, n, h2, n2, inner=None, nm="pw"):
    """forall w. run(h, n, w) == run(h2, n2, inner(w) or w)"""
    w = z3.Const(nm, World)
    rhs = run(h2, n2, inner(w) if inner else w)
    return z3.ForAll([w], run(h, n, w) == rhs, patterns=[run(h, n, w)])


# ================================================================ (1) the context invariant
def _run_lemmas(out):
    h, h2 = z3.Const("gl_h", SeqRef), z3.Const("gl_h2", SeqRef)
    n, k = z3.Int("gl_n"), z3.Int("gl_k")
    # ---- prefix: run(h, n, .) depends on h[0..n) only
    P = lambda m: z3.Implies(_agree(h, h2, m), _same_run(h, m, h2, m))  # noqa
    _lemma(out, "run/prefix:base", _axs(), P(z3.IntVal(0)), guard=False)
    _lemma(out, "run/prefix:step", _axs() + [("n>=0", n >= 0, False), ("induction-hypothesis", P(n), True)], P(n + 1))
    # ---- segment: h[n + i] = h2[i] (i < k)  ==>  run(h, n + k, w) = run(h, n, run(h2, k, w))
    S = lambda m: z3.Implies(_agree(h, h2, m, off=n), _same_run(h, n + m, h, n, inner=lambda w: run(h2, m, w)))  # noqa
    _lemma(out, "run/segment:base", _axs() + [("n>=0", n >= 0, False)], S(z3.IntVal(0)), guard=False)
    _lemma(out, "run/segment:step", _axs() + [("n>=0", n >= 0, False), ("k>=0", k >= 0, False), ("induction-hypothesis", S(k), True)],
           S(k + 1))


def _ci_step(out):
    h, h1, U = z3.Const("ci_h", SeqRef), z3.Const("ci_h1", SeqRef), z3.Const("ci_U", SeqRef)
    n, k = z3.Int("ci_n"), z3.Int("ci_k")
    s, s1, se = (z3.Const(x, World) for x in ("ci_s", "ci_s1", "ci_entry"))
    prefix = z3.Implies(_agree(h1, h, n), _same_run(h1, n, h, n))                                  # run/prefix for (h1, h, n)
    segment = z3.Implies(_agree(h1, U, k, off=n), _same_run(h1, n + k, h1, n, inner=lambda w: run(U, k, w)))   # run/segment for (h1, n, U, k)
    hyps = [("n>=0", n >= 0, False), ("k>=0", k >= 0, False),
            ("CI before", run(h, n, s) == se, True),
            ("old entries kept", _agree(h1, h, n), True),
            ("new entries appended", _agree(h1, U, k, off=n, nm="bj"), True),
            ("undo-restores (the operation's lemma)", run(U, k, s1) == s, True),
            ("lemma run/prefix", prefix, True), ("lemma run/segment", segment, True)]
    _lemma(out, "CI/step", hyps, run(h1, n + k, s1) == se)
    # undo-restores lemmas COMPOSE: an operation that is a sequence of two operations each with an undo-restores lemma has one
    # (knock_out_model_genes = Gene.knock_out per gene, the drivers' `with model:` bodies, Model.medium setter = bounds per exchange)
    U1, U2, U12 = (z3.Const(x, SeqRef) for x in ("sq_U1", "sq_U2", "sq_U"))
    k1, k2 = z3.Int("sq_k1"), z3.Int("sq_k2")
    t0, t1, t2 = (z3.Const(x, World) for x in ("sq_s", "sq_s1", "sq_s2"))
    hy = [("k1>=0", k1 >= 0, False), ("k2>=0", k2 >= 0, False),
          ("the entries of the first operation come first", _agree(U12, U1, k1), True),
          ("then those of the second", _agree(U12, U2, k2, off=k1, nm="bj"), True),
          ("undo-restores of the first operation (s -> s1)", run(U1, k1, t1) == t0, True),
          ("undo-restores of the second operation (s1 -> s2)", run(U2, k2, t2) == t1, True),
          ("lemma run/prefix", z3.Implies(_agree(U12, U1, k1), _same_run(U12, k1, U1, k1)), True),
          ("lemma run/segment", z3.Implies(_agree(U12, U2, k2, off=k1), _same_run(U12, k1 + k2, U12, k1, inner=lambda w: run(U2, k2, w))), True)]
    _lemma(out, "undo-restores/sequence", hy, run(U12, k1 + k2, t2) == t0)
    # k = 0, nothing registered and nothing changed (unchanged value under `resettable`, an operation that raises before it
    # changes or registers anything): CI is kept by the prefix lemma alone
    hyps0 = [("n>=0", n >= 0, False), ("CI before", run(h, n, s) == se, True), ("old entries kept", _agree(h1, h, n), True),
             ("lemma run/prefix", prefix, True)]
    _lemma(out, "CI/step:nothing-registered-nothing-changed", hyps0, run(h1, n, s) == se)


def _ci_observational(out):
    """The operation contracts speak about point-indexed VIEWS of the model, not about the abstract World: their undo-restores
    lemmas give `the views of run(U, k, s') are the views of s`.  obs(w, w') := all views agree (an equivalence, uninterpreted here).
    What has to be ASSUMED of the undo entries is congruence - an entry run in two observationally equal worlds leaves
    observationally equal worlds (its effect depends on the views only) - and then replay respects obs (induction) and the context
    invariant can be carried modulo obs."""
    obs = z3.Function("obs_eq", World, World, B_)
    a, b, c = (z3.Const(x, World) for x in ("ob_a", "ob_b", "ob_c"))
    u = z3.Const("ob_u", Ref)
    equiv = [("obs is reflexive", z3.ForAll([a], obs(a, a), patterns=[obs(a, a)]), False),
             ("obs is transitive", z3.ForAll([a, b, c], z3.Implies(z3.And(obs(a, b), obs(b, c)), obs(a, c)),
                                             patterns=[z3.MultiPattern(obs(a, b), obs(b, c))]), False)]
    cong = ("ASSUMED congruence: an undo entry run in observationally equal worlds leaves observationally equal worlds",
            z3.ForAll([u, a, b], z3.Implies(obs(a, b), obs(eff(u, a), eff(u, b))), patterns=[z3.MultiPattern(eff(u, a), eff(u, b))]), True)
    h, n = z3.Const("ob_h", SeqRef), z3.Int("ob_n")
    P = lambda m: z3.ForAll([a, b], z3.Implies(obs(a, b), obs(run(h, m, a), run(h, m, b))),  # noqa
                            patterns=[z3.MultiPattern(run(h, m, a), run(h, m, b))])
    _lemma(out, "run/congruence:base", _axs() + equiv, P(z3.IntVal(0)), guard=False)
    _lemma(out, "run/congruence:step", _axs() + equiv + [cong, ("n>=0", n >= 0, False), ("induction-hypothesis", P(n), True)], P(n + 1))
    # CI/step modulo obs
    h1, U, k = z3.Const("ob_h1", SeqRef), z3.Const("ob_U", SeqRef), z3.Int("ob_k")
    s, s1, se = (z3.Const(x, World) for x in ("ob_s", "ob_s1", "ob_entry"))
    prefix = z3.Implies(_agree(h1, h, n), _same_run(h1, n, h, n))
    segment = z3.Implies(_agree(h1, U, k, off=n), _same_run(h1, n + k, h1, n, inner=lambda w: run(U, k, w)))
    hyps = [equiv[0], (equiv[1][0], equiv[1][1], True), ("n>=0", n >= 0, False), ("k>=0", k >= 0, False),
                    ("CI before (modulo obs)", obs(run(h, n, s), se), True),
                    ("old entries kept", _agree(h1, h, n), True), ("new entries appended", _agree(h1, U, k, off=n, nm="bj"), True),
                    ("undo-restores (the operation's lemma: the VIEWS of the replayed world are those of s)", obs(run(U, k, s1), s), True),
                    ("lemma run/prefix", prefix, True), ("lemma run/segment", segment, True), ("lemma run/congruence", P(n), True)]
    _lemma(out, "CI/step:modulo-observational-equality", hyps, obs(run(h1, n + k, s1), se))
    # the per-operation lemmas of the other modules walk through explicit intermediate states (k = 1, 2): that IS run
    w = z3.Const("ob_w", World)
    _lemma(out, "run/unfold:k=1,2", _axs(), z3.And(run(U, 1, w) == eff(U[0], w), run(U, 2, w) == eff(U[0], eff(U[1], w))), guard=False)


def _synthetic(params, mod, tag):
    from pyvc.engine import Engine
    from pyvc.state import State
    from pyvc.loops import havoc_locations
    eng = Engine(REG, C3.HOOKS_EXIT)
    st, a = State(), {}
    for name, t in params:
        st, a[name] = t.make(st, f"{tag}_{name}")
    st = st.assume(*eng.kind_axioms(st))
    s1 = havoc_locations(eng, st, mod(Env(a, st, eng=eng)))
    return eng, Env(a, st, s1, eng=eng)


def _ci_enter_exit(out):
    from pyvc.engine import flatten_and
    # ---- base: Model.__enter__'s own post-condition
    eng, E = _synthetic([C3.MODELC], C3._stack_loc, "ge")
    n0, _ = C3._stack(E.s0, E["self"])
    n1, e1 = C3._stack(E.s1, E["self"])
    top = e1[n0]
    pcs = [(f"path-condition.{i}", f, False) for i, f in enumerate(list(E.s0.pc) + list(E.s1.pc))]
    hist1, len1 = C3.hm_hist(E, E.s1), C3.hm_len(E, E.s1)
    # the conjunct the base case rests on (the other one, `world untouched`, is the FRAME of __enter__: the ghost world is not in
    # its modifies clause, so world(s1) is literally the term world(s0))
    need = [len1[top] == 0]
    post = [(f"__enter__ post.{i}", f, any(f.eq(g) for g in need)) for i, f in enumerate(_enter_conjuncts(E))]
    assert sum(d for _, _, d in post) >= 1, "c03_glue: __enter__'s post-condition no longer has the clauses CI/base needs"
    _lemma(out, "CI/base", _axs() + pcs + post, run(hist1[top], len1[top], C3.world(E.s1)) == C3.world(E.s0))
    # ---- exit: Model.__exit__'s own post-condition
    eng, X = _synthetic(C3._x, C3._exit_mod, "gx")
    m0, f0 = C3._stack(X.s0, X["self"])
    m1, _ = C3._stack(X.s1, X["self"])
    topx = f0[m0 - 1]
    se = z3.Const("gx_entry", World)
    pcs = [(f"path-condition.{i}", f, False) for i, f in enumerate(list(X.s0.pc) + list(X.s1.pc))]
    post = [(f"__exit__ post.{i}", f, z3.is_eq(f) and f.arg(0).eq(C3.world(X.s1))) for i, f in enumerate(flatten_and(C3._exit_post(X)))]
    assert sum(d for _, _, d in post) == 1, "c03_glue: __exit__'s post-condition no longer has the replay clause"
    ci = run(C3.hm_hist(X, X.s0)[topx], C3.hm_len(X, X.s0)[topx], C3.world(X.s0)) == se
    _lemma(out, "CI/exit", pcs + [("a context is open", m0 > 0, False)] + post + [("CI at exit", ci, True)],
           z3.And(C3.world(X.s1) == se, m1 == m0 - 1))
    # ---- a complete nested block is a null step of the OUTER invariant.  States: A before the inner __enter__, (X.s0) at the end
    # of the inner block, (X.s1) after the inner __exit__; o = the manager that was innermost in A (second from the top in X.s0)
    wA = z3.Const("gn_worldA", World)
    lenA, histA = z3.Const("gn_lenA", C3.hm_len(X, X.s0).sort()), z3.Const("gn_histA", C3.hm_hist(X, X.s0).sort())
    o = f0[m0 - 2]
    lenC, histC, lenD, histD = C3.hm_len(X, X.s0), C3.hm_hist(X, X.s0), C3.hm_len(X, X.s1), C3.hm_hist(X, X.s1)
    hyps = _axs() + pcs + [("two contexts are open", m0 >= 2, False)] + post + [
        ("outer CI before the inner block", run(histA[o], lenA[o], wA) == se, True),
        ("allocation (ASSUMED): the inner manager is not the outer one", topx != o, True),
        ("registrations go to the innermost manager: the outer length is as before", lenC[o] == lenA[o], True),
        ("registrations go to the innermost manager: the outer history is as before", histC[o] == histA[o], True),
        ("inner CI (base: world untouched by __enter__; steps: the operations of the block)",
         run(histC[topx], lenC[topx], C3.world(X.s0)) == wA, True)]
    _lemma(out, "CI/nested-block", hyps, run(histD[o], lenD[o], C3.world(X.s1)) == se)


def _enter_conjuncts(E):
    from pyvc.engine import flatten_and
    return flatten_and(C3._enter_post(Env(E.a, E.s0, E.s1, eng=E.eng, res=E["self"])))


# ================================================================ (2) closed form of a segment of point writes
def _rd(A, cells):
    for c in cells:
        A = A[c]
    return A


def _wr(A, cells, v):
    if len(cells) == 1:
        return z3.Store(A, cells[0], v)
    return z3.Store(A, cells[0], _wr(A[cells[0]], cells[1:], v))


class View:
    """a point-indexed view of the world and what an undo entry does to it"""
    def __init__(self, tag, cell_sorts, val_sort):
        srt = val_sort
        for d in reversed(cell_sorts):
            srt = z3.ArraySort(d, srt)
        self.tag, self.cs, self.vs = tag, cell_sorts, val_sort
        self.view = z3.Function(f"view_{tag}", World, srt)
        self.wr = z3.Function(f"writes_{tag}", Ref, B_)
        self.cell = [z3.Function(f"cell{i}_{tag}", Ref, d) for i, d in enumerate(cell_sorts)]
        self.val = z3.Function(f"val_{tag}", Ref, val_sort)

    def cells(self, u):
        return [f(u) for f in self.cell]

    def eff_axiom(self):
        u, w = z3.Const("ea_u", Ref), z3.Const("ea_w", World)
        return z3.ForAll([u, w], self.view(eff(u, w)) == z3.If(self.wr(u), _wr(self.view(w), self.cells(u), self.val(u)), self.view(w)),
                         patterns=[self.view(eff(u, w))])

    def consistent(self, U, k):
        i, j = z3.Int("cs_i"), z3.Int("cs_j")
        same = z3.And(*[a == b for a, b in zip(self.cells(U[i]), self.cells(U[j]))])
        return z3.ForAll([i, j], z3.Implies(z3.And(0 <= i, i < k, 0 <= j, j < k, self.wr(U[i]), self.wr(U[j]), same),
                                            self.val(U[i]) == self.val(U[j])),
                         patterns=[z3.MultiPattern(self.wr(U[i]), self.wr(U[j]))])

    def closed(self, U, k, w_from=None):
        """for every start state w (or the given one): written cells hold the written constant, changed cells are written"""
        w = w_from if w_from is not None else z3.Const("cf_w", World)
        j, j2 = z3.Int("cf_j"), z3.Int("cf_j2")
        cs = [z3.Const(f"cf_c{i}", d) for i, d in enumerate(self.cs)]
        after, before = self.view(run(U, k, w)), self.view(w)
        hit = z3.ForAll([j], z3.Implies(z3.And(0 <= j, j < k, self.wr(U[j])), _rd(after, self.cells(U[j])) == self.val(U[j])),
                        patterns=[self.wr(U[j])])
        some = z3.Exists([j2], z3.And(0 <= j2, j2 < k, self.wr(U[j2]), *[a == b for a, b in zip(self.cells(U[j2]), cs)]))
        miss = z3.ForAll(cs, z3.Or(_rd(after, cs) == _rd(before, cs), some), patterns=[_rd(after, cs)])
        body = z3.And(hit, miss)
        return body if w_from is not None else z3.ForAll([w], body, patterns=[run(U, k, w)])


VIEWS = {"ref->ref": View("rr", [Ref], Ref), "ref->bool": View("rb", [Ref], B_), "ref->ref->bool": View("rrb", [Ref, Ref], B_),
         "ref->real": View("rq", [Ref], R_), "ref->ref->real": View("rrq", [Ref, Ref], R_), "ref->int": View("ri", [Ref], I_)}


def _closed_form(out):
    U, k = z3.Const("cf_U", SeqRef), z3.Int("cf_k")
    for nm, V in VIEWS.items():
        P = lambda m: z3.Implies(V.consistent(U, m), V.closed(U, m))  # noqa
        base = _axs() + [("entries are point writes or skips", V.eff_axiom(), False)]
        _lemma(out, f"closed-form/{nm}:base", base, P(z3.IntVal(0)), guard=False)
        _lemma(out, f"closed-form/{nm}:step",
               _axs() + [("k>=0", k >= 0, False), ("entries are point writes or skips", V.eff_axiom(), True),
                         ("induction-hypothesis", P(k), True)], P(k + 1))


def _closed_form_remove_reactions(out):
    """the hypothesis `_replayed` of c02_remove_reactions_ctx.lemmas() follows from the closed form over `run`"""
    from . import c02_remove_reactions_ctx as RRC
    from . import c02_remove_reactions as RR
    from pyvc.engine import Engine
    from pyvc.state import State
    from pyvc.loops import havoc_locations
    eng = Engine(REG, RRC.HOOKS)
    st, a = State(), {}
    for name, t in (("self", RR._model_t()), ("reactions", TList("ref:Reaction")), ("remove_orphans", TConc(False))):
        st, a[name] = t.make(st, "gr_" + name)
    s1 = havoc_locations(eng, st, RRC._mod(Env(a, st, eng=eng)))
    E = Env(a, st, s1, eng=eng)
    T = RRC.gh(s1, "rru")
    n, kd, ar, a2 = (T[f] for f in ("n", "kind", "arg", "arg2"))
    me = RR._me(E)
    U, w1 = z3.Const("gr_U", SeqRef), z3.Const("gr_world_exit", World)       # the manager's history segment, the world at exit
    wf = run(U, n, w1)                                                        # ... after the LIFO replay
    Vm, Vi, Vr, Vg = View("model", [Ref], Ref), View("listed", [Ref], B_), View("reaction", [Ref, Ref], B_), View("members", [Ref, Ref], B_)
    mo1, R1, M1 = Vm.view(w1), Vr.view(w1), Vg.view(w1)
    in1 = lambda v: Vi.view(w1)[v]  # noqa
    goal = z3.And(*RRC._replayed(E, T, (mo1, in1, R1, M1, Vm.view(wf), Vi.view(wf), Vr.view(wf), Vg.view(wf))))
    j = z3.Int("gr_j")
    rng = z3.And(0 <= j, j < n)
    T_ = z3.BoolVal(True)
    link = z3.ForAll([j], z3.Implies(rng, z3.And(
        Vm.wr(U[j]) == (kd[j] == RRC.K_SETM), Vm.cell[0](U[j]) == ar[j], Vm.val(U[j]) == me,
        Vi.wr(U[j]) == (kd[j] == RRC.K_RADD), Vi.cell[0](U[j]) == ar[j], Vi.val(U[j]) == T_,
        Vr.wr(U[j]) == (kd[j] == RRC.K_XADD), Vr.cell[0](U[j]) == a2[j], Vr.cell[1](U[j]) == ar[j], Vr.val(U[j]) == T_,
        Vg.wr(U[j]) == (kd[j] == RRC.K_GADD), Vg.cell[0](U[j]) == a2[j], Vg.cell[1](U[j]) == ar[j], Vg.val(U[j]) == T_)),
        patterns=[U[j]])
    hyps = [("n>=0", n >= 0, False),
            ("history entry j is the undo the ghost trace describes (point writes; POP / OBJ leave the views alone)", link, True)]
    for V in (Vm, Vi, Vr, Vg):
        hyps.append((f"lemma closed-form for view {V.tag}", z3.Implies(V.consistent(U, n), V.closed(U, n, w_from=w1)), True))
    _lemma(out, "closed-form/remove_reactions:replayed", hyps, goal)


# ================================================================ (3) `resettable` setters, also when the setter raises
def _overwriting_setter(out):
    Cell, Val, Arg = z3.DeclareSort("GlCell"), z3.DeclareSort("GlVal"), z3.DeclareSort("GlArg")
    A = z3.ArraySort(Cell, Val)
    view = z3.Function("gl_view", World, A)
    setf = z3.Function("gl_setter", Arg, World, World)          # the world after setter(self, v) returned
    G = z3.Function("gl_computed", Arg, A, A)                   # what the setter writes into its cells
    D = z3.Const("gl_D", z3.ArraySort(Cell, B_))                # the cells the setter owns
    s, s1, old = z3.Const("gl_s", World), z3.Const("gl_s1", World), z3.Const("gl_old", Arg)
    c, v, w = z3.Const("gl_c", Cell), z3.Const("gl_v", Arg), z3.Const("gl_w", World)
    X, Y = z3.Const("gl_X", A), z3.Const("gl_Y", A)
    overwrite = z3.ForAll([v, w, c], view(setf(v, w))[c] == z3.If(D[c], G(v, view(w))[c], view(w)[c]), patterns=[view(setf(v, w))[c]])
    local = z3.ForAll([v, X, Y], z3.Implies(z3.ForAll([c], z3.Implies(z3.Not(D[c]), X[c] == Y[c])),
                                            z3.ForAll([c], z3.Implies(D[c], G(v, X)[c] == G(v, Y)[c]))),
                      patterns=[z3.MultiPattern(G(v, X), G(v, Y))])
    hyps = [("the setter overwrites its cells D and nothing else", overwrite, True),
            ("what it writes depends only on the argument and on cells outside D", local, True),
            ("s' differs from s at most on D (complete or PARTIAL change, or none)",
             z3.ForAll([c], z3.Implies(z3.Not(D[c]), view(s1)[c] == view(s)[c]), patterns=[view(s1)[c]]), True),
            ("entry invariant: the cells of D hold what the setter computes from the old value",
             z3.ForAll([c], z3.Implies(D[c], view(s)[c] == G(old, view(s))[c]), patterns=[view(s)[c]]), True)]
    goal = z3.ForAll([c], view(setf(old, s1))[c] == view(s)[c], patterns=[view(setf(old, s1))[c]])
    _lemma(out, "resettable/overwriting-setter", hyps, goal)


def _xr(name):
    return (z3.Int(name + "_k"), z3.Real(name + "_v"))


def _xeq(a, b):
    return z3.And(a[0] == b[0], z3.Or(a[0] != 0, a[1] == b[1]))


def _xlt(a, b):
    return z3.Or(a[0] < b[0], z3.And(a[0] == 0, b[0] == 0, a[1] < b[1]))


def _xle(a, b):
    return z3.Not(_xlt(b, a))


def _xkind(a):
    return z3.And(-1 <= a[0], a[0] <= 1)


def _xneg(a):
    return (-a[0], -a[1])


_ZERO = (z3.IntVal(0), z3.RealVal(0))


def uvb_map(lb, ub, flb, fub, rlb, rub):
    """the three-branch map of Reaction.update_variable_bounds (c01_lp `_uvb_map`, proved there; NaN-free extended reals)"""
    pos = z3.And(_xeq(flb, lb), _xeq(fub, ub), _xeq(rlb, _ZERO), _xeq(rub, _ZERO))
    neg = z3.And(_xeq(flb, _ZERO), _xeq(fub, _ZERO), _xeq(rlb, _xneg(ub)), _xeq(rub, _xneg(lb)))
    mid = z3.And(_xeq(flb, _ZERO), _xeq(fub, ub), _xeq(rlb, _ZERO), _xeq(rub, _xneg(lb)))
    return z3.If(_xlt(_ZERO, lb), pos, z3.If(_xlt(ub, _ZERO), neg, mid))


def _bounds_setters(out):
    """state = (lb, ub) of the reaction and the four variable bounds of its two variables (every other cell is framed by the setter
    contracts).  s: entry; s1: anything the setter may leave (the cells it writes ARBITRARY - complete, partial or no change); s2:
    after the undo setter(self, old value) = _check_bounds, assignment(s), update_variable_bounds."""
    names = ("lb", "ub", "flb", "fub", "rlb", "rub")
    S0, S1, S2 = ({n: _xr(f"gb{i}_{n}") for n in names} for i in (0, 1, 2))
    kinds = [_xkind(S[n]) for S in (S0, S1, S2) for n in names]
    inv0 = [("entry: lb <= ub, lb < +inf, ub > -inf", z3.And(_xle(S0["lb"], S0["ub"]), S0["lb"][0] != 1, S0["ub"][0] != -1), True),
            ("entry (C01): the variable bounds are F(lb, ub)", uvb_map(*[S0[n] for n in names]), True)]
    for which, writes in (("lower_bound", ("lb",)), ("upper_bound", ("ub",)), ("bounds", ("lb", "ub"))):
        kept = [n for n in ("lb", "ub") if n not in writes]
        partial = [(f"s': `{n}` is not written by this setter", _xeq(S1[n], S0[n]), True) for n in kept]
        new = {n: (S0[n] if n in writes else S1[n]) for n in ("lb", "ub")}              # the undo's arguments / the other bound it reads
        check_passes = _xle(new["lb"], new["ub"])
        undo = [("undo: the old value(s) assigned, the other bound kept", z3.And(_xeq(S2["lb"], new["lb"]), _xeq(S2["ub"], new["ub"])), True),
                ("undo: update_variable_bounds (c01_lp, proved): F of the bounds now held", uvb_map(*[S2[n] for n in names]), True)]
        goal = z3.And(check_passes, *[_xeq(S2[n], S0[n]) for n in names])
        _lemma(out, f"resettable/bounds:{which}", [("kinds", z3.And(*kinds), False)] + inv0 + partial + undo, goal)


def _uvb_map_is_c01s(out):
    """the map F re-stated above is, formula for formula, the post-condition clause `_uvb_map` of Reaction.update_variable_bounds
    (c01_lp, proved there against the real source), read off the heap arrays of a synthetic pair of states"""
    from . import c01_lp as C1
    eng, E = _synthetic([C1.RXN], C1.VAR_HEAP, "gu")
    r = E["self"].t
    lb, ub = C1.lbub(E, E.s0, r)
    t = lambda v: (v.k, v.v)  # noqa
    mine = uvb_map(t(lb), t(ub), *[t(C1.hreal(E, E.s1, f, x)) for x in (C1.fwd(r), C1.rev(r)) for f in ("var_lb", "var_ub")])
    _lemma(out, "resettable/bounds:F-is-the-proved-map-of-update_variable_bounds", [], mine == C1._uvb_map(E), guard=False)


def _one_cell_setters(out):
    # Gene.functional: raises ValueError BEFORE writing unless the value is a bool; writes `_functional[g] := value` (c07_knockout,
    # proved post-condition incl. frame).  States as arrays Ref -> Bool; `is_bool` of the python value handed over.
    RB = z3.ArraySort(Ref, B_)
    f0, f1, f2 = (z3.Const(f"gf_fun{i}", RB) for i in (0, 1, 2))
    g, x = z3.Const("gf_g", Ref), z3.Const("gf_x", Ref)
    new, raised = z3.Bool("gf_new"), z3.Bool("gf_setter_raised")
    hyps = [("call: raised before writing, or wrote the new value (frame: nothing else)",
             z3.If(raised, f1 == f0, f1 == z3.Store(f0, g, new)), True),
            ("undo: Gene.functional@setter(g, old value) by its proved post-condition (old is a bool: field type)",
             z3.And(f2[g] == f0[g], z3.ForAll([x], z3.Implies(x != g, f2[x] == f1[x]), patterns=[f2[x]])), True)]
    _lemma(out, "resettable/functional", hyps, z3.ForAll([x], f2[x] == f0[x], patterns=[f2[x]]))
    # Model.objective_direction: `value.lower()` / the else branch raise before writing; otherwise direction := max / min
    d0, d1, d2 = (z3.Int(f"gd_dir{i}") for i in (0, 1, 2))           # 0 = "max", 1 = "min"
    newd, raised = z3.Int("gd_new"), z3.Bool("gd_setter_raised")
    hyps = [("entry: the direction is max or min (optlang)", z3.Or(d0 == 0, d0 == 1), True),
            ("call: raised before writing, or wrote max / min", z3.If(raised, d1 == d0, z3.And(d1 == newd, z3.Or(newd == 0, newd == 1))), False),
            ("undo: the setter with the OLD direction string: startswith max -> max, startswith min -> min, else ValueError",
             z3.And(z3.Implies(d0 == 0, d2 == 0), z3.Implies(d0 == 1, d2 == 1)), True)]
    _lemma(out, "resettable/objective_direction", hyps, z3.And(d2 == d0, z3.Or(d0 == 0, d0 == 1)))


# ================================================================ (4) knock-outs inside a context
def _knock_outs(out):
    """Reaction.knock_out = `self.bounds = (0, 0)`; Gene.knock_out = `self.functional = False`, then `reaction.bounds = (0, 0)` for
    every reaction of the gene whose rule is false.  Nothing is registered but by the `resettable` wrappers: Reaction.knock_out
    registers [partial(bounds.fset, r, (lb0, ub0))] iff (lb0, ub0) != (0, 0); Gene.knock_out registers [partial(functional.fset, g,
    True)] iff g was functional, then one bounds entry per changed reaction.  Replay of ONE reaction's entry (state after the
    knock-out -> state before), over the shape of the proved post-condition c01_lp `_set_post` with the exact map F:"""
    names = ("lb", "ub", "flb", "fub", "rlb", "rub")
    S0, S1, S2 = ({n: _xr(f"gk{i}_{n}") for n in names} for i in (0, 1, 2))
    kinds = [_xkind(S[n]) for S in (S0, S1, S2) for n in names]
    hyps = [("kinds", z3.And(*kinds), False),
            ("entry: lb <= ub, lb < +inf, ub > -inf", z3.And(_xle(S0["lb"], S0["ub"]), S0["lb"][0] != 1, S0["ub"][0] != -1), True),
            ("entry (C01): the variable bounds are F(lb, ub)", uvb_map(*[S0[n] for n in names]), True),
            ("Reaction.knock_out (proved, C07): bounds (0, 0)", z3.And(_xeq(S1["lb"], _ZERO), _xeq(S1["ub"], _ZERO)), False),
            ("undo = bounds setter with the OLD pair (registered before the change)", z3.And(_xeq(S2["lb"], S0["lb"]), _xeq(S2["ub"], S0["ub"])), True),
            ("undo: update_variable_bounds: F of the bounds now held", uvb_map(*[S2[n] for n in names]), True)]
    _lemma(out, "knock_out/undo-restores:reaction", hyps, z3.And(_xle(S0["lb"], S0["ub"]), *[_xeq(S2[n], S0[n]) for n in names]))
    # Gene.knock_out, one step of its loop seen from the history: the entries registered so far are [functional?] + one bounds entry
    # per changed reaction visited so far; CI/step with k = 1 per changed reaction (lemma above), k = 0 for a reaction whose rule is
    # still true or whose bounds are (0, 0) already (unchanged value: nothing registered, nothing changed - proved case
    # `unchanged_value` of resettable.wrapper).  What is left to state: the knock-out of reaction x does not disturb the cells the
    # EARLIER entries restore (other reactions' bounds, the gene's flag): the frame of `_set_post`.
    RBk, RBv = z3.ArraySort(Ref, I_), z3.ArraySort(Ref, R_)
    lbk0, lbk1, lbk2 = (z3.Const(f"gk_lbk{i}", RBk) for i in (0, 1, 2))
    lbv0, lbv1, lbv2 = (z3.Const(f"gk_lbv{i}", RBv) for i in (0, 1, 2))
    x, y = z3.Const("gk_x", Ref), z3.Const("gk_y", Ref)
    frame = lambda a, b, c, d: z3.ForAll([y], z3.Implies(y != x, z3.And(a[y] == b[y], c[y] == d[y])), patterns=[a[y]])  # noqa
    hyps = [("knock-out of x: frame of the bounds setter (proved, c01_lp heap_real_unchanged_except)", frame(lbk1, lbk0, lbv1, lbv0), True),
            ("undo of x: frame of the bounds setter", frame(lbk2, lbk1, lbv2, lbv1), True),
            ("undo of x restores x (lemma knock_out/undo-restores:reaction)", z3.And(lbk2[x] == lbk0[x], lbv2[x] == lbv0[x]), True)]
    _lemma(out, "knock_out/undo-restores:gene-step", hyps,
           z3.ForAll([y], z3.And(lbk2[y] == lbk0[y], lbv2[y] == lbv0[y]), patterns=[lbk2[y]]))


def _unfold(h, n, w, eqs):
    """run(h, n, w) for a CONCRETE n, with every unfolding step added to `eqs` as a ground equality -> the fully unfolded term"""
    if n == 0:
        eqs.append(run(h, 0, w) == w)
        return w
    inner = eff(h[n - 1], w)
    eqs.append(run(h, n, w) == run(h, n - 1, inner))
    return _unfold(h, n - 1, inner, eqs)


def _negative_guards():
    """wrong variants of the statements must NOT be provable: a counter-model is asked for (`sat`) with the two quantified axioms
    of `run` replaced by the complete ground unfolding of every run-term that occurs (a model of these ground equalities extends
    to a model of the recursive definition: define run by the recursion everywhere else) - recorded in GUARDS, anything but `sat`
    raises"""
    h, h2 = z3.Const("ng_h", SeqRef), z3.Const("ng_h2", SeqRef)
    w = z3.Const("ng_w", World)
    tests = {}
    # the segment lemma in first-in-first-out order, n = k = 1: run(h, 2, w) = run(h2, 1, run(h, 1, w)) with h[1] = h2[0]
    eqs = []
    _unfold(h, 2, w, eqs)
    _unfold(h, 1, w, eqs)
    _unfold(h2, 1, run(h, 1, w), eqs)
    tests["run/segment in FIFO order (n = k = 1) has a counter-model"] = eqs + [h[1] == h2[0], run(h, 2, w) != run(h2, 1, run(h, 1, w))]
    # the closed form WITHOUT the consistency hypothesis: two writes of different constants to one cell
    V, U = VIEWS["ref->bool"], z3.Const("ng_U", SeqRef)
    eqs = []
    _unfold(U, 2, w, eqs)
    w1 = eff(U[1], w)
    w2 = eff(U[0], w1)
    step = lambda u, a, b: V.view(b) == z3.If(V.wr(u), _wr(V.view(a), V.cells(u), V.val(u)), V.view(a))  # noqa
    tests["closed form without `same cell, same constant` has a counter-model"] = eqs + [
        step(U[1], w, w1), step(U[0], w1, w2), V.wr(U[0]), V.wr(U[1]), V.cell[0](U[0]) == V.cell[0](U[1]), V.val(U[0]) != V.val(U[1]),
        z3.Not(V.closed(U, z3.IntVal(2), w_from=w))]
    # CI/step with the new entry put in FRONT of the history (n = k = 1)
    s, s1, se = (z3.Const(x, World) for x in ("ng_s", "ng_s1", "ng_se"))
    u = z3.Const("ng_u", Ref)
    eqs = []
    _unfold(h, 1, s, eqs)
    _unfold(h2, 2, s1, eqs)
    tests["CI/step with the new entry put in FRONT of the history has a counter-model"] = eqs + [
        run(h, 1, s) == se, h2[0] == u, h2[1] == h[0], eff(u, s1) == s, run(h2, 2, s1) != se]
    for nm, fs in tests.items():
        v = _probe(fs)
        GUARDS["negative / " + nm] = v
        if v != "sat":
            raise RuntimeError(f"c03_glue: no counter-model for a deliberately wrong statement ({v}): " + nm)


_NATIVE = """native trials (/venv/bin/python against /repo, 3 reactions / 2 genes, glpk): inside `with model:` each of
r.lower_bound = nan | r.upper_bound = nan | r.bounds = (nan, nan) | (0, nan)  (optlang raises AFTER _lower_bound / _upper_bound were
assigned: the partial change stays visible inside the block), r.lower_bound = 20 > ub | None | "3" | True, r.bounds = (1,) | ("a", "b")
(partial change: _lower_bound = "a") | (None, None), gene.functional = 1 | 0 | None, model.objective_direction = "foo" | 5 | "MINimize",
r.gene_reaction_rule = 5 | "g1 and" | None | "g3 or g1", r.gpr = None | "x", gene.knock_out(), reaction.knock_out()
-> after the exit bounds, variable bounds, rule, genes, functional flags and direction are those at entry; no exit raised."""


def lemmas():
    out = []
    GUARDS.clear()
    _run_lemmas(out)
    _ci_step(out)
    _ci_observational(out)
    _ci_enter_exit(out)
    _closed_form(out)
    _closed_form_remove_reactions(out)
    _overwriting_setter(out)
    _bounds_setters(out)
    _uvb_map_is_c01s(out)
    _one_cell_setters(out)
    _knock_outs(out)
    _negative_guards()
    return out
