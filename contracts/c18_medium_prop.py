"""C18 — the property Model.medium ITSELF: the getter (a dict comprehension over model.exchanges) and the setter (two loops), on top
of the proved nested accessors of c18_medium (is_active, get_active_bound, set_active_bound are applied by contract, not inlined).

Documented (docstrings of Model.medium): the medium is `{rxn_id: bound}` over the boundary reactions, `bound` the absolute value of
the bound in direction of metabolite creation (-lower_bound for `met -->`, upper_bound for `--> met`); is_active: "True if reaction
produces metabolites and has upper_bound above 0 or if reaction consumes metabolites and has lower_bound below 0"; the setter sets
the given bounds ("Applying bounds anyway" for a non-exchange) and turns off the exchanges that are not present in the medium.

EX = model.exchanges = find_boundary_types(model, "exchange", None) is an ASSUMED contract (heuristics of boundary_types.py): a list
of members of model.reactions, each with exactly one non-empty side; for boundary_type "exchange" the heuristic reads no bound, so
the list is a function of the model structure (fixed names MEXn / MEXe: the same list before and after the setter).

getter  -> a dictionary d with
   (G1) every ACTIVE exchange r (per is_active's contract) has its id as a key, and d[r.id] is its import bound (whenever that is
        finite: the containers of the encoding hold finite reals, A2; an infinite import bound is outside the claim),
   (G2) every key is the id of some active exchange;           nothing is modified.
setter  (medium: {id -> finite real}), with  new(r, b) = the bounds set_active_bound's contract gives r for the value b (import side
        := b, export side untouched),  ok(r, b) = b does not cross the opposite bound of r,  closing(r) = min(0, -lb(r) if r has
        reactants and no products else ub(r)), all over the ENTRY bounds:
   ok      every key is an id of the model, ok(r, m[r.id]) for every listed r, ok(r, closing(r)) for every unlisted exchange:
           afterwards  bounds(r) = new(r, m[r.id])  for every reaction of the model whose id is a key (exchange or not),
                       bounds(r) = new(r, closing(r))  for every exchange that is not listed,  every other reaction is untouched;
   unknown_id              some key is no id of the model (and no listed value crosses): KeyError;
   crosses_opposite_bound  every key is known, some listed value or some closing value crosses the opposite bound: ValueError
                           (the bounds setter's raising case - stated, not hidden);
   unknown_id_and_crossing both: KeyError or ValueError, whichever the dictionary's iteration order meets first.
   What has been changed before a raise is unspecified (modifies_on_raise = the four bound fields).
Not claimed: the solver-side variable bounds after the setter (C01's property, per bounds setter), the warning that is logged.
"""
import z3
from .common import *  # noqa
from . import c01_lp as C1
from . import c15_dictlist  # noqa  (DictList.get_by_id)
from . import c18_medium as CM
from pyvc.values import VReal, xr_eq, xr_lt, xr_le
from pyvc.state import alloc_list

MM = CM.MM
GET, SET = "Model.medium@getter", "Model.medium@setter"
KEYS = (GET, SET)
FBT = "find_boundary_types[medium]"
REG.inline.add("Model.exchanges@getter")

MEXn = z3.Int("medium_EX_len")
MEXe = z3.Const("medium_EX_elem", z3.ArraySort(I, Ref))
ZERO = CM.ZERO


def _model_t():
    return TObj("Model", {"reactions": TDictList("Reaction")})


def _R(st, model):
    return st.objs[model.oid]["attr:reactions"]


def member(eng, st, R, x):
    """x is an element of the DictList R, said through the index: R[R._dict[x.id]] is x (no quantifier; ids of members are
    therefore pairwise different)"""
    dom, val = Dv(st, R)
    _, e = L(st, R)
    ida = eng.heap_arr(st, "_id")
    return z3.And(z3.Select(dom, ida[x]), e[val[ida[x]]] == x)


def hr(E, st, x):
    return CM.flag(E, st, "has_reactants", x)


def hp(E, st, x):
    return CM.flag(E, st, "has_products", x)


# ---------------------------------------------------------------- assumed: model.exchanges
def _fbt_result(eng, st, E):
    st, l = alloc_list(st, "ref:Reaction", length=MEXn, elem=MEXe)
    j = qv("ej")
    R = _R(st, E["model"])
    x = MEXe[j]
    hr_, hp_ = eng.heap_arr(st, "has_reactants")[x], eng.heap_arr(st, "has_products")[x]
    st = st.assume(MEXn >= 0, FA([j], z3.Implies(z3.And(0 <= j, j < MEXn), z3.And(x != NULL, member(eng, st, R, x), z3.Xor(hr_, hp_))),
                                 patterns=[MEXe[j]]))
    return st.setghost("exchanges", l), l


_fbt = REG.add(Contract("cobra/medium/boundary_types.py", "find_boundary_types", "C18",
                        [("model", _model_t()), ("boundary_type", TConc("exchange")), ("external_compartment", TNone())],
                        [Case("any")], assumed=True, key=FBT, result=_fbt_result,
                        note="model.exchanges = find_boundary_types(model, 'exchange', None) as used by Model.medium: the list EX of "
                             "elements of model.reactions (model.reactions.query(...)) that the heuristic of boundary_types.py takes for "
                             "exchanges - WHICH ones is outside this contract; each has exactly one non-empty side (Reaction.boundary: one "
                             "metabolite; a reaction that only carries the exchange SBO annotation without being a boundary reaction is "
                             "outside this assumption); for boundary_type 'exchange' no reaction bound is read, so EX is a function of the "
                             "model structure (fixed names: the same list before and after the medium setter)"))
[t for n_, t in _fbt.params if n_ == "external_compartment"][0].default = NONE


def global_hook(eng, name):
    if name == "find_boundary_types" and getattr(eng.cur_contract, "key", None) in KEYS:
        return VFunc("repo", FBT)
    return None


HOOKS = {"global": global_hook}


def exch(x):
    j = qv("xj")
    return z3.Exists([j], z3.And(0 <= j, j < MEXn, MEXe[j] == x))


# ---------------------------------------------------------------- getter
def _get_post(E):
    if not (isinstance(E.res, VObj) and E.res.kind == "dict") or "exchanges" not in E.s1.ghost:
        return z3.BoolVal(False)
    rec = E.s1.objs[E.res.oid]
    if rec.get("lazy") or rec.get("pure") or rec.get("kkind") != "id" or rec.get("vkind") != "real":
        return z3.BoolVal(False)
    dom, val = rec["dom"], rec["val"]
    ida = idarr(E, E.s0)
    j, k, w = qv("gj"), qv("gk", Id), qv("gw")
    x = MEXe[j]
    ib = CM.import_bound(E, E.s0, x)
    g1 = FA([j], z3.Implies(z3.And(0 <= j, j < MEXn, CM.active(E, E.s0, x)),
                            z3.And(z3.Select(dom, ida[x]), z3.Implies(ib.k == 0, z3.Select(val, ida[x]) == ib.v))), patterns=[MEXe[j]])
    g2 = FA([k], z3.Implies(z3.Select(dom, k), z3.Exists([w], z3.And(0 <= w, w < MEXn, CM.active(E, E.s0, MEXe[w]), ida[MEXe[w]] == k))),
            patterns=[z3.Select(dom, k)])
    return z3.And(g1, g2)


REG.add(Contract(MM, GET, "C18", [("self", _model_t())], [Case("any", ensures=_get_post)], key=GET, result="opaque"))


# ---------------------------------------------------------------- setter: specification functions over the ENTRY state
def _neg(b):
    return VReal(-b.k, -b.v)


def _min0(x):
    c = xr_lt(x, ZERO)
    return VReal(z3.If(c, x.k, 0), z3.If(c, x.v, 0))


def sab_ok(E, x, b):
    """set_active_bound(x, b) does not cross the opposite bound (c18_medium._sab_ok over the entry state)"""
    lb, ub = C1.lbub(E, E.s0, x)
    nb = _neg(b)
    return z3.If(hr(E, E.s0, x), z3.And(xr_le(nb, ub), nb.k != 1),
                 z3.If(hp(E, E.s0, x), z3.And(xr_le(lb, b), b.k != -1), z3.BoolVal(True)))


def sab_new(E, x, b):
    """the bounds set_active_bound's contract gives x for the value b, from the entry bounds: (lb', ub')"""
    lb, ub = C1.lbub(E, E.s0, x)
    r_, p_ = hr(E, E.s0, x), hp(E, E.s0, x)
    nb = _neg(b)
    return (VReal(z3.If(r_, nb.k, lb.k), z3.If(r_, nb.v, lb.v)),
            VReal(z3.If(z3.And(z3.Not(r_), p_), b.k, ub.k), z3.If(z3.And(z3.Not(r_), p_), b.v, ub.v)))


def closing(E, x):
    """min(0.0, -lb if (reactants and not products) else ub) over the entry bounds"""
    lb, ub = C1.lbub(E, E.s0, x)
    ex = z3.And(hr(E, E.s0, x), z3.Not(hp(E, E.s0, x)))
    nl = _neg(lb)
    return _min0(VReal(z3.If(ex, nl.k, ub.k), z3.If(ex, nl.v, ub.v)))


def _med(E, st=None):
    rec = (st or E.s0).objs[E["medium"].oid]
    return rec["dom"], rec["val"]


def _rx_of(E, k):
    """the reaction of the model with identifier k (meaningful when k is in the index)"""
    R = _R(E.s0, E["self"])
    return L(E.s0, R)[1][Dv(E.s0, R)[1][k]]


def _known(E, k):
    return z3.Select(Dv(E.s0, _R(E.s0, E["self"]))[0], k)


def listed(E, x):
    """x is a reaction of the model whose id is a key of the medium"""
    return z3.And(member(E.eng, E.s0, _R(E.s0, E["self"]), x), z3.Select(_med(E)[0], idarr(E, E.s0)[x]))


def given(E, x):
    return VReal(0, z3.Select(_med(E)[1], idarr(E, E.s0)[x]))


def all_known(E):
    k = qv("ak", Id)
    return FA([k], z3.Implies(z3.Select(_med(E)[0], k), _known(E, k)), patterns=[z3.Select(_med(E)[0], k)])


def listed_ok(E):
    k = qv("lk", Id)
    dom, val = _med(E)
    return FA([k], z3.Implies(z3.And(z3.Select(dom, k), _known(E, k)), sab_ok(E, _rx_of(E, k), VReal(0, z3.Select(val, k)))),
              patterns=[z3.Select(dom, k)])


def unlisted_ok(E):
    j = qv("uj")
    x = MEXe[j]
    return FA([j], z3.Implies(z3.And(0 <= j, j < MEXn, z3.Not(listed(E, x))), sab_ok(E, x, closing(E, x))), patterns=[MEXe[j]])


def _bounds_eq(E, st, x, new):
    lb, ub = C1.lbub(E, st, x)
    return z3.And(xr_eq(lb, new[0]), xr_eq(ub, new[1]))


def _all_valid(E, st):
    x = qv("vx", Ref)
    lbk, lbv = E.eng.heap_arr(st, "_lower_bound")
    ubk, ubv = E.eng.heap_arr(st, "_upper_bound")
    lb, ub = VReal(lbk[x], lbv[x]), VReal(ubk[x], ubv[x])
    return FA([x], z3.And(xr_le(lb, ub), lb.k != 1, ub.k != -1, C1.vars_distinct(x)), patterns=[lbk[x]])


def _state(E, st, done0, in_diff=None):
    """bounds in state st: listed reactions that are `done0` have their given value; (second loop) unlisted exchanges that are
    `in_diff` are closed; every other reaction is as at entry"""
    x = qv("sx", Ref)
    entry = C1.lbub(E, E.s0, x)
    rest = _bounds_eq(E, st, x, entry)
    if in_diff is not None:
        rest = z3.If(in_diff(x), _bounds_eq(E, st, x, sab_new(E, x, closing(E, x))), rest)
    return FA([x], z3.If(z3.And(listed(E, x), done0(x)), _bounds_eq(E, st, x, sab_new(E, x, given(E, x))), rest),
              patterns=[E.eng.heap_arr(st, "_lower_bound")[0][x]])


def _set_post(E):
    return _state(E, E.s1, lambda x: z3.BoolVal(True), exch)


# ---------------------------------------------------------------- setter: loop invariants
def _order_m(E, st):
    d = E["medium"]
    return st.ghost[("order", d.oid, st.objs[d.oid]["dom"].get_id())]


def _inv0(E, Lc):
    """first loop (medium.items(), ghost enumeration order / pos): the keys enumerated so far are known ids whose values did not
    cross; their reactions carry the given value and are, in enumeration order, the content of media_rxns"""
    st, i = Lc.st, Lc.i
    dom, val = _med(E, st)
    order, pos, card = _order_m(E, st)
    ida = idarr(E, E.s0)
    ml = st.objs[Lc.var("media_rxns").oid]
    k, j = qv("ik", Id), qv("ij")
    cs = [_state(E, st, lambda x: pos[ida[x]] < i), _all_valid(E, st),
          FA([k], z3.Implies(z3.And(z3.Select(dom, k), pos[k] < i),
                             z3.And(_known(E, k), sab_ok(E, _rx_of(E, k), VReal(0, z3.Select(val, k))))), patterns=[z3.Select(dom, k)]),
          # the ghost enumeration, triggered by membership (the engine's axiom is triggered by pos[k] only)
          FA([k], z3.Implies(z3.Select(dom, k), z3.And(0 <= pos[k], pos[k] < Lc.n, order[pos[k]] == k)), patterns=[z3.Select(dom, k)])]
    if not ml["ekind"].startswith("ref"):          # still the empty list literal: before the first iteration
        cs += [Lc.i == 0, ml["len"] == 0]
    else:
        cs += [ml["len"] == i,
               FA([j], z3.Implies(z3.And(0 <= j, j < i), z3.Select(ml["elem"], j) == _rx_of(E, order[j])),
                  patterns=[z3.Select(ml["elem"], j), order[j]])]
    return z3.And(*cs)


def _inv1(E, Lc):
    """second loop (exchange_rxns - frozen_media_rxns, ghost enumeration): the set is exactly the unlisted exchanges (both
    directions), the ones enumerated so far are closed and their closing value did not cross"""
    st, i = Lc.st, Lc.i
    src = Lc.seq.src
    if not (isinstance(src, tuple) and len(src) >= 4 and src[0] == "order"):
        return z3.BoolVal(False)
    _, order, pos, diff = src[:4]
    dom, val = _med(E, st)
    x, j, k = qv("dx", Ref), qv("dj"), qv("dk", Id)
    in_diff = lambda y: z3.Select(diff, y)  # noqa
    return z3.And(
        _state(E, st, lambda y: z3.BoolVal(True), lambda y: z3.And(in_diff(y), pos[y] < i)), _all_valid(E, st),
        FA([x], z3.Implies(in_diff(x), z3.And(exch(x), z3.Not(listed(E, x)))), patterns=[z3.Select(diff, x)]),
        FA([j], z3.Implies(z3.And(0 <= j, j < MEXn, z3.Not(listed(E, MEXe[j]))), in_diff(MEXe[j])), patterns=[MEXe[j]]),
        FA([x], z3.Implies(z3.And(in_diff(x), pos[x] < i), sab_ok(E, x, closing(E, x))), patterns=[z3.Select(diff, x)]),
        FA([x], z3.Implies(in_diff(x), z3.And(0 <= pos[x], pos[x] < Lc.n, order[pos[x]] == x)), patterns=[z3.Select(diff, x)]),
        FA([k], z3.Implies(z3.Select(dom, k), z3.And(_known(E, k), sab_ok(E, _rx_of(E, k), VReal(0, z3.Select(val, k))))),
           patterns=[z3.Select(dom, k)]))


BOUNDS = lambda E: [("heap", "_lower_bound"), ("heap", "_upper_bound"), ("heap", "var_lb"), ("heap", "var_ub")]  # noqa


def _set_pre(E):
    return z3.And(WF(E, E.s0, _R(E.s0, E["self"])), _all_valid(E, E.s0))


def _set_cases():
    ok = Case("ok", requires=lambda E: z3.And(all_known(E), listed_ok(E), unlisted_ok(E)), ensures=_set_post)
    c_key = Case("unknown_id", requires=lambda E: z3.And(z3.Not(all_known(E)), listed_ok(E)), raises="KeyError")
    c_val = Case("crosses_opposite_bound", requires=lambda E: z3.And(all_known(E), z3.Not(z3.And(listed_ok(E), unlisted_ok(E)))),
                 raises="ValueError")
    c_both = Case("unknown_id_and_crossing", requires=lambda E: z3.And(z3.Not(all_known(E)), z3.Not(listed_ok(E))),
                  ensures=lambda E: z3.BoolVal(E.exc in ("KeyError", "ValueError")), raises="Exception")
    for c in (c_key, c_val, c_both):
        c.modifies_on_raise = BOUNDS
    return [ok, c_key, c_val, c_both]


REG.add(Contract(MM, SET, "C18", [("self", _model_t()), ("medium", TDict("id", "real"))], _set_cases(), pre=_set_pre, modifies=BOUNDS,
                 key=SET,
                 loops={0: LoopSpec(_inv0, lambda E, Lc: BOUNDS(E) + [("list", Lc.var("media_rxns"), "ref:Reaction")]),
                        1: LoopSpec(_inv1, lambda E, Lc: BOUNDS(E))},
                 note="precondition: model.reactions is a well-formed DictList, every reaction has valid bounds (lb <= ub, lb < +inf, "
                      "ub > -inf) and two distinct solver variables; medium values are finite reals (container encoding)"))


# ---------------------------------------------------------------- glue lemmas over the two contracts
def lemmas():
    """(1) get(set(m)) = {k: v for k, v in m.items() if v > 0} restricted to the exchanges, from the POST-CONDITIONS above (the very
    formulas of the two contracts, instantiated on a synthetic pair of states: s0 -> setter -> s1 -> getter), the setter's
    precondition and `ok` case, and the assumed facts about EX; (2) the call-site summary of get_active_bound follows from its
    proved cases; (3) closing an unlisted exchange crosses the opposite bound exactly when the exchange is FORCED to import."""
    from pyvc.engine import Engine, Obl
    from pyvc.state import State, alloc_dict
    eng = Engine(REG)
    st = State()
    st, model = _model_t().make(st, "g_self")
    st, med = TDict("id", "real").make(st, "g_medium")
    a = {"self": model, "medium": med}
    s0 = st
    s1 = s0
    for f in ("_lower_bound", "_upper_bound"):
        s1 = s1.setheap(f, (z3.Const(f"g1{f}_k", z3.ArraySort(Ref, I)), z3.Const(f"g1{f}_v", z3.ArraySort(Ref, z3.RealSort()))))
    kinds = eng.kind_axioms(s0) + eng.kind_axioms(s1)
    n_pc = len(s0.pc)
    s_f, _ = _fbt_result(eng, s0, Env({"model": model}, s0, eng=eng))
    ex_facts = list(s_f.pc[n_pc:])                                   # what the assumed contract of model.exchanges provides
    Es = Env(a, s0, s1, eng=eng)
    setter = [_set_pre(Es), all_known(Es), listed_ok(Es), unlisted_ok(Es), _set_post(Es)]
    s1g, l = alloc_list(s1, "ref:Reaction", length=MEXn, elem=MEXe)
    s1g, got = alloc_dict(s1g.setghost("exchanges", l), "id", "real", base="g_got")
    Eg = Env({"self": model}, s1g, s1g, res=got, eng=eng)
    getter = [_get_post(Eg)]
    gd, gv = s1g.objs[got.oid]["dom"], s1g.objs[got.oid]["val"]
    md, mv = _med(Es)
    k = qv("rk", Id)
    want = z3.And(z3.Select(md, k), z3.Select(mv, k) > 0, exch(_rx_of(Es, k)))
    hyps = kinds + ex_facts + setter + getter
    out = [Obl("C18/lemma/round-trip/keys-are-the-positive-entries-of-exchanges", hyps,
               FA([k], z3.Select(gd, k) == want, patterns=[z3.Select(gd, k), z3.Select(md, k)]), "lemma"),
           Obl("C18/lemma/round-trip/values-read-back-as-given", hyps,
               FA([k], z3.Implies(z3.Select(gd, k), z3.Select(gv, k) == z3.Select(mv, k)), patterns=[z3.Select(gd, k)]), "lemma")]
    # (2) get_active_bound at call sites
    x = z3.Const("g_x", Ref)
    E0 = Env({"reaction": VRef(x, "Reaction")}, s0, s0, eng=eng)
    rk, rv = z3.Int("g_res_k"), z3.Real("g_res_v")
    res = VReal(rk, rv)
    lb, ub = C1.lbub(E0, s0, x)
    proved = [z3.Implies(hr(E0, s0, x), xr_eq(res, _neg(lb))),                                          # case consumes
              z3.Implies(z3.And(z3.Not(hr(E0, s0, x)), hp(E0, s0, x)), xr_eq(res, ub))]                  # case produces_only
    out.append(Obl("C18/lemma/get_active_bound-call-summary", kinds + proved,
                   z3.Implies(z3.Or(hr(E0, s0, x), hp(E0, s0, x)), xr_eq(res, CM.import_bound(E0, s0, x))), "lemma"))
    # (3) when does closing an unlisted exchange raise
    Ex = Env(a, s0, s0, eng=eng)
    valid = z3.And(xr_le(lb, ub), lb.k != 1, ub.k != -1)
    out.append(Obl("C18/lemma/closing-crosses-iff-forced-import", kinds + [valid, z3.Xor(hr(Ex, s0, x), hp(Ex, s0, x))],
                   sab_ok(Ex, x, closing(Ex, x)) == z3.If(hr(Ex, s0, x), xr_le(ZERO, ub), xr_le(lb, ZERO)), "lemma"))
    return out
