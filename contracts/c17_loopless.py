"""C17 — loopless.loopless_solution: the CycleFreeFlux driver, proved as data flow.

Documented: "Convert an existing solution to a loopless one. Removes as many loops as possible ... It has the same objective value as
the original flux solution ... the same exact exchange fluxes as the previous solution ... All fluxes have the same sign"; CycleFreeFlux
(Desouki et al. 2015): keep c.v at the value of the start v0, keep the exchange fluxes, confine every internal flux between 0 and its
start value, minimise the total flux.

Proved, for a model with any number of reactions (post-condition taken from the docstring / the paper's formulation, not from the code):
  * START.  fluxes given: the start IS the given mapping and the pinned value is  c.v0 = SIGMA_{r in C} c_r * fluxes[r.id]  where
    {r: c_r} = linear_reaction_coefficients(model), called once on the untouched model (assumed contract: the reactions of the model
    with a linear objective coefficient; every key is looked up BY ID in the given fluxes).  fluxes None: the model is optimised ONCE,
    in its own direction (objective_sense None), before anything else; the start is the fluxes of THAT solution and the pinned value is
    the objective value of THAT solve.
  * PIN.  exactly one constraint  Constraint(<objective expression at entry>, lb=pin, ub=pin, name="loopless_obj_constraint")  -
    an EQUALITY, both sides the start's value - is handed to model.add_cons_vars([..]) (the context-aware entry point, not
    solver.add), in one call, made while the function's own context is the innermost one.
  * CONFINE.  _add_cycle_free(model, start) is called once, on the model, with the START fluxes, in that same context, on bounds that
    are still the entry bounds; by its proved contract (c17_cyclefree) every boundary reaction is then fixed at its start flux and
    every internal reaction confined between 0 and its (clipped) start flux - stated here over the state in which the FINAL solve is
    made: the bounds the last optimize() sees are exactly those.
  * SOLVE.  then the model is optimised once more (own direction), the returned Solution is the one assembled from THAT solve
    (Model.optimize = slim_optimize + get_solution), and its objective_value is overwritten with the primal value of the pinned
    constraint read AFTER that solve (the solver's objective is the total flux by then, not the original objective).
  * CONTEXT.  everything between PIN and SOLVE happens inside the function's own context, which is closed again on return and when
    a solve raises (the model's context stack is as at entry); reverting the bounds / constraint / objective on exit is C03 / C13.
pandas / optlang objects are terms of the opaque algebra (pyvc.npalg); calls are recorded in a ghost trace with the state in force.
Not claimed here: that the LP optimum is loop-free / minimal (C17 lemmas + bounded driver), the objective installed by
_add_cycle_free (its own contract), solver optimality (C04, monitored).
"""
import copy
import z3
import cobra  # noqa
from .common import *  # noqa
from . import c15_dictlist  # noqa
from . import c01_lp as C1
from . import c03_context as C3
from . import c04_status as C4
from . import c05_fva as C5
from . import c17_cyclefree as CF
from pyvc import npalg as N
from pyvc import builtins as B
from pyvc.state import alloc_list, alloc_dict, alloc_obj
from pyvc.values import VReal

ML = CF.ML
KEY = "loopless_solution"
PIN_NAME = "loopless_obj_constraint"


def _model_t():
    obj = TObj("Objective", {"value": TReal(), "direction": TStr(), "expression": N.TNp()})
    return TObj("Model", {"_contexts": TList("ref:HistoryManager"), "_solver": TObj("Solver", {"status": TStr(), "objective": obj}),
                          "reactions": TDictList("Reaction"), "problem": N.TNp()})


def _dl(st, m):
    return st.objs[m.oid]["attr:reactions"]


# ---------------------------------------------------------------- linear_reaction_coefficients(model): declared here with assumed=True;
# contracts/c17_lrc.py (imported by props/C17.py) clears the flag, adds the precondition / loop invariant and PROVES the body
def _lrc_result(eng, st, E):
    return alloc_dict(st, "ref:Reaction", "real", base="lrc")


def _lrc_post(E):
    """{r: c_r}: r a reaction of the model whose forward coefficient in the (linear part of the) objective is non-zero and the
    negative of its reverse coefficient; c_r = that forward coefficient (ghost objc = the objective's linear coefficients)"""
    if not (isinstance(E.res, VObj) and E.res.kind == "dict"):
        return z3.BoolVal(False)
    rec = E.s1.objs[E.res.oid]
    dl = _dl(E.s0, E["model"])
    n, e = L(E.s0, dl)
    rdom, rval = Dv(E.s0, dl)
    idA = idarr(E, E.s0)
    o = C5.objc(E.s0)
    k = qv("lk", Ref)
    in_model = z3.And(z3.Select(rdom, idA[k]), e[rval[idA[k]]] == k)
    linear = z3.And(o[C1.fwd(k)] != 0, o[C1.fwd(k)] == -o[C1.rev(k)])
    return FA([k], z3.And(z3.Select(rec["dom"], k) == z3.And(in_model, linear),
                          z3.Implies(z3.Select(rec["dom"], k), z3.Select(rec["val"], k) == o[C1.fwd(k)])),
              patterns=[z3.Select(rec["dom"], k), z3.Select(rec["val"], k)])


_none = TNone()
_none.default = NONE
LRC = REG.add(Contract("cobra/util/solver.py", "linear_reaction_coefficients", "C17", [("model", _model_t()), ("reactions", _none)],
                       [Case("all_reactions", ensures=_lrc_post)], assumed=True, key="linear_reaction_coefficients", result=_lrc_result,
                       note="linear_reaction_coefficients(model) as documented: a NEW dict {reaction of the model: coefficient} holding "
                            "exactly the reactions whose forward variable has a non-zero coefficient in the objective that is the negative "
                            "of the reverse variable's; reads only (sympy as_coefficients_dict is external)"))


# ---------------------------------------------------------------- Model.optimize at a call site: the C04 contract + the Solution it returns
_base_opt = REG.get("Model.optimize")


def _pick(case, pred):
    c = copy.copy(case)
    c.applies = pred
    return c


OPT = copy.copy(_base_opt)
OPT.call_cases = [_pick(_base_opt.cases[0], lambda a, st: isinstance(a.get("objective_sense"), VNone)),
                  _pick(_base_opt.cases[1], lambda a, st: not isinstance(a.get("objective_sense"), VNone))]


def _solution(eng, st, model):
    """the Solution get_solution assembles from the solver's CURRENT values (get_solution:body, proved under C04): fluxes indexed by
    the ids of ALL reactions of the model (read by label: a mapping id -> float), objective_value / status = the solver's"""
    dl = _dl(st, model)
    n, e = L(st, dl)
    idA = eng.heap_arr(st, "_id")
    st, fl = alloc_dict(st, "id", "real", base="solution_fluxes")
    j = qv("sj")
    st = st.assume(FA([j], z3.Implies(z3.And(0 <= j, j < n), z3.Select(st.objs[fl.oid]["dom"], idA[e[j]])), patterns=[e[j]]))
    return alloc_obj(st, "Solution", {"attr:fluxes": fl, "attr:objective_value": C4.value_of(st, model),
                                      "attr:status": C4.status_of(st, model)})


# ---------------------------------------------------------------- hooks (only while loopless_solution is executed)
def _verifying(eng):
    return getattr(getattr(eng, "cur_contract", None), "key", None) == KEY


def _tr(st):
    return st.ghost.get("trace", ())


def _log(st, *event):
    return st.setghost("trace", _tr(st) + (tuple(event),))


def _kws(kw):
    return tuple(sorted(kw.items(), key=lambda x: x[0]))


def global_hook(eng, name):
    if _verifying(eng) and name in ("_add_cycle_free", "linear_reaction_coefficients", "get_solution"):
        return VFunc("abstract", name)
    return None


def call_abstract(eng, st, f, pos, kw):
    if not _verifying(eng):
        return None
    if f.a == "_add_cycle_free":
        # by its PROVED contract; the call, its arguments and the states before / after are recorded
        outs = eng.apply_contract(st, REG.get("_add_cycle_free"), list(pos), kw)
        return [(k, _log(s, "cycle_free", tuple(pos), _kws(kw), st, s) if k == "ok" else s, v) for k, s, v in outs]
    if f.a == "linear_reaction_coefficients":
        outs = eng.apply_contract(st, LRC, list(pos), kw)
        return [(k, _log(s, "lrc", tuple(pos), _kws(kw), st, v) if k == "ok" else s, v) for k, s, v in outs]
    if f.a == "get_solution":
        # not used by the function as it is; recorded so that a solution taken without / before a solve is seen in the trace
        s, sol = _solution(eng, st, pos[0])
        return [("ok", _log(s, "get_solution", tuple(pos), _kws(kw), st, sol), sol)]
    return None


def call_method_hook(eng, st, recv, name, pos, kw):
    if not _verifying(eng) or not isinstance(recv, VObj):
        return None
    if recv.cls == "Model" and name == "add_cons_vars":
        return [("ok", _log(st, "add_cons_vars", recv, tuple(pos), _kws(kw), st), NONE)]
    if recv.cls == "Model" and name == "optimize":
        a = dict(kw)
        if len(pos) < 2:
            a.setdefault("raise_error", VBool(False))
        res = []
        for k, s, v in eng.apply_contract(st, OPT, [recv] + list(pos), a):
            if k == "ok":
                s, v = _solution(eng, s, recv)
                s = _log(s, "optimize", recv, tuple(pos), _kws(kw), st, s, v)
            res.append((k, s, v))
        return res
    if recv.cls == "Solver" and name in ("add", "remove", "update"):
        return [("ok", _log(st, "solver." + name, recv, tuple(pos), _kws(kw), st), NONE)]
    return None


def getattr_hook(eng, st, v, name):
    if _verifying(eng) and isinstance(v, N.VNp) and name == "primal":
        # reading a primal value: WHEN it is read (after which solve) is recorded
        return [("ok", _log(st, "primal", v.t, st), N.app("attr.primal", v))]
    return None


HOOKS = chain_hooks({"global": global_hook, "call_abstract": call_abstract, "call_method": call_method_hook, "getattr": getattr_hook},
                    N.HOOKS)
REG.external_classes = getattr(REG, "external_classes", set()) | {"Solver", "Objective"}


# ---------------------------------------------------------------- specification
def _stack_as_at_entry(E, st):
    n0, e0 = C3._ctxs(E.s0, E["model"])
    n1, e1 = C3._ctxs(st, E["model"])
    j = qv("cj")
    return z3.And(n1 == n0, FA([j], z3.Implies(z3.And(0 <= j, j < n0), e1[j] == e0[j])))


def _in_own_context(E, st):
    """the context stack is the entry stack plus ONE context on top (the function's own `with model`)"""
    n0, e0 = C3._ctxs(E.s0, E["model"])
    n1, e1 = C3._ctxs(st, E["model"])
    j = qv("oj")
    return z3.And(n1 == n0 + 1, FA([j], z3.Implies(z3.And(0 <= j, j < n0), e1[j] == e0[j])))


def _is_model(E, v):
    return isinstance(v, VObj) and v.oid == E["model"].oid


def _own_direction(kws):
    """optimize(objective_sense=None) / optimize(): in the model's own direction, default status handling"""
    d = dict(kws)
    return set(d) <= {"objective_sense"} and all(isinstance(x, VNone) for x in d.values())


def _same_arrays(a, b):
    if isinstance(a, tuple):
        return all(x.eq(y) for x, y in zip(a, b))
    return a.eq(b)


def _heap_as_at_entry(E, st, fields):
    return all(_same_arrays(E.eng.heap_arr(st, f), E.eng.heap_arr(E.s0, f)) for f in fields)


def pinned(E, pin):
    """the documented constraint: objective expression AT ENTRY, pinned on BOTH sides"""
    m = E["model"]
    prob = E.s0.objs[m.oid]["attr:problem"].t
    expr0 = E.s0.objs[C4.objective_of(E.s0, m).oid]["attr:expression"].t
    return N.term("call(lb,name,ub)", N.term("attr.Constraint", prob), expr0, N.lift(pin), N.lift(VConc(PIN_NAME)), N.lift(pin))


def _start(E, tr):
    """-> (ok, start fluxes dict, state in which it was obtained, pinned value, extra conjuncts) from the first event"""
    m = E["model"]
    ev = tr[0]
    if isinstance(E["fluxes"], VNone):
        # the model is optimised once, first, in its own direction; start = the fluxes of THAT solution, pin = its objective value
        if ev[0] != "optimize":
            return False, None, None, None, []
        _, recv, pos, kws, st_call, st_after, sol = ev
        ok = _is_model(E, recv) and not pos and _own_direction(kws) and len(_tr(st_call)) == 0
        fl = st_after.objs[sol.oid]["attr:fluxes"]
        return ok, fl, st_after, C4.value_of(st_after, m), []
    # fluxes given: pin = SIGMA_{r in C} c_r * fluxes[r.id] over C = linear_reaction_coefficients(model) on the untouched model
    if ev[0] != "lrc":
        return False, None, None, None, []
    _, pos, kws, st_call, coefs = ev
    sig = [v for k, v in E.s1.ghost.items() if isinstance(k, tuple) and k and k[0] == "sigma"]
    ok = (len(pos) == 1 and _is_model(E, pos[0]) and not kws and len(_tr(st_call)) == 0 and len(sig) == 1
          and C5.objc(st_call).eq(C5.objc(E.s0)) and isinstance(coefs, VObj))
    if not ok:
        return False, None, None, None, []
    fl = E["fluxes"]
    crec, frec = E.s1.objs[coefs.oid], E.s0.objs[fl.oid]
    sdom, F = sig[0]
    idA = idarr(E, E.s0)
    k = qv("fk", Ref)
    summand = FA([k], z3.Select(F, k) == z3.Select(crec["val"], k) * z3.Select(frec["val"], idA[k]), patterns=[z3.Select(F, k)])
    return True, fl, E.s0, VReal(0, B.sigma(Ref)(crec["dom"], F)), [sdom == crec["dom"], summand]


def _post(E):
    m = E["model"]
    tr = _tr(E.s1)
    if [ev[0] for ev in tr[1:]] != ["add_cons_vars", "cycle_free", "optimize", "primal"]:
        return z3.BoolVal(False)
    ok, start, st_start, pin, cs = _start(E, tr)
    if not ok:
        return z3.BoolVal(False)
    con = pinned(E, pin)
    # PIN: one add_cons_vars([constraint]) on the model, in the function's own context
    _, recv, pos, kws, st_add = tr[1]
    if not (_is_model(E, recv) and len(pos) == 1 and isinstance(pos[0], N.VNp) and not kws):
        return z3.BoolVal(False)
    cs += [pos[0].t == N.term("list", con), _in_own_context(E, st_add)]
    # CONFINE: _add_cycle_free(model, START fluxes) on the entry bounds, in that context
    _, cpos, ckws, st_cf, st_cf_after = tr[2]
    if not (len(cpos) == 2 and not ckws and _is_model(E, cpos[0]) and isinstance(cpos[1], VObj) and cpos[1].oid == start.oid
            and st_cf.objs[start.oid] is st_start.objs[start.oid]
            and _heap_as_at_entry(E, st_cf, ("_lower_bound", "_upper_bound", "is_boundary", "_id"))
            and st_cf.objs[_dl(E.s0, m).oid] is E.s0.objs[_dl(E.s0, m).oid]):
        return z3.BoolVal(False)
    cs.append(_in_own_context(E, st_cf))
    # SOLVE: the last optimize sees exactly the documented bounds; the solution returned is the one of THAT solve
    _, orecv, opos, okws, st_solve, st_solved, sol = tr[3]
    if not (_is_model(E, orecv) and not opos and _own_direction(okws) and isinstance(E.res, VObj) and E.res.oid == sol.oid):
        return z3.BoolVal(False)
    Ecf = Env({"model": m, "fluxes": start}, st_cf, eng=E.eng)
    n, _ = L(E.s0, _dl(E.s0, m))
    cs += [CF._effect(Ecf, st_solve, n), _in_own_context(E, st_solve)]
    # objective value reported: the primal of the pinned constraint, read after that solve
    _, pterm, st_read = tr[4]
    val = E.s1.objs[sol.oid]["attr:objective_value"]
    same_fluxes = E.s1.objs[sol.oid]["attr:fluxes"].oid == st_solved.objs[sol.oid]["attr:fluxes"].oid
    if not (isinstance(val, N.VNp) and same_fluxes):
        return z3.BoolVal(False)
    cs += [pterm == con, val.t == N.term("attr.primal", con)]
    # CONTEXT: closed again
    cs.append(_stack_as_at_entry(E, E.s1))
    return z3.And(*cs)


def _pre(E):
    m = E["model"]
    dl = _dl(E.s0, m)
    n, e = L(E.s0, dl)
    idA = idarr(E, E.s0)
    j = qv("pj")
    r = e[j]
    lb, ub = C1.lbub(E, E.s0, r)
    per = [xr_le(lb, ub), lb.k != 1, ub.k != -1, C1.vars_distinct(r), C1.model_of(E, E.s0, r) != NULL]
    if not isinstance(E["fluxes"], VNone):
        per.append(z3.Select(E.s0.objs[E["fluxes"].oid]["dom"], idA[r]))         # the given fluxes have a value for every reaction
    return z3.And(WF(E, E.s0, dl), FA([j], z3.Implies(z3.And(0 <= j, j < n), z3.And(*per)), patterns=[e[j]]))


def _mod(E):
    m = E["model"]
    return [("heap", "hm_len"), ("attr", m, "_contexts", lambda st: alloc_list(st, "ref:HistoryManager")),
            ("ghost", "world", lambda st: fresh("world", C3.World)), ("ghost", "trace", lambda st: ())] + CF.BMOD(E) + \
        C4._slim_mod(Env({"self": m}, E.s0, eng=E.eng))


def _cases():
    out = []
    for tag, t in (("fluxes_given", TDict("id", "real")), ("fluxes_from_one_solve", TNone())):
        c = Case(tag, ensures=_post)
        c.params_override = {"fluxes": t}
        c.applies = (lambda a, st: not isinstance(a["fluxes"], VNone)) if tag == "fluxes_given" else (lambda a, st: isinstance(a["fluxes"], VNone))
        c.may_raise = "OptimizationError"      # a solve whose status has no primal values: the error propagates, the context is closed
        c.ensures_on_raise = lambda E: _stack_as_at_entry(E, E.s1)
        c.modifies_on_raise = _mod
        out.append(c)
    return out


def _res(eng, st, E):
    return _solution(eng, st, E["model"])


_fl = TDict("id", "real")
_fl.default = NONE
REG.add(Contract(ML, "loopless_solution", "C17", [("model", _model_t()), ("fluxes", _fl)], _cases(), pre=_pre, modifies=_mod, key=KEY,
                 result=_res,
                 note="bounds valid (lb <= ub) and reactions attached to the model, as _add_cycle_free requires; given fluxes must have a "
                      "value for every reaction id; the bounds / constraint / objective are reverted by the context exit (C03 / C13), "
                      "which the heap model here does not replay: callers see them as modified"))
