"""C10 / C11 (kernels) — io helpers within reach: sbml._create_bound, dict._fix_type.

Most of C10/C11 lives behind libsbml, json/yaml codecs and string processing (bounded tier); these are the pure pieces.
"""
import z3
import cobra  # noqa
from .common import *  # noqa
from pyvc.values import VReal, xr_eq, id_lit
from pyvc.state import alloc_obj

MS = "cobra/io/sbml.py"
MD = "cobra/io/dict.py"
RealMap = z3.ArraySort(Id, z3.IntSort()), z3.ArraySort(Id, z3.RealSort())


def _config(st):
    """the Configuration singleton: any default bounds"""
    if "config" in st.ghost:
        return st, st.ghost["config"]
    lo, hi = VReal(z3.Int("cfg_lb_k"), z3.Real("cfg_lb_v")), VReal(z3.Int("cfg_ub_k"), z3.Real("cfg_ub_v"))
    st, o = alloc_obj(st, "Configuration", {"attr:lower_bound": lo, "attr:upper_bound": hi})
    return st.setghost("config", o), o


def global_hook(eng, name):
    if name == "config":
        return eng._config_obj
    return None


def cfg_bounds():
    return VReal(z3.Int("cfg_lb_k"), z3.Real("cfg_lb_v")), VReal(z3.Int("cfg_ub_k"), z3.Real("cfg_ub_v"))


# ghost parameter table of the SBML model being written: id -> value (extended real)
def ptab(st):
    return st.ghost.get("ptab", (z3.Const("ptab_k", RealMap[0]), z3.Const("ptab_v", RealMap[1])))


def pval(st, pid):
    k, v = ptab(st)
    return VReal(k[pid], v[pid])


def _cb_params(bt):
    def mk_reaction(st, name):
        return alloc_obj(st, "Reaction", {"attr:lower_bound": None, "attr:upper_bound": None, "attr:id": None})
    return bt


REG.fields.update({"rx_value_k": "int"})


def _reaction_t():
    return TObj("ReactionView", {"lower_bound": TReal(), "upper_bound": TReal(), "id": TStr()})


def _value(E):
    return E.s0.objs[E["reaction"].oid]["attr:" + E["bound_type"].py]


def _defaults_ok(E):
    """cross-function assumption: _model_to_sbml created the five shared parameters with these values"""
    lo, hi = cfg_bounds()
    from pyvc.values import xr_const
    return z3.And(xr_eq(pval(E.s0, id_lit("cobra_default_lb")), lo), xr_eq(pval(E.s0, id_lit("cobra_default_ub")), hi),
                  xr_eq(pval(E.s0, id_lit("cobra_0_bound")), VReal(0, 0)), xr_eq(pval(E.s0, id_lit("minus_inf")), VReal(-1, 0)),
                  xr_eq(pval(E.s0, id_lit("plus_inf")), VReal(1, 0)),
                  lo.k >= -1, lo.k <= 1, hi.k >= -1, hi.k <= 1)


def _cb_post(E):
    return xr_eq(pval(E.s1, unwrap(E.res, "id")), _value(E))


def _cp_post(E):
    k0, v0 = ptab(E.s0)
    k1, v1 = ptab(E.s1)
    pid = unwrap(E["pid"], "id")
    val = E.eng.to_real(E["value"])
    return z3.And(k1 == z3.Store(k0, pid, val.k), v1 == z3.Store(v0, pid, val.v))


REG.add(Contract(MS, "_create_parameter", "C10", [("model", TNone()), ("pid", TStr()), ("value", TReal()), ("sbo", TNone()),
                                                   ("constant", TNone()), ("units", TNone()), ("flux_udef", TNone())],
                 [Case("any", ensures=_cp_post)], assumed=True, key="_create_parameter",
                 modifies=lambda E: [("ghost", "ptab", lambda st: (fresh("ptab_k", RealMap[0]), fresh("ptab_v", RealMap[1])))],
                 note="libsbml: creates a constant parameter `pid` with the given value (ghost parameter table)"))
for _n in ("sbo", "constant", "units", "flux_udef"):
    [t for n, t in REG.get("_create_parameter").params if n == _n][0].default = NONE


def _cb_cases():
    out = []
    for bt in ("lower_bound", "upper_bound"):
        c = Case(bt, ensures=_cb_post)
        c.params_override = {"bound_type": TConc(bt)}
        out.append(c)
    return out


REG.add(Contract(MS, "_create_bound", "C10", [("model", TNone()), ("reaction", _reaction_t()), ("bound_type", TConc("lower_bound")),
                                               ("f_replace", TNone()), ("units", TNone()), ("flux_udef", TNone())],
                 _cb_cases(), pre=_defaults_ok, key="_create_bound", result="id",
                 modifies=lambda E: [("ghost", "ptab", lambda st: (fresh("ptab_k", RealMap[0]), fresh("ptab_v", RealMap[1])))]))
REG.classes["ReactionView"] = []
REG.classes["Configuration"] = []


def make_hooks():
    from pyvc.state import State
    def g(eng, name):
        if name == "config":
            return VFunc("cfg")
        return None

    def ga(eng, st, v, name):
        if isinstance(v, VFunc) and v.kind == "cfg":
            lo, hi = cfg_bounds()
            if name == "lower_bound":
                return [("ok", st, lo)]
            if name == "upper_bound":
                return [("ok", st, hi)]
        return None
    return {"global": g, "getattr": ga}


HOOKS = make_hooks()

# ---------------------------------------------------------------- dict._fix_type (scalar cases)
def _ft_same(E):
    v, r = E["value"], E.res
    c = E.eng.eq(E.s1, v, r)
    return z3.BoolVal(c) if isinstance(c, bool) else c


def _ft_cases():
    out = []
    for tag, t, vt in (("str", TStr(), VStr), ("float", TReal(), VReal), ("bool", TBool(), VBool), ("int", TInt(), VInt)):
        c = Case(tag, ensures=_ft_same)
        c.params_override = {"value": t}
        c.result = (lambda vt: lambda eng, st, E: (st, E["value"]))(vt)
        out.append(c)
    c = Case("none", ensures=lambda E: z3.BoolVal(isinstance(E.res, VConc) and E.res.py == ""))
    c.params_override = {"value": TNone()}
    out.append(c)
    return out


REG.add(Contract(MD, "_fix_type", "C11", [("value", TStr())], _ft_cases(), key="_fix_type"))
