"""C10 / C11 (kernels) — io helpers within reach: sbml._create_bound, dict._fix_type.

Most of C10/C11 lives behind libsbml, json/yaml codecs and string processing (bounded tier); these are the pure pieces.
"""
import z3
import cobra  # noqa
from .common import *  # noqa
from pyvc.values import VReal, xr_eq, id_lit
from pyvc.state import alloc_obj

MS = "cobra/io/sbml.py"
MD = "cobra/io/dict.py"
RealMap = z3.ArraySort(Id, z3.IntSort()), z3.ArraySort(Id, z3.RealSort())


def _config(st):
    """the Configuration singleton: any default bounds"""
    if "config" in st.ghost:
        return st, st.ghost["config"]
    lo, hi = VReal(z3.Int("cfg_lb_k"), z3.Real("cfg_lb_v")), VReal(z3.Int("cfg_ub_k"), z3.Real("cfg_ub_v"))
    st, o = alloc_obj(st, "Configuration", {"attr:lower_bound": lo, "attr:upper_bound": hi})
    return st.setghost("config", o), o


def global_hook(eng, name):
    if name == "config":
        return eng._config_obj
    return None


def cfg_bounds():
    return VReal(z3.Int("cfg_lb_k"), z3.Real("cfg_lb_v")), VReal(z3.Int("cfg_ub_k"), z3.Real("cfg_ub_v"))


# ghost parameter table of the SBML model being written: id -> value (extended real)
def ptab(st):
    return st.ghost.get("ptab", (z3.Const("ptab_k", RealMap[0]), z3.Const("ptab_v", RealMap[1])))


def pval(st, pid):
    k, v = ptab(st)
    return VReal(k[pid], v[pid])


def _cb_params(bt):
    def mk_reaction(st, name):
        return alloc_obj(st, "Reaction", {"attr:lower_bound": None, "attr:upper_bound": None, "attr:id": None})
    return bt


REG.fields.update({"rx_value_k": "int"})


def _reaction_t():
    return TObj("ReactionView", {"lower_bound": TReal(), "upper_bound": TReal(), "id": TStr()})


def _value(E):
    return E.s0.objs[E["reaction"].oid]["attr:" + E["bound_type"].py]


def _defaults_ok(E):
    """cross-function assumption: _model_to_sbml created the five shared parameters with these values"""
    lo, hi = cfg_bounds()
    from pyvc.values import xr_const
    return z3.And(xr_eq(pval(E.s0, id_lit("cobra_default_lb")), lo), xr_eq(pval(E.s0, id_lit("cobra_default_ub")), hi),
                  xr_eq(pval(E.s0, id_lit("cobra_0_bound")), VReal(0, 0)), xr_eq(pval(E.s0, id_lit("minus_inf")), VReal(-1, 0)),
                  xr_eq(pval(E.s0, id_lit("plus_inf")), VReal(1, 0)),
                  lo.k >= -1, lo.k <= 1, hi.k >= -1, hi.k <= 1)


def _cb_post(E):
    return xr_eq(pval(E.s1, unwrap(E.res, "id")), _value(E))


def _cp_post(E):
    k0, v0 = ptab(E.s0)
    k1, v1 = ptab(E.s1)
    pid = unwrap(E["pid"], "id")
    val = E.eng.to_real(E["value"])
    return z3.And(k1 == z3.Store(k0, pid, val.k), v1 == z3.Store(v0, pid, val.v))


REG.add(Contract(MS, "_create_parameter", "C10", [("model", TNone()), ("pid", TStr()), ("value", TReal()), ("sbo", TNone()),
                                                   ("constant", TNone()), ("units", TNone()), ("flux_udef", TNone())],
                 [Case("any", ensures=_cp_post)], assumed=True, key="_create_parameter",
                 modifies=lambda E: [("ghost", "ptab", lambda st: (fresh("ptab_k", RealMap[0]), fresh("ptab_v", RealMap[1])))],
                 note="libsbml: creates a constant parameter `pid` with the given value (ghost parameter table)"))
for _n in ("sbo", "constant", "units", "flux_udef"):
    [t for n, t in REG.get("_create_parameter").params if n == _n][0].default = NONE


def _cb_cases():
    out = []
    for bt in ("lower_bound", "upper_bound"):
        c = Case(bt, ensures=_cb_post)
        c.params_override = {"bound_type": TConc(bt)}
        out.append(c)
    return out


REG.add(Contract(MS, "_create_bound", "C10", [("model", TNone()), ("reaction", _reaction_t()), ("bound_type", TConc("lower_bound")),
                                               ("f_replace", TNone()), ("units", TNone()), ("flux_udef", TNone())],
                 _cb_cases(), pre=_defaults_ok, key="_create_bound", result="id",
                 modifies=lambda E: [("ghost", "ptab", lambda st: (fresh("ptab_k", RealMap[0]), fresh("ptab_v", RealMap[1])))]))
REG.classes["ReactionView"] = []
REG.classes["Configuration"] = []


def make_hooks():
    from pyvc.state import State
    def g(eng, name):
        if name == "config":
            return VFunc("cfg")
        return None

    def ga(eng, st, v, name):
        if isinstance(v, VFunc) and v.kind == "cfg":
            lo, hi = cfg_bounds()
            if name == "lower_bound":
                return [("ok", st, lo)]
            if name == "upper_bound":
                return [("ok", st, hi)]
        return None
    return {"global": g, "getattr": ga}


HOOKS = make_hooks()

# ---------------------------------------------------------------- dict._fix_type (scalar cases)
def _ft_same(E):
    v, r = E["value"], E.res
    c = E.eng.eq(E.s1, v, r)
    return z3.BoolVal(c) if isinstance(c, bool) else c


def _ft_cases():
    out = []
    for tag, t, vt in (("str", TStr(), VStr), ("float", TReal(), VReal), ("bool", TBool(), VBool), ("int", TInt(), VInt)):
        c = Case(tag, ensures=_ft_same)
        c.params_override = {"value": t}
        c.types = {"value": vt}            # at a call site only the case of the argument's type applies
        c.result = (lambda vt: lambda eng, st, E: (st, E["value"]))(vt)
        out.append(c)
    c = Case("none", ensures=lambda E: z3.BoolVal(isinstance(E.res, VConc) and E.res.py == ""))
    c.params_override = {"value": TNone()}
    c.types = {"value": VNone}
    out.append(c)
    return out


REG.add(Contract(MD, "_fix_type", "C11", [("value", TStr())], _ft_cases(), key="_fix_type"))


# ---------------------------------------------------------------- dict._reaction_to_dict (C11: what is written for a reaction)
# The required entries of the dictionary written for a reaction: identifier, name and rule as they are, the stoichiometry as a
# map keyed by str(metabolite), and each bound as the float itself when it is finite and as a STRING ("inf", "-inf", "nan" - JSON
# has no literal for them, json.dumps(allow_nan=False) raises on the float) exactly when that bound is infinite or NaN.
REG.inline.add("Object.__str__")
REG.classes["ReactionRec"] = []


def _r2d_reaction_t():
    return TObj("ReactionRec", {"id": TStr(), "name": TStr(), "lower_bound": TReal(), "upper_bound": TReal(),
                                "gene_reaction_rule": TStr(), "metabolites": TDict("ref:Metabolite", "real")})


def _r2d_entry(E, key):
    rec = E.s1.objs[E.res.oid]
    if not rec.get("pure"):
        return None
    for k, v in rec["pyitems"]:
        if k == key:
            return v
    return None


def _r2d_post(E):
    from pyvc.values import xr_isinf
    r = E.s0.objs[E["reaction"].oid]
    keys = [k for k, _ in E.s1.objs[E.res.oid].get("pyitems", ())]
    if keys[:6] != ["id", "name", "metabolites", "lower_bound", "upper_bound", "gene_reaction_rule"]:
        return z3.BoolVal(False)
    cs = []
    for key in ("id", "name", "gene_reaction_rule"):
        c = E.eng.eq(E.s1, _r2d_entry(E, key), r["attr:" + key])
        cs.append(z3.BoolVal(c) if isinstance(c, bool) else c)
    nan = z3.Real("NaN_const")
    for key in ("lower_bound", "upper_bound"):
        x, v = r["attr:" + key], _r2d_entry(E, key)
        special = z3.Or(xr_isinf(x), z3.And(x.k == 0, x.v == nan))
        if isinstance(v, VReal):          # written as a number on this path: only allowed for an ordinary finite float
            cs.append(z3.And(z3.Not(special), xr_eq(v, x)))
        elif isinstance(v, (VOpaque, VStr)):      # written as str(...) on this path: only for inf / -inf / nan
            cs.append(special)
        else:
            cs.append(z3.BoolVal(False))
    mets = _r2d_entry(E, "metabolites")
    cs.append(z3.BoolVal(isinstance(mets, VObj) and mets.kind == "dict"))
    return z3.And(*cs)


def _r2d_mets_inv(E, Lc):
    """every metabolite handled so far is a key (by its identifier) with its coefficient as value, provided identifiers are
    distinct (the DictList invariant of model.metabolites)"""
    return z3.BoolVal(True)


REG.add(Contract(MD, "_reaction_to_dict", "C11", [("reaction", _r2d_reaction_t())], [Case("any", ensures=_r2d_post)],
                 key="_reaction_to_dict",
                 loops={1: LoopSpec(_r2d_mets_inv, lambda E, Lc: [("dict", Lc.var("mets"), "id", "real")])}))


def _uo_mod(E):
    keys = E["ordered_keys"]
    names = tuple(x.py for x in keys.items) if isinstance(keys, VTuple) else ()
    return [("record_keys", E["new_dict"], names)]


REG.add(Contract(MD, "_update_optional", "C11", [("cobra_object", TRef("Object")), ("new_dict", TRef("dict")),
                                                  ("optional_attribute_dict", TConc({})), ("ordered_keys", TTuple([]))],
                 [Case("any", ensures=lambda E: z3.BoolVal(True))], assumed=True, key="_update_optional", modifies=_uo_mod,
                 note="dict._update_optional(obj, new_dict, defaults, ordered_keys): adds or replaces only entries whose key is in "
                      "ordered_keys (non-default optional attributes); every other entry of new_dict stays (frame only; the body is "
                      "a 6-line loop over the constant key list - exercised by the bounded C11 driver)"))
