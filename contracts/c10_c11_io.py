"""C10 / C11 (kernels) — io helpers within reach: sbml._create_bound, dict._fix_type.

Most of C10/C11 lives behind libsbml, json/yaml codecs and string processing (bounded tier); these are the pure pieces.
"""
import z3
import cobra  # noqa
from .common import *  # noqa
from pyvc.values import VReal, xr_eq, id_lit
from pyvc.state import alloc_obj

MS = "cobra/io/sbml.py"
MD = "cobra/io/dict.py"
RealMap = z3.ArraySort(Id, z3.IntSort()), z3.ArraySort(Id, z3.RealSort())


def _config(st):
    """the Configuration singleton: any default bounds"""
    if "config" in st.ghost:
        return st, st.ghost["config"]
    lo, hi = VReal(z3.Int("cfg_lb_k"), z3.Real("cfg_lb_v")), VReal(z3.Int("cfg_ub_k"), z3.Real("cfg_ub_v"))
    st, o = alloc_obj(st, "Configuration", {"attr:lower_bound": lo, "attr:upper_bound": hi})
    return st.setghost("config", o), o


def global_hook(eng, name):
    if name == "config":
        return eng._config_obj
    return None


def cfg_bounds():
    return VReal(z3.Int("cfg_lb_k"), z3.Real("cfg_lb_v")), VReal(z3.Int("cfg_ub_k"), z3.Real("cfg_ub_v"))


# ghost parameter table of the SBML model being written: id -> value (extended real)
def ptab(st):
    return st.ghost.get("ptab", (z3.Const("ptab_k", RealMap[0]), z3.Const("ptab_v", RealMap[1])))


def pval(st, pid):
    k, v = ptab(st)
    return VReal(k[pid], v[pid])


def _cb_params(bt):
    def mk_reaction(st, name):
        return alloc_obj(st, "Reaction", {"attr:lower_bound": None, "attr:upper_bound": None, "attr:id": None})
    return bt


REG.fields.update({"rx_value_k": "int"})


def _reaction_t():
    return TObj("ReactionView", {"lower_bound": TReal(), "upper_bound": TReal(), "id": TStr()})


def _value(E):
    return E.s0.objs[E["reaction"].oid]["attr:" + E["bound_type"].py]


def _defaults_ok(E):
    """cross-function assumption: _model_to_sbml created the five shared parameters with these values"""
    lo, hi = cfg_bounds()
    from pyvc.values import xr_const
    return z3.And(xr_eq(pval(E.s0, id_lit("cobra_default_lb")), lo), xr_eq(pval(E.s0, id_lit("cobra_default_ub")), hi),
                  xr_eq(pval(E.s0, id_lit("cobra_0_bound")), VReal(0, 0)), xr_eq(pval(E.s0, id_lit("minus_inf")), VReal(-1, 0)),
                  xr_eq(pval(E.s0, id_lit("plus_inf")), VReal(1, 0)),
                  lo.k >= -1, lo.k <= 1, hi.k >= -1, hi.k <= 1)


def _cb_post(E):
    return xr_eq(pval(E.s1, unwrap(E.res, "id")), _value(E))


def _cp_post(E):
    k0, v0 = ptab(E.s0)
    k1, v1 = ptab(E.s1)
    pid = unwrap(E["pid"], "id")
    val = E.eng.to_real(E["value"])
    return z3.And(k1 == z3.Store(k0, pid, val.k), v1 == z3.Store(v0, pid, val.v))


REG.add(Contract(MS, "_create_parameter", "C10", [("model", TNone()), ("pid", TStr()), ("value", TReal()), ("sbo", TNone()),
                                                   ("constant", TNone()), ("units", TNone()), ("flux_udef", TNone())],
                 [Case("any", ensures=_cp_post)], assumed=True, key="_create_parameter",
                 modifies=lambda E: [("ghost", "ptab", lambda st: (fresh("ptab_k", RealMap[0]), fresh("ptab_v", RealMap[1])))],
                 note="libsbml: creates a constant parameter `pid` with the given value (ghost parameter table)"))
for _n in ("sbo", "constant", "units", "flux_udef"):
    [t for n, t in REG.get("_create_parameter").params if n == _n][0].default = NONE


def _cb_cases():
    out = []
    for bt in ("lower_bound", "upper_bound"):
        c = Case(bt, ensures=_cb_post)
        c.params_override = {"bound_type": TConc(bt)}
        out.append(c)
    return out


REG.add(Contract(MS, "_create_bound", "C10", [("model", TNone()), ("reaction", _reaction_t()), ("bound_type", TConc("lower_bound")),
                                               ("f_replace", TNone()), ("units", TNone()), ("flux_udef", TNone())],
                 _cb_cases(), pre=_defaults_ok, key="_create_bound", result="id",
                 modifies=lambda E: [("ghost", "ptab", lambda st: (fresh("ptab_k", RealMap[0]), fresh("ptab_v", RealMap[1])))]))
REG.classes["ReactionView"] = []
REG.classes["Configuration"] = []


def make_hooks():
    from pyvc.state import State
    def g(eng, name):
        if name == "config":
            return VFunc("cfg")
        return None

    def ga(eng, st, v, name):
        if isinstance(v, VFunc) and v.kind == "cfg":
            lo, hi = cfg_bounds()
            if name == "lower_bound":
                return [("ok", st, lo)]
            if name == "upper_bound":
                return [("ok", st, hi)]
        return None
    def str_hook(eng, st, v):
        # str(<float>): the uninterpreted string str_of_float(x) (pyvc/builtins.py) - what the writer emits for an infinite / NaN
        # bound; the reader's float() of it is related to x only through the assumed axiom float(str(x)) == x (contracts/c11_reader.py)
        if isinstance(v, VReal):
            from pyvc.builtins import str_of_float
            return [("ok", st, VStr(str_of_float(v)))]
        return None
    return {"global": g, "getattr": ga, "str": str_hook}


HOOKS = make_hooks()


def dict_same(r0, r1, qn="sk"):
    """the dictionary with record r1 has the same keys and the same value objects as the one with record r0 (python bool / z3)"""
    if r0.get("lazy") or r1.get("lazy"):
        if r0.get("lazy") and r1.get("lazy"):
            return z3.BoolVal(True)
        rr = r1 if r0.get("lazy") else r0
        k = qv(qn, rr["dom"].sort().domain())
        return FA([k], z3.Not(z3.Select(rr["dom"], k)), patterns=[z3.Select(rr["dom"], k)])
    if r0.get("pure") or r1.get("pure"):
        return z3.BoolVal(False)
    k = qv(qn, r0["dom"].sort().domain())
    return z3.And(FA([k], z3.Select(r1["dom"], k) == z3.Select(r0["dom"], k), patterns=[z3.Select(r1["dom"], k)]),
                  FA([k], z3.Implies(z3.Select(r0["dom"], k), z3.Select(r1["val"], k) == z3.Select(r0["val"], k)),
                     patterns=[z3.Select(r1["val"], k)]))


def _written_dict(E, st1, v, w, cond=None):
    """an optional dictionary attribute v (notes, annotation) written as w: a NEW dictionary with the same keys and value objects
    (what _fix_type returns for a dictionary, through _update_optional's contract); under `cond` for a conditional entry"""
    if not (isinstance(w, VObj) and w.kind == "dict" and w.oid != v.oid):
        return z3.BoolVal(False)
    c = dict_same(E.s0.objs[v.oid], st1.objs[w.oid], "wk")
    return c if cond is None else z3.Implies(cond, c)

# ---------------------------------------------------------------- dict._fix_type (scalar cases)
def _ft_same(E):
    v, r = E["value"], E.res
    c = E.eng.eq(E.s1, v, r)
    return z3.BoolVal(c) if isinstance(c, bool) else c


def _ft_dict_same(E):
    r0, r1 = E.s0.objs[E["value"].oid], E.s1.objs[E.res.oid]
    if r0.get("lazy") or r1.get("lazy"):
        k = qv("fk", r0["dom"].sort().domain() if not r0.get("lazy") else r1["dom"].sort().domain())
        rr = r1 if r0.get("lazy") else r0
        return z3.BoolVal(True) if (r0.get("lazy") and r1.get("lazy")) else FA([k], z3.Not(z3.Select(rr["dom"], k)))
    k = qv("fk", r0["dom"].sort().domain())
    return z3.And(z3.BoolVal(E.res.oid != E["value"].oid),
                  FA([k], z3.Select(r1["dom"], k) == z3.Select(r0["dom"], k), patterns=[z3.Select(r1["dom"], k)]),
                  FA([k], z3.Implies(z3.Select(r0["dom"], k), z3.Select(r1["val"], k) == z3.Select(r0["val"], k)),
                     patterns=[z3.Select(r1["val"], k)]))


def _ft_dict_result(eng, st, E):
    from pyvc.state import alloc_dict
    r0 = st.objs[E["value"].oid]
    if r0.get("lazy"):
        return alloc_dict(st, "id", "ref:Any")
    return alloc_dict(st, r0["kkind"], r0["vkind"])


def _ft_cases():
    out = []
    for tag, t, vt in (("str", TStr(), VStr), ("float", TReal(), VReal), ("bool", TBool(), VBool), ("int", TInt(), VInt)):
        c = Case(tag, ensures=_ft_same)
        c.params_override = {"value": t}
        c.types = {"value": vt}            # at a call site only the case of the argument's type applies
        c.result = (lambda vt: lambda eng, st, E: (st, E["value"]))(vt)
        out.append(c)
    c = Case("none", ensures=lambda E: z3.BoolVal(isinstance(E.res, VConc) and E.res.py == ""))
    c.params_override = {"value": TNone()}
    c.types = {"value": VNone}
    c.result = lambda eng, st, E: (st, VConc(""))
    out.append(c)
    # a dictionary (notes, annotation): a NEW dictionary with the same keys and the same value objects (its key order - sorted -
    # is not part of the contract: the order BY KEY of sorted() is not modelled)
    c = Case("dict", ensures=_ft_dict_same)
    c.params_override = {"value": TDict("id", "ref:Any")}
    c.types = {"value": VObj}
    c.applies = lambda a, st: getattr(a["value"], "kind", None) == "dict" and not st.objs[a["value"].oid].get("pure")
    c.result = _ft_dict_result
    out.append(c)
    return out


REG.add(Contract(MD, "_fix_type", "C11", [("value", TStr())], _ft_cases(), key="_fix_type"))


# ---------------------------------------------------------------- dict._update_optional (proved for the four instantiations)
# For every key of ordered_keys, in any order: the entry is present afterwards exactly when the attribute is not None and differs
# from its default, and then holds _fix_type(attribute) (the same scalar; for a dictionary a new dictionary with the same keys and
# value objects); every other entry of new_dict is untouched.
import itertools as _it

_DICT_T = lambda: TDict("id", "ref:Any")  # noqa
UO_INST = {
    # tag: (ordered keys, {key: default as written in dict.py}, {key: [admissible attribute types]})
    "reaction": (("objective_coefficient", "subsystem", "notes", "annotation"),
                 {"objective_coefficient": 0, "subsystem": "", "notes": {}, "annotation": {}},
                 {"objective_coefficient": [TReal], "subsystem": [TStr], "notes": [_DICT_T], "annotation": [_DICT_T]}),
    "metabolite": (("charge", "formula", "_bound", "notes", "annotation"),
                   {"charge": None, "formula": None, "_bound": 0, "notes": {}, "annotation": {}},
                   {"charge": [TNone, TInt], "formula": [TNone, TStr], "_bound": [TReal], "notes": [_DICT_T], "annotation": [_DICT_T]}),
    "gene": (("notes", "annotation"), {"notes": {}, "annotation": {}}, {"notes": [_DICT_T], "annotation": [_DICT_T]}),
    "model": (("name", "compartments", "notes", "annotation"),
              {"name": None, "compartments": [], "notes": {}, "annotation": {}},
              {"name": [TNone, TStr], "compartments": [_DICT_T], "notes": [_DICT_T], "annotation": [_DICT_T]}),
}


def _uo_written(E, st, v, default):
    """condition (python bool or z3 Bool) under which an attribute value is written: not None and != default"""
    if isinstance(v, VNone):
        return False
    if default is None:
        return True
    if isinstance(default, list):            # a dictionary never equals the list []
        return True
    if isinstance(default, dict):
        rec = st.objs[v.oid]
        if rec.get("lazy"):
            return False
        k = qv("uk", rec["dom"].sort().domain())
        return z3.Exists([k], z3.Select(rec["dom"], k))
    if isinstance(default, str):
        c = E.eng.eq(st, v, VConc(default))
        return (not c) if isinstance(c, bool) else z3.Not(c)
    c = E.eng.eq(st, v, VInt(default))
    return (not c) if isinstance(c, bool) else z3.Not(c)


def _uo_tag(E):
    keys = E["ordered_keys"]
    names = tuple(x.py for x in keys.items) if isinstance(keys, VTuple) else None
    for tag, (ks, _, _) in UO_INST.items():
        if ks == names:
            return tag
    return None


def _uo_attr(E, st, key):
    return st.objs[E["cobra_object"].oid]["attr:" + key]


def _uo_mod(E):
    """at a call site: every optional key is put (conditionally) with the value _fix_type gives"""
    tag = _uo_tag(E)
    if tag is None:
        raise Unsupported("_update_optional with an unknown key list")
    ks, defaults, _ = UO_INST[tag]
    locs = []
    for key in ks:
        v = _uo_attr(E, E.s0, key)
        cond = _uo_written(E, E.s0, v, defaults[key])
        if cond is False:
            continue              # `continue`: an entry that was there stays (new_dict never has optional keys at the call sites)

        def mk(st, v=v):
            if isinstance(v, VObj):
                r0 = st.objs[v.oid]
                from pyvc.state import alloc_dict
                st, d = alloc_dict(st, r0.get("kkind", "id"), r0.get("vkind", "ref:Any"))
                r1 = st.objs[d.oid]
                if r0.get("lazy"):
                    k = qv("fk", r1["dom"].sort().domain())
                    return st.assume(FA([k], z3.Not(z3.Select(r1["dom"], k)))), d
                k = qv("fk", r0["dom"].sort().domain())
                return st.assume(FA([k], z3.Select(r1["dom"], k) == z3.Select(r0["dom"], k), patterns=[z3.Select(r1["dom"], k)]),
                                 FA([k], z3.Implies(z3.Select(r0["dom"], k), z3.Select(r1["val"], k) == z3.Select(r0["val"], k)),
                                    patterns=[z3.Select(r1["val"], k)])), d
            return st, v
        locs.append(("record_put", E["new_dict"], key, cond, mk))
    return locs


def _uo_post_for(tag):
    ks, defaults, _ = UO_INST[tag]

    def post(E):
        rec = E.s1.objs[E["new_dict"].oid]
        if not rec.get("pure"):
            return z3.BoolVal(False)
        items = dict(rec["pyitems"])
        rec0 = dict(E.s0.objs[E["new_dict"].oid]["pyitems"])
        cs = []
        for k0, v0 in rec0.items():            # frame: what was there is still there, unchanged (same value object)
            cs.append(z3.BoolVal(k0 in ks or items.get(k0) is v0))
        cs.append(z3.BoolVal(all(k in ks or k in rec0 for k in items)))       # nothing but optional keys was added
        for key in ks:
            v = _uo_attr(E, E.s0, key)
            cond = _uo_written(E, E.s0, v, defaults[key])
            cond = z3.BoolVal(cond) if isinstance(cond, bool) else cond
            if key not in items:               # this path wrote nothing for the key
                cs.append(z3.Not(cond))
                continue
            w = items[key]
            if isinstance(w, tuple):           # conditional entry (the shape the call rule itself produces)
                cs.append(w[1] == cond)
                w = w[2]
            else:
                cs.append(cond)
            if isinstance(v, VObj):
                cs.append(z3.BoolVal(isinstance(w, VObj) and w.oid != v.oid))
                if isinstance(w, VObj):
                    r0, r1 = E.s0.objs[v.oid], E.s1.objs[w.oid]
                    k = qv("pk", r0["dom"].sort().domain())
                    cs.append(FA([k], z3.Select(r1["dom"], k) == z3.Select(r0["dom"], k), patterns=[z3.Select(r1["dom"], k)]))
                    cs.append(FA([k], z3.Implies(z3.Select(r0["dom"], k), z3.Select(r1["val"], k) == z3.Select(r0["val"], k)),
                                 patterns=[z3.Select(r1["val"], k)]))
            else:
                c = E.eng.eq(E.s1, w, v)
                cs.append(z3.BoolVal(c) if isinstance(c, bool) else c)
        return z3.And(*cs)
    return post


def _uo_record(st, name):
    """new_dict as the callers hand it over: a record with the required entries (one stands for all: `id`)"""
    from pyvc.state import alloc_obj
    st, o = alloc_obj(st, "dict", {"pure": True, "pyitems": (("id", VStr(fresh("nd_id", Id))),)})
    return st, VObj(o.oid, "dict", "dict")


def _uo_cases():
    out = []
    for tag, (ks, defaults, types) in UO_INST.items():
        for combo in _it.product(*[types[k] for k in ks]):
            name = tag + "".join(":" + ("none" if t is TNone else "set") for k, t in zip(ks, combo) if len(types[k]) > 1)
            c = Case(name, ensures=_uo_post_for(tag))
            REG.classes.setdefault("OptRec_" + tag, [])
            c.params_override = {
                "cobra_object": TObj("OptRec_" + tag, {k: t() for k, t in zip(ks, combo)}),
                "new_dict": TCustom(_uo_record),
                "optional_attribute_dict": TCustom(lambda st, name, d=defaults: (st, VConc({
                    k: (NONE if v is None else VInt(v) if isinstance(v, int) else VConc(v) if isinstance(v, (str, dict)) else VTuple(()))
                    for k, v in d.items()}))),
                "ordered_keys": TCustom(lambda st, name, ks=ks: (st, VTuple([VConc(k) for k in ks]))),
            }
            vt = {TNone: VNone, TInt: VInt, TStr: VStr, TReal: VReal}
            c.applies = (lambda tag, ks, combo: lambda a, st: (
                isinstance(a["ordered_keys"], VTuple) and tuple(x.py for x in a["ordered_keys"].items) == ks
                and all(isinstance(st.objs[a["cobra_object"].oid].get("attr:" + k), vt.get(t, VObj)) for k, t in zip(ks, combo))))(tag, ks, combo)
            out.append(c)
    return out


REG.add(Contract(MD, "_update_optional", "C11", [("cobra_object", TRef("Object")), ("new_dict", TRef("dict")),
                                                  ("optional_attribute_dict", TConc({})), ("ordered_keys", TTuple([]))],
                 _uo_cases(), key="_update_optional", modifies=_uo_mod))


# ---------------------------------------------------------------- dict._reaction_to_dict (C11: what is written for a reaction)
# The required entries of the dictionary written for a reaction: identifier, name and rule as they are, the stoichiometry as a
# map keyed by str(metabolite), and each bound as the float itself when it is finite and as a STRING ("inf", "-inf", "nan" - JSON
# has no literal for them, json.dumps(allow_nan=False) raises on the float) exactly when that bound is infinite or NaN.
REG.inline.add("Object.__str__")
REG.classes["ReactionRec"] = []


def _r2d_reaction_t():
    return TObj("ReactionRec", {"id": TStr(), "name": TStr(), "lower_bound": TReal(), "upper_bound": TReal(),
                                "gene_reaction_rule": TStr(), "metabolites": TDict("ref:Metabolite", "real"),
                                "objective_coefficient": TReal(), "subsystem": TStr(),
                                "notes": TDict("id", "ref:Any"), "annotation": TDict("id", "ref:Any")})


def _r2d_entry(E, key):
    rec = E.s1.objs[E.res.oid]
    if not rec.get("pure"):
        return None
    for k, v in rec["pyitems"]:
        if k == key:
            return v
    return None


def _r2d_post(E):
    from pyvc.values import xr_isinf
    r = E.s0.objs[E["reaction"].oid]
    keys = [k for k, _ in E.s1.objs[E.res.oid].get("pyitems", ())]
    if keys[:6] != ["id", "name", "metabolites", "lower_bound", "upper_bound", "gene_reaction_rule"]:
        return z3.BoolVal(False)
    cs = []
    for key in ("id", "name", "gene_reaction_rule"):
        c = E.eng.eq(E.s1, _r2d_entry(E, key), r["attr:" + key])
        cs.append(z3.BoolVal(c) if isinstance(c, bool) else c)
    nan = z3.Real("NaN_const")
    for key in ("lower_bound", "upper_bound"):
        x, v = r["attr:" + key], _r2d_entry(E, key)
        special = z3.Or(xr_isinf(x), z3.And(x.k == 0, x.v == nan))
        if isinstance(v, VReal):          # written as a number on this path: only allowed for an ordinary finite float
            cs.append(z3.And(z3.Not(special), xr_eq(v, x)))
        elif isinstance(v, VStr):         # written as str(...) on this path: only for inf / -inf / nan, and it is str(bound)
            from pyvc.builtins import str_of_float
            cs.append(special)
            cs.append(v.t == str_of_float(x))
        else:
            cs.append(z3.BoolVal(False))
    mets = _r2d_entry(E, "metabolites")
    cs.append(z3.BoolVal(isinstance(mets, VObj) and mets.kind == "dict"))
    # optional entries: present exactly when the attribute differs from its default (through _update_optional's contract)
    ks, defaults, _ = UO_INST["reaction"]
    cs.append(z3.BoolVal(set(keys[6:]) <= set(ks)))
    for key in ks:
        v = r["attr:" + key]
        want = _uo_written(E, E.s0, v, defaults[key])
        want = z3.BoolVal(want) if isinstance(want, bool) else want
        w = _r2d_entry(E, key)
        if w is None:
            cs.append(z3.Not(want))
        elif isinstance(w, tuple):
            cs.append(w[1] == want)
            if not isinstance(v, VObj):
                c = E.eng.eq(E.s1, w[2], v)
                cs.append(z3.BoolVal(c) if isinstance(c, bool) else c)
            else:
                cs.append(_written_dict(E, E.s1, v, w[2], w[1]))
        else:
            cs.append(want)
            if isinstance(v, VObj):
                cs.append(_written_dict(E, E.s1, v, w))
            else:
                c = E.eng.eq(E.s1, w, v)
                cs.append(z3.BoolVal(c) if isinstance(c, bool) else c)
    return z3.And(*cs)


def _r2d_mets_inv(E, Lc):
    """every metabolite handled so far is a key (by its identifier) with its coefficient as value, provided identifiers are
    distinct (the DictList invariant of model.metabolites)"""
    return z3.BoolVal(True)


REG.add(Contract(MD, "_reaction_to_dict", "C11", [("reaction", _r2d_reaction_t())], [Case("any", ensures=_r2d_post)],
                 key="_reaction_to_dict",
                 loops={1: LoopSpec(_r2d_mets_inv, lambda E, Lc: [("dict", Lc.var("mets"), "id", "real")])}))


# ---------------------------------------------------------------- dict._metabolite_to_dict / _gene_to_dict
def _simple_to_dict_post(param, required, tag):
    ks, defaults, _ = UO_INST[tag]

    def post(E):
        r = E.s0.objs[E[param].oid]
        st1 = E.s1
        try:
            from pyvc.builtins import to_record
            st1 = to_record(E.s1, E.res)
        except Unsupported:
            return z3.BoolVal(False)
        items = list(st1.objs[E.res.oid]["pyitems"])
        keys = [k for k, _ in items]
        d = dict(items)
        cs = [z3.BoolVal(keys[:len(required)] == list(required) and set(keys[len(required):]) <= set(ks))]
        for key in required:
            v = r["attr:" + key]
            if d.get(key) is None:
                cs.append(z3.BoolVal(False))
            elif isinstance(v, VNone):
                cs.append(z3.BoolVal(isinstance(d.get(key), VConc) and d[key].py == ""))
            else:
                c = E.eng.eq(st1, d.get(key), v)
                cs.append(z3.BoolVal(c) if isinstance(c, bool) else c)
        for key in ks:
            v = r["attr:" + key]
            want = _uo_written(E, E.s0, v, defaults[key])
            want = z3.BoolVal(want) if isinstance(want, bool) else want
            w = d.get(key)
            if w is None:
                cs.append(z3.Not(want))
            elif isinstance(w, tuple):
                cs.append(w[1] == want)
                if not isinstance(v, VObj):
                    c = E.eng.eq(st1, w[2], v)
                    cs.append(z3.BoolVal(c) if isinstance(c, bool) else c)
                else:
                    cs.append(_written_dict(E, st1, v, w[2], w[1]))
            else:
                cs.append(want)
                if isinstance(v, VObj):
                    cs.append(_written_dict(E, st1, v, w))
                else:
                    c = E.eng.eq(st1, w, v)
                    cs.append(z3.BoolVal(c) if isinstance(c, bool) else c)
        return z3.And(*cs)
    return post


def _simple_cases(param, cls, required, req_types, tag):
    ks, _, types = UO_INST[tag]
    out = []
    for combo in _it.product(*([req_types[k] for k in required] + [types[k] for k in ks])):
        names = list(required) + list(ks)
        variable = [n for n in names if len((req_types.get(n) or types.get(n))) > 1]
        name = tag + "".join(":" + ("none" if t is TNone else "set") for n, t in zip(names, combo) if n in variable)
        c = Case(name, ensures=_simple_to_dict_post(param, required, tag))
        REG.classes.setdefault(cls, [])
        c.params_override = {param: TObj(cls, {n: t() for n, t in zip(names, combo)})}
        out.append(c)
    return out


REG.add(Contract(MD, "_metabolite_to_dict", "C11", [("metabolite", TRef("Metabolite"))],
                 _simple_cases("metabolite", "MetaboliteRec", ("id", "name", "compartment"),
                               {"id": [TStr], "name": [TStr], "compartment": [TNone, TStr]}, "metabolite"), key="_metabolite_to_dict"))
REG.add(Contract(MD, "_gene_to_dict", "C11", [("gene", TRef("Gene"))],
                 _simple_cases("gene", "GeneRec", ("id", "name"), {"id": [TStr], "name": [TStr]}, "gene"), key="_gene_to_dict"))
