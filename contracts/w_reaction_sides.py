"""Trusted-base reduction (round 5): Reaction.reactants / Reaction.products / Reaction.boundary against their real bodies.

Keys: "Reaction.reactants@getter:body", "Reaction.products@getter:body", "Reaction.boundary@getter:body"  (no hooks needed: HOOKS = {}).
The callers (contracts/c18_medium.py, c18_mip.py, c17_cyclefree.py) keep their ABSTRACT assumed contracts over a symbolic reaction
reference and the ghost flags has_reactants / has_products / n_reactants / n_products / is_boundary; what those flags MEAN is what is
proved here on a materialised reaction whose stoichiometry `_metabolites` is a dictionary {metabolite: finite real} of any size:

  reactants  a NEW list, (a) every element is a key with coefficient < 0, (b) every key with coefficient < 0 occurs in it (at the
             position given by the ghost filter maps), (c) it is non-empty iff some key has a negative coefficient
             [= the ghost flag has_reactants; n_reactants = its length]; nothing is written.
  products   documented as "the metabolites produced (coefficient > 0)".  The body keeps `v >= 0`, i.e. ALSO a metabolite stored
             with coefficient 0 (FINDING, native reproduction: r = Reaction("R"); r.add_metabolites({a: -1, b: 1}); r *= 0;
             r.products == [a, b], r.reactants == []).  The documented post-condition (a) every element has coefficient > 0,
             (b) every key with coefficient > 0 occurs, (c) non-empty iff some coefficient > 0 is proved under the STATED
             precondition `no key is stored with coefficient 0` (add_metabolites / subtract_metabolites drop zero coefficients -
             proved under C02 - but `r *= 0` and `Reaction.__imul__` in general do not).
  boundary   docstring: "True if the reaction has either no products or reactants".  The body returns
             len(metabolites) == 1 and not (reactants and products).  Proved: with exactly one stored metabolite the result is True
             and the docstring's condition holds (one of the two sides is empty; under the products precondition also "exactly one of
             them"); with any other number of metabolites the result is False.  That second case is the CODE's behaviour, not
             the docstring's (FINDING, documentation / code mismatch: Reaction with {a: -1, b: -1} has no products, boundary is
             False; the empty reaction has neither, boundary is False) - the callers (find_boundary_types, Model.exchanges,
             _add_cycle_free) rely on the one-metabolite reading, so the docstring is what is wrong.

Leaves: none of cobrapy's; dict.items() / dict.copy() / len as axiomatised in pyvc (ghost enumeration order of a dictionary).
Mutation trials (tools/mutate_and_run.sh cobra/core/reaction.py ... contracts.w_reaction_sides <key>), each NOT verified:
  reactants `if v < 0` -> `if v <= 0`: post.2 ((a)); `if v < 0` -> `if v > 0`: post.2;  `[k for k, v` -> `[v for k, v`: post (kind);
  products `if v >= 0` -> `if v < 0`: post.2; boundary `== 1` -> `== 2`: post; `not (self.reactants and` -> `(self.reactants and`: post.
"""
import z3
from .common import *  # noqa
from pyvc.values import VReal

MR = "cobra/core/reaction.py"
REG.classes.setdefault("Metabolite", ["Object"])
REG.inline.update({"Reaction.metabolites@getter", "Reaction.reactants@getter", "Reaction.products@getter"})


def _self_t():
    return TObj("Reaction", {"_metabolites": TDict("ref:Metabolite", "real")})


def _stoich(E, st=None):
    st = st or E.s0
    rec = st.objs[st.objs[E["self"].oid]["attr:_metabolites"].oid]
    return rec["dom"], rec["val"]


def _ghosts(E):
    """the ghost enumeration of the dictionary and the ghost maps of the (single) filtered comprehension of the exit state"""
    d = E.s0.objs[E["self"].oid]["attr:_metabolites"]
    order = [v for k, v in E.s1.ghost.items() if isinstance(k, tuple) and k[0] == "order" and k[1] == d.oid]
    flt = [v for k, v in E.s1.ghost.items() if isinstance(k, tuple) and len(k) == 2 and k[0] == "filter"]
    if len(order) != 1 or len(flt) != 1:
        return None
    return order[0], flt[0]


def _side_post(sel):
    """sel(coefficient) -> z3 Bool: the documented membership condition of the side"""
    def post(E):
        res = E.res
        if not (isinstance(res, VObj) and res.kind == "list") or res.oid in E.s0.objs:
            return z3.BoolVal(False)
        rec = E.s1.objs[res.oid]
        if rec.get("ekind") != "ref:Metabolite":
            return z3.BoolVal(False)
        g = _ghosts(E)
        if g is None:
            return z3.BoolVal(False)
        (order, pos, n), (src, dst, n2) = g
        m, e = rec["len"], rec["elem"]
        dom, val = _stoich(E)
        j, k = qv("sj"), qv("sk", Ref)
        want = lambda x: z3.And(z3.Select(dom, x), sel(z3.Select(val, x)))  # noqa
        return z3.And(m >= 0,
                      FA([j], z3.Implies(z3.And(0 <= j, j < m), want(e[j])), patterns=[e[j]]),                       # (a)
                      FA([k], z3.Implies(want(k), z3.And(0 <= dst[pos[k]], dst[pos[k]] < m, e[dst[pos[k]]] == k)),
                         patterns=[pos[k]]),                                                                          # (b)
                      z3.Implies(m > 0, want(e[0])), FA([k], z3.Implies(want(k), m > 0), patterns=[pos[k]]))          # (c)
    return post


def _no_zero(E):
    dom, val = _stoich(E)
    k = qv("zk", Ref)
    return FA([k], z3.Implies(z3.Select(dom, k), z3.Select(val, k) != 0), patterns=[z3.Select(dom, k)])


REG.add(Contract(MR, "Reaction.reactants@getter", "C18", [("self", _self_t())], [Case("any", ensures=_side_post(lambda c: c < 0))],
                 key="Reaction.reactants@getter:body",
                 note="PROVED: a new list of exactly the keys of _metabolites with coefficient < 0"))
REG.add(Contract(MR, "Reaction.products@getter", "C18", [("self", _self_t())], [Case("no_zero_coefficient", ensures=_side_post(lambda c: c > 0))],
                 pre=_no_zero, key="Reaction.products@getter:body",
                 note="PROVED under the stated precondition that no metabolite is stored with coefficient 0 (the body keeps v >= 0, the "
                      "documentation says > 0: finding): a new list of exactly the keys with coefficient > 0"))
# NOT wired into any property: the documented post-condition WITHOUT the precondition - it does not verify (post.2, clause (a)), which is
# the finding above in the verifier's words (tools/run_contract.py contracts.w_reaction_sides Reaction.products@getter:documented)
REG.add(Contract(MR, "Reaction.products@getter", "C18", [("self", _self_t())], [Case("any", ensures=_side_post(lambda c: c > 0))],
                 key="Reaction.products@getter:documented", note="demonstration of the finding; not part of any property"))


# ---------------------------------------------------------------- boundary
def _self_card_t():
    """the reaction with the cardinality of its stoichiometry as a symbolic integer (record field `card` of the dictionary)"""
    def mk(st, name):
        st, o = _self_t().make(st, name)
        d = st.objs[o.oid]["attr:_metabolites"]
        n = z3.Int(name + "_n_metabolites")
        return st.updobj(d.oid, card=n).assume(n >= 0), o
    return TCustom(mk)


def _n(E):
    return E.s0.objs[E.s0.objs[E["self"].oid]["attr:_metabolites"].oid]["card"]


def _some(E, sel):
    dom, val = _stoich(E)
    k = qv("bk", Ref)
    return z3.Exists([k], z3.And(z3.Select(dom, k), sel(z3.Select(val, k))))


def _b_one(E):
    if not isinstance(E.res, VBool):
        return z3.BoolVal(False)
    t = E.res.t if not isinstance(E.res.t, bool) else z3.BoolVal(E.res.t)
    no_reactants = z3.Not(_some(E, lambda c: c < 0))
    no_products = z3.Not(_some(E, lambda c: c > 0))
    return z3.And(t, z3.Or(no_reactants, no_products))


def _b_other(E):
    if not isinstance(E.res, VBool):
        return z3.BoolVal(False)
    t = E.res.t if not isinstance(E.res.t, bool) else z3.BoolVal(E.res.t)
    return z3.Not(t)


REG.add(Contract(MR, "Reaction.boundary@getter", "C17", [("self", _self_card_t())], [
    Case("exactly_one_metabolite", requires=lambda E: _n(E) == 1, ensures=_b_one),
    Case("another_number_of_metabolites", requires=lambda E: _n(E) != 1, ensures=_b_other),
], key="Reaction.boundary@getter:body",
    note="PROVED: True (and one side is empty, as documented) with exactly one stored metabolite; False with any other number - the "
         "code's reading, NOT the docstring's 'either no products or reactants' (finding: documentation mismatch)"))

HOOKS = {}
KEYS = ["Reaction.reactants@getter:body", "Reaction.products@getter:body", "Reaction.boundary@getter:body"]
