"""C03 (kernel) — the objective: util.solver.set_objective with its nested undo function `reset`, and the two setters built
on it (Model.objective, Reaction.objective_coefficient).

Ghost model of the solver objective (ASSUMED - optlang is external; see the notes of the contracts):
  an optlang Objective is an object with two observable attributes, `expression` (an opaque, immutable value of sort NP) and
  `direction` (an identifier); `solver.objective = X` installs that very object X (optlang keeps the reference), so afterwards
  `solver.objective.expression` / `.direction` read X's;
  lin : NP -> (Variable -> Real)   the coefficient map of the linear part of an expression (the ghost `objc` of C05 is
                                   lin(solver.objective.expression)); lin(Zero) is 0 everywhere;
  is_lin : NP -> Bool              what `objective.is_Linear` reads;
  Objective.set_linear_coefficients({v: x, ...}) replaces the expression of THAT objective by one whose coefficient map is the old
                                   one overwritten at the given variables (and which is linear if the old one was);
  objective += e                   the expression of that objective becomes add(old expression, e) (uninterpreted);
  interface.Objective(e, direction=d, ...) a NEW objective with expression e and direction d;
  interface.Objective.clone(o, model=solver) a NEW objective with expression cloned(o.expression, solver), direction o.direction;
  expression.atoms(Variable)       the set atoms_of(expression) of optlang Variables occurring in it; `variable.problem` the solver
                                   var_problem(variable) it belongs to (the helper _valid_atoms is PROVED over these two).
Flux variables: fwd(r), rev(r) of C01; precondition of the dictionary cases: different reactions have different variables and no
forward variable is a reverse variable (stated through a left inverse `owner`).
"""
import z3
from .common import *  # noqa
from . import c01_lp as C1
from . import c03_context as C3
from pyvc import npalg as N
from pyvc.state import alloc_obj, alloc_list, alloc_set

MS = "cobra/util/solver.py"
MM = "cobra/core/model.py"
MR = "cobra/core/reaction.py"

CoefMap = z3.ArraySort(Ref, z3.RealSort())
lin = z3.Function("obj_lin", N.NP, CoefMap)
is_lin = z3.Function("obj_is_linear", N.NP, z3.BoolSort())
owner = z3.Function("var_owner", Ref, Ref)                       # the reaction a flux variable belongs to
valid_atoms = z3.Function("valid_atoms", Ref, N.NP, z3.BoolSort())  # every optlang Variable of the expression belongs to this solver
atoms_of = z3.Function("expr_atoms", N.NP, z3.ArraySort(Ref, z3.BoolSort()))   # the optlang Variables occurring in an expression
var_problem = C3.var_problem                                    # the solver a variable belongs to (`variable.problem`)
cloned = z3.Function("cloned_into", N.NP, Ref, N.NP)            # the expression re-built over the same-named variables of a solver
ZERO = z3.Const("np:Zero", N.NP)
INTERFACE = VConc(("optlang-interface",))

REG.classes.setdefault("Objective", [])
REG.classes.setdefault("Solver", [])
REG.classes.setdefault("Variable", [])
REG.external_classes = getattr(REG, "external_classes", set()) | {"Solver", "Objective"}
REG.inline.add("Model.solver@getter")
REG.inline.add("Model.objective@getter")
REG.inline.add("Model.objective_direction@getter")
REG.inline.add("Reaction.model@getter")
REG.inline.add("Reaction.flux_expression@getter")


def OBJ_T():
    return TObj("Objective", {"expression": N.TNp(), "direction": TStr()})


def MODEL_T(**more):
    attrs = {"_contexts": TList("ref:HistoryManager"), "_solver": TObj("Solver", {"objective": OBJ_T()})}
    attrs.update(more)
    return TObj("Model", attrs)


def zero_axioms(E=None):
    x = qv("zx", Ref)
    return [FA([x], lin(ZERO)[x] == 0, patterns=[lin(ZERO)[x]]), is_lin(ZERO)]


# ---------------------------------------------------------------- views
def solver_of(st, model):
    return st.objs[model.oid]["attr:_solver"]


def cur_obj(st, model):
    """the Objective object installed in the model's solver"""
    return st.objs[solver_of(st, model).oid]["attr:objective"]


def expr_of(st, o):
    return st.objs[o.oid]["attr:expression"].t


def dir_of(st, o):
    return unwrap(st.objs[o.oid]["attr:direction"], "id")


def solver_id(st, model):
    return ident_of(solver_of(st, model).oid)


def _tr(st):
    return st.ghost.get("trace", ())


def _ev(st, *ev):
    return st.setghost("trace", _tr(st) + (tuple(ev),))


# ---------------------------------------------------------------- hooks: the assumed behaviour of optlang
def global_hook(eng, name):
    if name == "Zero":
        return N.VNp(ZERO)
    if name == "set_objective" and eng.cur_contract is not None and eng.cur_contract.module != MS:
        return VFunc("abstract", "set_objective")          # in the two setters the call is recorded (ghost trace)
    return None


def getattr_hook(eng, st, v, name):
    if isinstance(v, VObj) and v.cls == "Model" and name == "problem":
        return [("ok", st, INTERFACE)]
    if v is INTERFACE and name == "Objective":
        return [("ok", st, VFunc("abstract", "interface.Objective"))]
    if isinstance(v, VFunc) and v.kind == "abstract" and v.a == "interface.Objective" and name == "clone":
        return [("ok", st, VFunc("abstract", "interface.Objective.clone"))]
    if isinstance(v, VObj) and v.cls == "Objective" and name == "is_Linear":
        return [("ok", st, VBool(is_lin(expr_of(st, v))))]
    if isinstance(v, VRef) and v.cls == "Variable" and name == "problem":
        return [("ok", st, VRef(var_problem(v.t), "Solver"))]
    if isinstance(v, N.VNp) and name == "atoms":
        return [("ok", st, VFunc("bound", v, "atoms"))]
    return None


def _new_objective(st, expr, direction):
    if not isinstance(direction, (VStr, VConc)):
        raise Unsupported(f"objective direction {direction!r}")
    return alloc_obj(st, "Objective", {"attr:expression": N.VNp(N.lift(expr)), "attr:direction": direction})


def call_abstract(eng, st, f, pos, kw):
    if f.a == "interface.Objective":
        if len(pos) != 1 or "direction" not in kw or set(kw) - {"direction", "sloppy", "name"}:
            raise Unsupported("interface.Objective(...) with these arguments")
        st2, o = _new_objective(st, pos[0], kw["direction"])
        return [("ok", st2, o)]
    if f.a == "interface.Objective.clone":
        src, sol = pos[0], kw.get("model")
        if not (len(pos) == 1 and isinstance(src, VObj) and src.cls == "Objective" and isinstance(sol, VObj) and sol.cls == "Solver"):
            raise Unsupported("interface.Objective.clone(...) with these arguments")
        st2, o = _new_objective(st, N.VNp(cloned(expr_of(st, src), ident_of(sol.oid))), st.objs[src.oid]["attr:direction"])
        return [("ok", st2, o)]
    if f.a == "set_objective":
        return [("ok", _ev(st, "set_objective", tuple(pos), tuple(sorted(kw.items(), key=lambda x: x[0]))), NONE)]
    return None


def call_method_hook(eng, st, recv, name, pos, kw):
    if isinstance(recv, VObj) and recv.cls == "Objective":
        if name == "set_linear_coefficients" and len(pos) == 1 and not kw:
            d = pos[0]
            rec = st.objs[d.oid] if isinstance(d, VObj) and d.kind == "dict" else None
            if rec is None or rec.get("lazy") or rec.get("pure") or not rec["kkind"].startswith("ref"):
                raise Unsupported("set_linear_coefficients needs a {variable: number} dictionary")
            e0 = expr_of(st, recv)
            e1, x = fresh("np:objective_expression", N.NP), qv("sx", Ref)
            newv = z3.Select(rec["val"], x)
            newv = z3.ToReal(newv) if rec["vkind"] == "int" else newv
            ax = FA([x], lin(e1)[x] == z3.If(z3.Select(rec["dom"], x), newv, lin(e0)[x]), patterns=[lin(e1)[x]])
            st2 = st.assume(ax, z3.Implies(is_lin(e0), is_lin(e1))).updobj(recv.oid, **{"attr:expression": N.VNp(e1)})
            return [("ok", st2, NONE)]
        if name == "__iadd__" and len(pos) == 1 and not kw:
            e1 = N.term("add", expr_of(st, recv), N.lift(pos[0]))
            return [("ok", st.updobj(recv.oid, **{"attr:expression": N.VNp(e1)}), recv)]
    if isinstance(recv, VObj) and recv.cls == "DictList" and name == "get_by_any" and len(pos) == 1 and not kw:
        return _get_by_any(eng, st, recv, pos[0])
    if isinstance(recv, N.VNp) and name == "atoms" and len(pos) == 1 and not kw and isinstance(pos[0], VClass) and pos[0].name == "Variable":
        # sympy: expression.atoms(Variable) -> the set of optlang Variables occurring in the expression
        st2, sv = alloc_set(st, "ref:Variable", dom=atoms_of(recv.t))
        return [("ok", st2, sv)]
    return None


def setattr_hook(eng, st, v, name, val):
    if isinstance(v, VObj) and v.cls == "Solver" and name == "objective":
        if not (isinstance(val, VObj) and val.cls == "Objective"):
            raise Unsupported(f"solver.objective = {val!r}")
        return [("ok", _ev(st, "objective=", v, val).updobj(v.oid, **{"attr:objective": val}), NONE)]
    if isinstance(v, VObj) and v.cls == "Objective" and name == "direction":
        if not isinstance(val, (VStr, VConc)):
            raise Unsupported(f"objective.direction = {val!r}")
        return [("ok", _ev(st, "direction=", v, val).updobj(v.oid, **{"attr:direction": val}), NONE)]
    return None


def call_object_hook(eng, st, f, pos, kw):
    if isinstance(f, VRef) and f.cls == "HistoryManager" and len(pos) == 1 and not kw:
        # HistoryManager.__call__ by its contract (C03 kernel): the operation is appended to that manager's history; recorded in the
        # ghost trace together with WHAT THE SOLVER OBJECTIVE IS at that moment (to state `registered after the change`)
        m = (getattr(eng, "entry_args", None) or {}).get("model")
        snap = None
        if isinstance(m, VObj) and m.cls == "Model" and "attr:_solver" in st.objs[m.oid]:
            o = cur_obj(st, m)
            snap = (o.oid, expr_of(st, o), dir_of(st, o))
        return [("ok", _ev(st, "push", f, pos[0], snap), NONE)]
    return None


def isinstance_hook(eng, st, v, clsname):
    if isinstance(v, N.VNp):
        return clsname in ("Basic", "object")          # an opaque term stands for a sympy expression
    if v is INTERFACE:
        return False
    return None


def binop_hook(eng, st, op, a, b):
    """arithmetic with an optlang Variable: an opaque expression"""
    if any(isinstance(x, VRef) and x.cls == "Variable" for x in (a, b)) and type(op) in N.OPS:
        return [("ok", st, N.app(N.OPS[type(op)], a, b))]
    return None


HOOKS = chain_hooks({"global": global_hook, "getattr": getattr_hook, "call_abstract": call_abstract, "call_method": call_method_hook,
                     "setattr": setattr_hook, "call_object": call_object_hook, "isinstance": isinstance_hook, "binop": binop_hook},
                    N.HOOKS)


# ---------------------------------------------------------------- _valid_atoms
def valid_atoms_def(sid, e):
    """definition of the spec predicate: every optlang Variable occurring in the expression belongs to that solver"""
    v = qv("av", Ref)
    return valid_atoms(sid, e) == FA([v], z3.Implies(z3.Select(atoms_of(e), v), var_problem(v) == sid),
                                     patterns=[z3.Select(atoms_of(e), v)])


def _va_args(E, st=None):
    m, e = E["model"], E["expression"]
    if not (isinstance(m, VObj) and m.cls == "Model" and isinstance(e, N.VNp)):
        raise Unsupported("_valid_atoms with these arguments")
    return solver_id(st or E.s0, m), e.t


REG.add(Contract(MS, "_valid_atoms", "C03", [("model", MODEL_T()), ("expression", N.TNp())],
                 [Case("any", ensures=lambda E: E.res.t == valid_atoms(*_va_args(E)) if isinstance(E.res, VBool) else z3.BoolVal(False))],
                 key="_valid_atoms", result=lambda eng, st, E: (st, VBool(valid_atoms(*_va_args(E, st)))),
                 axioms=lambda E: [valid_atoms_def(*_va_args(E))],
                 note="returns valid_atoms(model.solver, expression) := every optlang Variable occurring in the expression belongs to "
                      "the model's solver. ASSUMED (sympy / optlang): expression.atoms(Variable) is the set of those variables, "
                      "`variable.problem` the solver a variable belongs to"))


# ================================================================ set_objective
def _ctx(E):
    return C3._gc_has(Env({"obj": E["model"]}, E.s0, eng=E.eng))


def _entry(E):
    o = cur_obj(E.s0, E["model"])
    return o, expr_of(E.s0, o), dir_of(E.s0, o)


def vars_injective():
    r = qv("vr", Ref)
    return FA([r], z3.And(owner(C1.fwd(r)) == r, owner(C1.rev(r)) == r, C1.fwd(r) != C1.rev(r)), patterns=[C1.fwd(r), C1.rev(r)])


def _dict_arrays(E, st=None):
    """(dom, val) of the dictionary argument, val as a function reaction -> Real (the coefficients are ints or finite floats)"""
    rec = (st or E.s0).objs[E["value"].oid]
    dom, val, as_int = rec["dom"], rec["val"], rec["vkind"] == "int"
    return dom, (lambda r: z3.ToReal(z3.Select(val, r)) if as_int else z3.Select(val, r))


def written(dom, x, done=None):
    """x is the forward or the reverse variable of a listed reaction"""
    r = owner(x)
    listed = z3.Select(dom, r) if done is None else done(r)
    return z3.And(listed, z3.Or(x == C1.fwd(r), x == C1.rev(r)))


def newcoef(val, x):
    r = owner(x)
    return z3.If(x == C1.fwd(r), val(r), -val(r))


def dict_spec(dom, val, e_before, e_after, additive):
    """the coefficient map after the dictionary has been applied: +coefficient on the forward, -coefficient on the reverse variable
    of every listed reaction; every other coefficient as before (additive) resp. 0 (a fresh zero objective)"""
    x, r = qv("dx", Ref), qv("dr", Ref)
    other = lin(e_before)[x] if additive else z3.RealVal(0)
    return z3.And(
        FA([x], lin(e_after)[x] == z3.If(written(dom, x), newcoef(val, x), other), patterns=[lin(e_after)[x]]),
        FA([r], z3.Implies(z3.Select(dom, r), z3.And(lin(e_after)[C1.fwd(r)] == val(r), lin(e_after)[C1.rev(r)] == -val(r))),
           patterns=[z3.Select(dom, r)]))


def _dict_pre(E):
    v = E["value"]
    if not (isinstance(v, VObj) and v.kind == "dict"):
        return TRUE()
    dom, _ = _dict_arrays(E)
    r = qv("pr", Ref)
    mo = E.eng.heap_arr(E.s0, "_model")
    return z3.And(vars_injective(), FA([r], z3.Implies(z3.Select(dom, r), mo[r] != NULL), patterns=[z3.Select(dom, r)]))


def _so_pre(E):
    return z3.And(C3._ctx_nonnull(Env({"obj": E["model"]}, E.s0, eng=E.eng)), _dict_pre(E))


def _loop_obj(E, Lc):
    """the objective the loop works on: the one installed in the solver when the loop is entered"""
    return cur_obj(Lc.entry, E["model"])


def _so_inv(E, Lc):
    st, i = Lc.st, Lc.i
    ob = _loop_obj(E, Lc)
    same_obj = cur_obj(st, E["model"]).oid == ob.oid
    dom, val = _dict_arrays(E, st)
    order, pos, card = st.ghost[("order", E["value"].oid, dom.get_id())]
    e_in, e_cur = expr_of(Lc.entry, ob), expr_of(st, ob)
    x = qv("ix", Ref)
    done = lambda r: z3.And(z3.Select(dom, r), pos[r] < i)  # noqa
    return z3.And(z3.BoolVal(bool(same_obj)), is_lin(e_cur),
                  FA([x], lin(e_cur)[x] == z3.If(written(dom, x, done), newcoef(val, x), lin(e_in)[x]), patterns=[lin(e_cur)[x]]))


def _so_loop_mod(E, Lc):
    ob = _loop_obj(E, Lc)
    return [("attr", ob, "expression", lambda st: (st, N.VNp(fresh("np:objective_expression", N.NP))))]


def _pushes(E):
    return [ev for ev in _tr(E.s1) if ev[0] == "push"]


def _undo_post(E, with_ctx):
    """the context part: nothing registered without a context; in a context exactly one undo, registered in the innermost context
    AFTER the change, a closure `reset` whose captured `reverse_value` is an objective of its own holding the entry expression and
    the entry direction"""
    pushes = _pushes(E)
    if not with_ctx:
        return z3.BoolVal(len(pushes) == 0)
    if len(pushes) != 1 or _tr(E.s1)[-1] is not pushes[0]:
        return z3.BoolVal(False)
    _, ctx, f, snap = pushes[0]
    ok = isinstance(f, VFunc) and f.kind == "closure" and getattr(f.a, "name", None) == "reset" and snap is not None
    if not ok:
        return z3.BoolVal(False)
    mdl, rv = E.s1.lookup(f.b, "model"), E.s1.lookup(f.b, "reverse_value")
    o0, e0, d0 = _entry(E)
    o1 = cur_obj(E.s1, E["model"])
    ok = (isinstance(mdl, VObj) and mdl.oid == E["model"].oid and isinstance(rv, VObj) and rv.cls == "Objective"
          and rv.oid != o0.oid and rv.oid != o1.oid)                  # a copy: not the objective that is (or was) installed
    if not ok:
        return z3.BoolVal(False)
    n, e = C3._ctxs(E.s0, E["model"])
    return z3.And(ctx.t == e[n - 1],
                  expr_of(E.s1, rv) == e0, dir_of(E.s1, rv) == d0,                                   # what the undo will restore
                  z3.BoolVal(snap[0] == o1.oid), snap[1] == expr_of(E.s1, o1), snap[2] == dir_of(E.s1, o1))   # registered after the change


def _dict_post(additive, with_ctx):
    def post(E):
        o0, e0, d0 = _entry(E)
        o1 = cur_obj(E.s1, E["model"])
        dom, val = _dict_arrays(E)
        same_obj = (o1.oid == o0.oid) if additive else (o1.oid != o0.oid and E.s1.objs[o0.oid] is E.s0.objs[o0.oid])
        return z3.And(z3.BoolVal(bool(same_obj)),            # additive: the installed objective is updated in place; else: a new one
                      dir_of(E.s1, o1) == d0,                 # the CURRENT direction is kept
                      dict_spec(dom, val, e0, expr_of(E.s1, o1), additive),
                      _undo_post(E, with_ctx))
    return post


def _value_parts(E):
    """(expression, direction, is the value an Objective object) of the objective the value stands for"""
    v = E["value"]
    if isinstance(v, N.VNp):
        return v.t, _entry(E)[2], False                    # a bare expression: wrapped with the CURRENT direction
    return expr_of(E.s0, v), dir_of(E.s0, v), True


def _obj_post(additive, with_ctx):
    def post(E):
        o0, e0, d0 = _entry(E)
        o1 = cur_obj(E.s1, E["model"])
        ev, dv, is_obj = _value_parts(E)
        sid = solver_id(E.s0, E["model"])
        own = valid_atoms(sid, ev)
        ev2 = z3.If(own, ev, cloned(ev, sid))              # foreign variables: cloned into the model's solver (opaque)
        if additive:
            body = z3.And(z3.BoolVal(o1.oid == o0.oid), expr_of(E.s1, o1) == N.term("add", e0, ev2), dir_of(E.s1, o1) == d0)
        else:
            body = z3.And(z3.BoolVal(o1.oid != o0.oid and E.s1.objs[o0.oid] is E.s0.objs[o0.oid]),
                          expr_of(E.s1, o1) == ev2, dir_of(E.s1, o1) == dv,
                          z3.Implies(own, z3.BoolVal(o1.oid == E["value"].oid)) if is_obj else TRUE())   # that very objective
        if is_obj:
            v = E["value"]
            body = z3.And(body, z3.BoolVal(E.s1.objs[v.oid] is E.s0.objs[v.oid]))      # the given objective itself is only read
        return z3.And(body, _undo_post(E, with_ctx))
    return post


def _nothing_changed(E):
    o0 = cur_obj(E.s0, E["model"])
    return z3.BoolVal(cur_obj(E.s1, E["model"]).oid == o0.oid and E.s1.objs[o0.oid] is E.s0.objs[o0.oid] and _tr(E.s1) == ())


def _pc(case, **over):
    case.params_override = over
    return case


def _so_cases():
    out = []
    add = lambda E: E["additive"].t  # noqa
    lin0 = lambda E: is_lin(_entry(E)[1])  # noqa
    DICTS = (("dict", dict(value=TDict("ref:Reaction", "real"))), ("dict_of_ints", dict(value=TDict("ref:Reaction", "int"))))
    for d_tag, DICT in DICTS:
        out.append(_pc(Case(f"{d_tag}:non_linear_objective", requires=lambda E: z3.Not(lin0(E)), ensures=_nothing_changed,
                            raises="ValueError"), **DICT))
    for a_tag, a_val in (("replace", False), ("additive", True)):
        for c_tag, c_val in (("no_context", False), ("in_context", True)):
            def req(E, a_val=a_val, c_val=c_val):
                return z3.And(add(E) if a_val else z3.Not(add(E)), _ctx(E) if c_val else z3.Not(_ctx(E)))
            for d_tag, DICT in DICTS:
                out.append(_pc(Case(f"{d_tag}:{a_tag}:{c_tag}", requires=lambda E, req=req: z3.And(lin0(E), req(E)),
                                    ensures=_dict_post(a_val, c_val)), **DICT))
            for s_tag, s_t in (("objective", OBJ_T()), ("expression", N.TNp())):
                out.append(_pc(Case(f"{s_tag}:{a_tag}:{c_tag}", requires=req, ensures=_obj_post(a_val, c_val)), value=s_t))
    for s_tag, s_t in (("int", TInt()), ("str", TStr()), ("none", TNone())):
        out.append(_pc(Case(f"other_type:{s_tag}", ensures=_nothing_changed, raises="TypeError"), value=s_t))
    return out


def _so_mod(E):
    sol = solver_of(E.s0, E["model"])

    def mk(st):
        st, e = N.TNp().make(st, fresh_name("np:objective_expression"))
        return alloc_obj(st, "Objective", {"attr:expression": e, "attr:direction": VStr(fresh("direction", Id))})
    return [("ghost", "trace", lambda st: ()), ("attr", sol, "objective", mk)]


_add_t = TBool()
_add_t.default = VBool(False)
REG.add(Contract(MS, "set_objective", "C03", [("model", MODEL_T()), ("value", TDict("ref:Reaction", "real")), ("additive", _add_t)],
                 _so_cases(), pre=_so_pre, modifies=_so_mod, axioms=zero_axioms, key="set_objective",
                 loops={0: LoopSpec(_so_inv, _so_loop_mod)},
                 note="over the ghost model of the optlang objective (expression: opaque value, direction, lin: coefficient map of "
                      "an expression - ASSUMED contracts of optlang, see the module docstring). Dictionary cases: the coefficients "
                      "are finite reals; PRECONDITIONS (stated, not proved): every listed reaction is in a model (has its two "
                      "solver variables), different reactions have different variables and no forward variable is a reverse "
                      "variable; the context stack holds no None. `_valid_atoms` is applied by its (proved) contract"))


# ================================================================ the nested undo function `reset`
def _reset_post(E):
    m, rv = E["model"], E["reverse_value"]
    sol = solver_of(E.s0, m)
    o1 = cur_obj(E.s1, m)
    e_rec, d_rec = expr_of(E.s0, rv), dir_of(E.s0, rv)
    tr = _tr(E.s1)
    ok = (len(tr) == 2 and tr[0][0] == "objective=" and tr[0][1].oid == sol.oid and tr[0][2].oid == rv.oid
          and tr[1][0] == "direction=" and tr[1][1].oid == rv.oid)
    if not ok:
        return z3.BoolVal(False)
    return z3.And(z3.BoolVal(o1.oid == rv.oid),                                     # the recorded objective is installed
                  expr_of(E.s1, o1) == e_rec, dir_of(E.s1, o1) == d_rec,             # with the recorded expression and direction
                  unwrap(tr[1][2], "id") == d_rec)                                   # the two solver calls, in this order


REG.add(Contract(MS, "set_objective.reset", "C03", [], [Case("restore", ensures=_reset_post)],
                 closure=[("model", MODEL_T()), ("reverse_value", OBJ_T())],
                 modifies=lambda E: _so_mod(E), key="set_objective.reset",
                 note="nested undo function, verified with its free variables `model` and `reverse_value` as closure parameters: "
                      "`model.solver.objective = reverse_value`, then `model.solver.objective.direction = reverse_value.direction` "
                      "(exactly these two solver calls); afterwards the solver's objective is the recorded objective with the "
                      "recorded expression and direction. It registers nothing itself"))


# ================================================================ glue lemma: change, then reset
def lemmas():
    """set_objective in a context, then (whatever happens to the SOLVER in between) the registered reset: the solver objective has the
    entry expression - hence the entry coefficient map - and the entry direction again.  Built from the very post-conditions of the
    two contracts on synthetic states s0 -set_objective-> s1 ... s2 -reset-> s3; the only link between s1 and s2 is that the captured
    objective `reverse_value` - an object only the closure refers to - is as it was registered."""
    from pyvc.engine import Engine, Obl
    from pyvc.state import State, new_fid
    eng = Engine(REG, HOOKS)
    out = []
    for shape, additive in (("dict", False), ("dict", True), ("expression", False), ("expression", True)):
        st = State()
        st, model = MODEL_T().make(st, "g_model")
        st, value = (TDict("ref:Reaction", "real") if shape == "dict" else N.TNp()).make(st, "g_value")
        a = {"model": model, "value": value, "additive": VBool(additive)}
        s0 = st
        # s1: after set_objective - a synthetic final state that has the shape the in-context post-condition talks about
        fid = new_fid()
        s1, rv = OBJ_T().make(s0, "g_reverse_value")
        if additive:
            o1 = cur_obj(s0, model)
            s1 = s1.updobj(o1.oid, **{"attr:expression": N.VNp(z3.Const("g_expr1", N.NP))})
        else:
            s1, o1 = OBJ_T().make(s1, "g_new_objective")
            s1 = s1.updobj(solver_of(s1, model).oid, **{"attr:objective": o1})
        s1 = s1.with_frame(fid, None, {"model": model, "reverse_value": rv})
        import ast
        f = VFunc("closure", ast.parse("def reset():\n    pass\n").body[0], fid)
        ctx = VRef(z3.Const("g_ctx", Ref), "HistoryManager")
        s1 = _ev(s1, "push", ctx, f, (o1.oid, expr_of(s1, o1), dir_of(s1, o1)))
        E1 = Env(a, s0, s1, eng=eng)
        changed = (_dict_post if shape == "dict" else _obj_post)(additive, True)(E1)
        # s2: any later state in which the captured objective is untouched;  s3: after reset
        s2, _o2 = OBJ_T().make(s1.setghost("trace", ()), "g_later_objective")
        s2 = s2.updobj(solver_of(s2, model).oid, **{"attr:objective": _o2})
        s3 = s2.updobj(solver_of(s2, model).oid, **{"attr:objective": rv})
        s3 = _ev(_ev(s3, "objective=", solver_of(s2, model), rv), "direction=", rv, VStr(z3.Const("g_dir_call", Id)))
        s3 = s3.updobj(rv.oid, **{"attr:expression": N.VNp(z3.Const("g_expr3", N.NP)), "attr:direction": VStr(z3.Const("g_dir3", Id))})
        E3 = Env({"model": model, "reverse_value": rv}, s2, s3, eng=eng)
        restored = _reset_post(E3)
        _, e0, d0 = _entry(E1)
        o3 = cur_obj(s3, model)
        x = z3.Const("g_x", Ref)
        goal = z3.And(expr_of(s3, o3) == e0, z3.ForAll([x], lin(expr_of(s3, o3))[x] == lin(e0)[x]), dir_of(s3, o3) == d0)
        tag = shape + ("-additive" if additive else "-replace")
        out.append(Obl(f"C03/lemma/set_objective/{tag}-then-reset-restores-coefficients-and-direction", [changed, restored], goal, "lemma"))
    return out


# ================================================================ Model.objective@setter  /  Reaction.objective_coefficient@setter
def _get_by_any(eng, st, dl, item):
    """ASSUMED (DictList.get_by_any, read from its source, for ONE item that is not a list): [self[item]] for an int (IndexError
    out of range), [self.get_by_id(item)] for a str (KeyError for an unknown id), [item] itself for an object whose id is in the
    index (`item in self` compares identifiers), TypeError otherwise"""
    n, e = L(st, dl)
    dom, val = Dv(st, dl)
    ekind = st.objs[dl.oid]["ekind"]

    def one(s, r):
        s2, l = alloc_list(s, ekind, base="found", length=z3.IntVal(1))
        return ("ok", s2.assume(z3.Select(s2.objs[l.oid]["elem"], 0) == r), l)
    out = []
    if isinstance(item, VInt):
        for ok, s in eng.branch(st, z3.And(-n <= item.t, item.t < n)):
            out.append(one(s, e[norm(item.t, n)]) if ok else eng.raise_(s, "IndexError"))
    elif isinstance(item, (VStr, VConc)):
        k = unwrap(item, "id")
        for ok, s in eng.branch(st, z3.Select(dom, k)):
            out.append(one(s, e[val[k]]) if ok else eng.raise_(s, "KeyError"))
    elif isinstance(item, VRef):
        for ok, s in eng.branch(st, z3.Select(dom, eng.heap_arr(st, "_id")[item.t])):
            out.append(one(s, item.t) if ok else eng.raise_(s, "TypeError"))
    else:
        raise Unsupported(f"get_by_any({item!r})")
    return out


def _call_recorded(E, additive):
    """exactly one call set_objective(<model>, X, additive=<additive>) and nothing else -> (model argument, X) or None"""
    tr = _tr(E.s1)
    if len(tr) != 1 or tr[0][0] != "set_objective" or len(tr[0][1]) != 2 or len(tr[0][2]) != 1 or tr[0][2][0][0] != "additive":
        return None
    flag = tr[0][2][0][1]
    if not (isinstance(flag, VBool) and (z3.is_true(flag.t) if additive else z3.is_false(flag.t))):
        return None
    return tr[0][1]


def _singleton(E, d, r, coef):
    """d is the dictionary {r: coef}"""
    if not (isinstance(d, VObj) and d.kind == "dict"):
        return z3.BoolVal(False)
    rec = E.s1.objs[d.oid]
    if rec.get("lazy") or rec.get("pure") or not rec["kkind"].startswith("ref"):
        return z3.BoolVal(False)
    k = qv("sk", Ref)
    v = z3.Select(rec["val"], r)
    v = z3.ToReal(v) if rec["vkind"] == "int" else v
    return z3.And(FA([k], z3.Select(rec["dom"], k) == (k == r), patterns=[z3.Select(rec["dom"], k)]), v == coef)


def _mo_same(E):
    """the setter itself touches neither the model nor the value: whatever happens, happens in set_objective"""
    m, v = E["self"], E["value"]
    o0 = cur_obj(E.s0, m)
    ok = cur_obj(E.s1, m).oid == o0.oid and E.s1.objs[o0.oid] is E.s0.objs[o0.oid]
    if isinstance(v, VObj):
        ok = ok and E.s1.objs[v.oid] is E.s0.objs[v.oid]
    return z3.BoolVal(bool(ok))


def _mo_post(shape):
    def post(E):
        call = _call_recorded(E, additive=False)
        if call is None or not (isinstance(call[0], VObj) and call[0].oid == E["self"].oid):
            return z3.BoolVal(False)
        X, v = call[1], E["value"]
        o0 = cur_obj(E.s0, E["self"])
        if shape == "expression":
            # wrapped into a NEW objective with the CURRENT direction
            if not (isinstance(X, VObj) and X.cls == "Objective" and X.oid != o0.oid):
                return z3.BoolVal(False)
            return z3.And(expr_of(E.s1, X) == v.t, dir_of(E.s1, X) == dir_of(E.s0, o0), _mo_same(E))
        if shape in ("objective", "dict"):
            return z3.And(z3.BoolVal(isinstance(X, VObj) and X.oid == v.oid), _mo_same(E))           # passed on as given
        dl = E.s0.objs[E["self"].oid]["attr:reactions"]
        n, e = L(E.s0, dl)
        dom, val = Dv(E.s0, dl)
        r = {"reaction": lambda: v.t, "id": lambda: e[val[v.t]], "int": lambda: e[norm(v.t, n)]}[shape]()
        return z3.And(_singleton(E, X, r, z3.RealVal(1)), _mo_same(E))
    return post


def _mo_known(shape):
    def req(E):
        dl = E.s0.objs[E["self"].oid]["attr:reactions"]
        n, _ = L(E.s0, dl)
        dom, _ = Dv(E.s0, dl)
        v = E["value"]
        if shape == "reaction":
            return z3.Select(dom, E.eng.heap_arr(E.s0, "_id")[v.t])
        if shape == "id":
            return z3.Select(dom, v.t)
        return z3.And(-n <= v.t, v.t < n)
    return req


def _mo_quiet(E):
    return z3.And(z3.BoolVal(_tr(E.s1) == ()), _mo_same(E))


def _mo_cases():
    out = []
    for shape, t in (("expression", N.TNp()), ("objective", OBJ_T()), ("dict", TDict("ref:Reaction", "real"))):
        out.append(_pc(Case(shape, ensures=_mo_post(shape)), value=t))
    for shape, t, exc in (("reaction", TRef("Reaction"), "TypeError"), ("id", TStr(), "ValueError"), ("int", TInt(), "IndexError")):
        known = _mo_known(shape)
        out.append(_pc(Case(f"{shape}:found", requires=known, ensures=_mo_post(shape)), value=t))
        out.append(_pc(Case(f"{shape}:not_found", requires=lambda E, known=known: z3.Not(known(E)), ensures=_mo_quiet, raises=exc),
                       value=t))
    return out


def _mo_mod(E):
    return _so_mod(Env({"model": E["self"]}, E.s0, eng=E.eng))


REG.add(Contract(MM, "Model.objective@setter", "C03", [("self", MODEL_T(reactions=TDictList("Reaction"))), ("value", N.TNp())],
                 _mo_cases(), modifies=_mo_mod, key="Model.objective@setter",
                 note="the call set_objective(self, X, additive=False) is RECORDED (ghost trace), not executed: proved is what X is "
                      "for every documented shape of the value. A sympy expression is wrapped into a new objective with the CURRENT "
                      "direction; an Objective or a dictionary is passed on as given; a reaction / identifier / index becomes "
                      "{reaction: 1} through reactions.get_by_any (ASSUMED, one item: see _get_by_any); an unknown identifier "
                      "raises ValueError, an index out of range IndexError and a reaction whose id is not in the model TypeError "
                      "(the last two propagate from get_by_any) - then no call is made. Lists of reactions are outside the contract. "
                      "At call sites the solver objective is havocked (what set_objective does is its own contract)"))


def _oc_model(E):
    return C1.model_of(E, E.s0, E["self"].t)


def _oc_post(E):
    call = _call_recorded(E, additive=True)
    if call is None or not (isinstance(call[0], VRef) and call[0].cls == "Model"):
        return z3.BoolVal(False)
    return z3.And(call[0].t == _oc_model(E), _singleton(E, call[1], E["self"].t, E["value"].v))


REG.add(Contract(MR, "Reaction.objective_coefficient@setter", "C03", [("self", TRef("Reaction")), ("value", TReal())], [
    Case("in_model", requires=lambda E: _oc_model(E) != NULL, ensures=_oc_post),
    Case("detached", requires=lambda E: _oc_model(E) == NULL, ensures=lambda E: z3.BoolVal(_tr(E.s1) == ()), raises="AttributeError"),
], pre=lambda E: E["value"].k == 0,
    modifies=lambda E: [("ghost", "trace", lambda st: ()), ("ghost", "objc", lambda st: fresh("objc", CoefMap))],
    key="Reaction.objective_coefficient@setter",
    note="the call set_objective(self.model, {self: value}, additive=True) is RECORDED (ghost trace), not executed; a reaction "
         "without a model raises AttributeError and makes no call. PRECONDITION: the value is a finite number. The property "
         "flux_expression is inlined (arithmetic with optlang Variables is opaque); forward_variable / reverse_variable by their "
         "assumed C01 contracts"))
