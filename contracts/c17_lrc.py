"""C17 — util.solver.linear_reaction_coefficients(model) against its real body.

The contract object is the one the callers use (contracts/c17_loopless.py, key "linear_reaction_coefficients", applied at the call site
in loopless_solution); this module clears its `assumed` flag, gives it the precondition the body needs, the loop invariant, and the hook
table HOOKS for verifying the body.  Post-condition UNCHANGED (the documented one): a NEW dict {reaction: coefficient} holding exactly
the reactions r of the model whose forward variable has a non-zero coefficient c in the objective with the reverse variable's coefficient
equal to -c (a LINEAR term in the net flux), value c; nothing is written.

STATED PRECONDITION (new; obliged at the call site in loopless_solution, which has it in its own precondition): model.reactions is a
well-formed DictList and every listed reaction belongs to a model (so that its two solver variables exist: the proved getters of
contracts/c01_lp.py return fwd(r) / rev(r), two distinct objects).  Case: `reactions` None (all reactions of the model).

ASSUMED leaf (sympy / optlang): `model.solver.objective.expression.as_coefficients_dict()` is a dictionary that maps exactly the
variables with a non-zero coefficient in the objective to that coefficient (ghost `objc` of contracts/c05_fva.py; the constant term's
key 1 is never looked up); `float(c)` of such a coefficient is the number c.  The AttributeError branch (an objective without
expression) is therefore not reachable in the model - it returns the empty dictionary, which the post-condition would also accept
only if no coefficient were non-zero; not claimed.

Mutation trials (tools/mutate_and_run.sh cobra/util/solver.py ... contracts.c17_lrc --hooks HOOKS linear_reaction_coefficients):
  `if forward_coefficient != 0:` -> `if forward_coefficient == 0:`                                loop#0/inv-preserve / post
  `if forward_coefficient == -reverse_coefficient:` -> `== reverse_coefficient:`                    loop#0/inv-preserve
  `coefficients.get(rxn.reverse_variable, 0)` -> `coefficients.get(rxn.forward_variable, 0)`        loop#0/inv-preserve
  `linear_coefficients[rxn] = float(forward_coefficient)` -> `float(reverse_coefficient)`           loop#0/inv-preserve
  `for rxn in reactions:` -> `for rxn in reactions[1:]:`                                            unsupported / post
"""
import z3
from .common import *  # noqa
from . import c01_lp as C1
from . import c05_fva as C5
from . import c17_loopless as CL
from pyvc.state import alloc_dict
from pyvc.values import VFunc, Unsupported

LRC = CL.LRC
KEY = "linear_reaction_coefficients"


def _verifying(eng):
    cur = getattr(eng, "cur_contract", None)
    return cur is not None and cur.key == KEY


# ---------------------------------------------------------------- hooks: the objective's coefficient dictionary (leaf)
def _getattr(eng, st, v, name):
    if not _verifying(eng):
        return None
    if isinstance(v, VObj) and v.kind == "obj" and v.cls == "Objective" and name == "expression":
        return [("ok", st, VConc(("<objective expression>", v.oid)))]
    if isinstance(v, VConc) and isinstance(v.py, tuple) and v.py and v.py[0] == "<objective expression>" and name == "as_coefficients_dict":
        return [("ok", st, VFunc("abstract", "as_coefficients_dict"))]
    return None


def _call_abstract(eng, st, f, pos, kw):
    if _verifying(eng) and f.a == "as_coefficients_dict" and not pos and not kw:
        o = C5.objc(st)
        dom = fresh("coef_dom", z3.ArraySort(Ref, z3.BoolSort()))
        v = qv("cv", Ref)
        st = st.assume(FA([v], z3.Select(dom, v) == (o[v] != 0), patterns=[z3.Select(dom, v)]))
        st, d = alloc_dict(st, "ref:Variable", "real", base="coefs", dom=dom, val=o)
        return [("ok", st, d)]
    return None


HOOKS = {"getattr": _getattr, "call_abstract": _call_abstract}


# ---------------------------------------------------------------- precondition, invariant
def _rx(E):
    return CL._dl(E.s0, E["model"])


def _pre(E):
    dl = _rx(E)
    n, e = L(E.s0, dl)
    j = qv("lj")
    return z3.And(WF(E, E.s0, dl),
                  FA([j], z3.Implies(z3.And(0 <= j, j < n), C1.model_of(E, E.s0, e[j]) != NULL), patterns=[e[j]]))


def _inv(E, Lc):
    dl = _rx(E)
    n, e = L(E.s0, dl)
    rdom, rval = Dv(E.s0, dl)
    idA = idarr(E, E.s0)
    o = C5.objc(E.s0)
    d = Lc.st.objs[Lc.var("linear_coefficients").oid]
    k = qv("ik", Ref)
    in_model = z3.And(z3.Select(rdom, idA[k]), e[rval[idA[k]]] == k)
    linear = z3.And(o[C1.fwd(k)] != 0, o[C1.fwd(k)] == -o[C1.rev(k)])
    if d.get("lazy"):
        # still the empty literal: no reaction handled so far is linear
        return z3.And(Lc.n == n, FA([k], z3.Not(z3.And(in_model, rval[idA[k]] < Lc.i, linear)), patterns=[rval[idA[k]]]))
    return z3.And(Lc.n == n,
                  FA([k], z3.And(z3.Select(d["dom"], k) == z3.And(in_model, rval[idA[k]] < Lc.i, linear),
                                 z3.Implies(z3.Select(d["dom"], k), z3.Select(d["val"], k) == o[C1.fwd(k)])),
                     patterns=[z3.Select(d["dom"], k), z3.Select(d["val"], k)]))


LRC.assumed = False
LRC.pre = _pre
LRC.loops = {0: LoopSpec(_inv, lambda E, Lc: [("dict", Lc.var("linear_coefficients"), "ref:Reaction", "real")])}
LRC.note = ("PROVED against its body (contracts/c17_lrc.py; was an assumed contract): a NEW dict holding exactly the model's reactions "
            "whose forward variable has a non-zero objective coefficient that is the negative of the reverse variable's; leaf: sympy "
            "as_coefficients_dict = the ghost coefficient map objc")
KEYS = [KEY]
