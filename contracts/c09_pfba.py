"""C09 (kernel) — parsimonious.add_pfba: the documented secondary problem.

Proved for models with any number of reactions: after add_pfba the objective has coefficient 1 on the forward AND the reverse
variable of EVERY reaction of the model and on nothing else it set (all other coefficients as the fresh zero objective left
them), direction "min", name "_pfba_objective"; the original objective was fixed first with the requested fraction
(fix_objective_as_constraint is called with it); a model that already has a pFBA objective raises ValueError.
Per-reaction lemma (LRA): with f, r >= 0 and f - r = v, min (f + r) = |v|, attained with min(f, r) = 0.
"""
import z3
import cobra  # noqa
from .common import *  # noqa
from . import c15_dictlist  # noqa
from . import c01_lp as C1
from . import c04_status as C4
from . import c05_fva as C5
from pyvc import npalg as N
from pyvc.values import id_lit

MP = "cobra/flux_analysis/parsimonious.py"


def _model_t():
    sol = TObj("Solver", {"objective": TObj("Objective", {"name": TStr(), "direction": TStr()})})
    return TObj("Model", {"_solver": sol, "reactions": TDictList("Reaction"), "problem": N.TNp()})


def global_hook(eng, name):
    if name == "sutil":
        return VConc(("module", "cobra.util.solver"))
    if name == "Zero":
        return N.VNp(z3.Const("np:Zero", N.NP))
    return None


def getattr_hook(eng, st, v, name):
    if isinstance(v, VConc) and isinstance(v.py, tuple) and v.py[0] == "module" and v.py[1] == "cobra.util.solver" \
            and name == "fix_objective_as_constraint":
        return [("ok", st, VFunc("abstract", "fix_objective_as_constraint"))]
    if isinstance(v, VObj) and v.cls == "Model" and name == "objective":
        return [("ok", st, st.objs[st.objs[v.oid]["attr:_solver"].oid]["attr:objective"])]
    return None


def call_abstract(eng, st, f, pos, kw):
    if f.a == "fix_objective_as_constraint":
        tr = st.ghost.get("trace", ())
        return [("ok", st.setghost("trace", tr + (("fix", tuple(pos), tuple(sorted(kw.items(), key=lambda x: x[0]))),)), N.VNp(fresh("np:bound", N.NP)))]
    return None


def setattr_hook(eng, st, v, name, val):
    """model.objective = problem.Objective(Zero, direction=..., name=...): a fresh zero objective (ghost: all coefficients 0)"""
    if isinstance(v, VObj) and v.cls == "Model" and name == "objective" and isinstance(val, N.VNp):
        sol = st.objs[v.oid]["attr:_solver"]
        obj = st.objs[sol.oid]["attr:objective"]
        m = st.objs[v.oid]["attr:problem"].t
        want = N.term("call(direction,name,sloppy)", N.term("attr.Objective", m), z3.Const("np:Zero", N.NP),
                      N.lift(VConc("min")), N.lift(VConc("_pfba_objective")), N.lift(VBool(True)))
        is_pfba = val.t == want
        st2 = st.updobj(obj.oid, **{"attr:name": VStr(z3.If(is_pfba, id_lit("_pfba_objective"), fresh("objname", Id))),
                                    "attr:direction": VStr(z3.If(is_pfba, id_lit("min"), fresh("objdir", Id)))})
        st2 = st2.setghost("objc", z3.K(Ref, z3.RealVal(0))).setghost("objective_installed", is_pfba)
        return [("ok", st2, NONE)]
    return None


HOOKS = chain_hooks({"global": global_hook, "getattr": getattr_hook, "call_abstract": call_abstract, "setattr": setattr_hook}, N.HOOKS)


def _obj(E, st):
    sol = st.objs[E["model"].oid]["attr:_solver"]
    return st.objs[st.objs[sol.oid]["attr:objective"].oid]


def _already(E):
    return _obj(E, E.s0)["attr:name"].t == id_lit("_pfba_objective")


def _post(E):
    dl = E.s0.objs[E["model"].oid]["attr:reactions"]
    n, e = L(E.s0, dl)
    o1 = C5.objc(E.s1)
    x, w = qv("px", Ref), qv("pw")
    in_model = z3.Exists([w], z3.And(0 <= w, w < n, z3.Or(x == C1.fwd(e[w]), x == C1.rev(e[w]))))
    tr = E.s1.ghost.get("trace", ())
    fixed_first = (len(tr) == 1 and tr[0][0] == "fix" and len(tr[0][1]) == 1 and isinstance(tr[0][1][0], VObj)
                   and tr[0][1][0].oid == E["model"].oid and dict(tr[0][2]).get("fraction") is E["fraction_of_optimum"])
    inst = E.s1.ghost.get("objective_installed")
    return z3.And(z3.BoolVal(bool(fixed_first)), inst if inst is not None else z3.BoolVal(False),
                  _obj(E, E.s1)["attr:name"].t == id_lit("_pfba_objective"), _obj(E, E.s1)["attr:direction"].t == id_lit("min"),
                  FA([x], o1[x] == z3.If(in_model, z3.RealVal(1), z3.RealVal(0)), patterns=[o1[x]]))


def _pre(E):
    dl = E.s0.objs[E["model"].oid]["attr:reactions"]
    n, e = L(E.s0, dl)
    j = qv("pj")
    return z3.And(WF(E, E.s0, dl), FA([j], z3.Implies(z3.And(0 <= j, j < n), C1.model_of(E, E.s0, e[j]) != NULL), patterns=[e[j]]))


def _mod(E):
    o = E.s0.objs[E.s0.objs[E["model"].oid]["attr:_solver"].oid]["attr:objective"]
    out = [("ghost", "trace", lambda st: ()), ("ghost", "objc", lambda st: fresh("objc", C5.CoefMap)), ("ghost", "objective_installed", lambda st: None),
           ("attr", o, "name", lambda st: (st, VStr(fresh("nm", Id)))), ("attr", o, "direction", lambda st: (st, VStr(fresh("dr", Id))))]
    if "attr:expression" in E.s0.objs[o.oid]:
        # a caller that tracks the objective's expression sees it replaced (by the pFBA objective's, uninterpreted)
        out.append(("attr", o, "expression", lambda st: (st, N.VNp(fresh("np:pfba_expression", N.NP)))))
    if "attr:value" in E.s0.objs[o.oid]:
        from pyvc.values import xr_fresh
        out.append(("attr", o, "value", lambda st: (lambda v, c: (st.assume(c), v))(*xr_fresh("objval"))))
    return out


_c_bad = Case("already_pfba", requires=_already, raises="ValueError")
REG.add(Contract(MP, "add_pfba", "C09", [("model", _model_t()), ("objective", TNone()), ("fraction_of_optimum", N.TNp())],
                 [Case("fresh", requires=lambda E: z3.Not(_already(E)), ensures=_post), _c_bad], pre=_pre, modifies=_mod, key="add_pfba"))
REG.external_classes = getattr(REG, "external_classes", set()) | {"Objective"}


def lemmas():
    from pyvc.engine import Obl
    f, r, v = z3.Reals("p_f p_r p_v")
    absv = z3.If(v >= 0, v, -v)
    dom = [f >= 0, r >= 0, f - r == v]
    return [Obl("C09/lemma/pfba/sum-of-pair-at-least-abs-flux", dom, f + r >= absv, "lemma"),
            Obl("C09/lemma/pfba/abs-flux-attained", [], z3.Exists([f, r], z3.And(f >= 0, r >= 0, f - r == v, f + r == absv)), "lemma"),
            Obl("C09/lemma/pfba/minimum-has-one-of-pair-zero", dom + [f + r == absv], z3.Or(f == 0, r == 0), "lemma")]
def _post_call(E):
    """add_pfba as seen by a caller: the part of the post-condition that is about the model (the ghost trace of the calls made
    inside - fix_objective_as_constraint first, with the fraction - is proved on the body and is not visible to callers)"""
    dl = E.s0.objs[E["model"].oid]["attr:reactions"]
    n, e = L(E.s0, dl)
    o1 = C5.objc(E.s1)
    x, w = qv("px", Ref), qv("pw")
    in_model = z3.Exists([w], z3.And(0 <= w, w < n, z3.Or(x == C1.fwd(e[w]), x == C1.rev(e[w]))))
    return z3.And(_obj(E, E.s1)["attr:name"].t == id_lit("_pfba_objective"), _obj(E, E.s1)["attr:direction"].t == id_lit("min"),
                  FA([x], o1[x] == z3.If(in_model, z3.RealVal(1), z3.RealVal(0)), patterns=[o1[x]]))


REG.get("add_pfba").call_cases = [Case("fresh", requires=lambda E: z3.Not(_already(E)), ensures=_post_call), _c_bad]
[t for n_, t in REG.get("add_pfba").params if n_ == "objective"][0].default = NONE          # add_pfba(model, fraction_of_optimum=...)
