"""C03 (kernel) — HistoryManager, get_context, resettable, Model.__enter__/__exit__.

Ghost state: `world` is an abstract value of sort World (everything observable about the model); an undo entry u has an
abstract effect eff(u, w).  run(h, n, w) replays the first n entries of h last-in-first-out:
    run(h, 0, w) = w        run(h, n, w) = run(h, n-1, eff(h[n-1], w))     (n > 0)
Assumption stated in the contracts (non-reentrancy): running an entry does not touch the history being reset.
"""
import z3
from .common import *  # noqa
from pyvc.state import alloc_list, alloc_obj

M = "cobra/util/context.py"
World = z3.DeclareSort("World")
SeqRef = z3.ArraySort(z3.IntSort(), Ref)
eff = z3.Function("eff", Ref, World, World)
run = z3.Function("run", SeqRef, z3.IntSort(), World, World)
REG.classes["Undo"] = []
REG.classes["HistoryManager"] = []
REG.null_checked = {"Model"}


def run_axioms():
    h, n, w = z3.Const("ra_h", SeqRef), z3.Int("ra_n"), z3.Const("ra_w", World)
    return [z3.ForAll([h, w], run(h, 0, w) == w, patterns=[run(h, 0, w)]),
            z3.ForAll([h, n, w], z3.Implies(n > 0, run(h, n, w) == run(h, n - 1, eff(h[n - 1], w))), patterns=[run(h, n, w)])]


def world(st):
    return st.ghost.get("world", z3.Const("world0", World))


def hist(st, v):
    rec = st.objs[st.objs[v.oid]["attr:_history"].oid]
    return rec["len"], rec["elem"]


HM = ("self", TObj("HistoryManager", {"_history": TList("ref:Undo")}))


def _hm_hist_loc(E, Lc=None):
    st = Lc.st if Lc is not None else E.s0
    return [("list", st.objs[E["self"].oid]["attr:_history"])]


# calling an undo entry: world := eff(entry, world); the history under reset is not touched (non-reentrancy assumption)
def call_object_hook(eng, st, f, pos, kw):
    if isinstance(f, VRef) and f.cls == "Undo":
        w = world(st)
        return [("ok", st.setghost("world", eff(f.t, w)), NONE)]
    return None


HOOKS = {"call_object": call_object_hook}

# ---------------------------------------------------------------- HistoryManager.__call__
def _push_post(E):
    n0, e0 = hist(E.s0, E["self"])
    n1, e1 = hist(E.s1, E["self"])
    j = qv("pj")
    return z3.And(n1 == n0 + 1, e1[n0] == E["operation"].t,
                  FA([j], z3.Implies(z3.And(0 <= j, j < n0), e1[j] == e0[j]), patterns=[e1[j]]))


REG.add(Contract(M, "HistoryManager.__call__", "C03", [HM, ("operation", TRef("Undo"))],
                 [Case("push", ensures=_push_post)], modifies=_hm_hist_loc, key="HistoryManager.__call__"))


# ---------------------------------------------------------------- HistoryManager.reset (LIFO replay)
def _reset_inv(E, Lc):
    n0, e0 = hist(E.s0, E["self"])
    n, e = hist(Lc.st, E["self"])
    j = qv("rj")
    return z3.And(0 <= n, n <= n0,
                  FA([j], z3.Implies(z3.And(0 <= j, j < n), e[j] == e0[j]), patterns=[e[j]]),
                  run(e0, n, world(Lc.st)) == run(e0, n0, world(E.s0)))


def _reset_post(E):
    n0, e0 = hist(E.s0, E["self"])
    n1, e1 = hist(E.s1, E["self"])
    return z3.And(n1 == 0, world(E.s1) == run(e0, n0, world(E.s0)))


def _reset_loop_mod(E, Lc):
    return _hm_hist_loc(E, Lc) + [("ghost", "world", lambda st: fresh("world", World))]


REG.add(Contract(M, "HistoryManager.reset", "C03", [HM], [Case("replay_lifo", ensures=_reset_post)],
                 pre=lambda E: z3.And(*run_axioms()),
                 modifies=lambda E: _hm_hist_loc(E) + [("ghost", "world", lambda st: fresh("world", World))],
                 loops={0: LoopSpec(_reset_inv, _reset_loop_mod, assigns=lambda E: hist(E.s1, E["self"])[0])},
                 key="HistoryManager.reset",
                 note="assumes non-reentrancy: an entry does not push to or pop from the history being reset"))

REG.add(Contract(M, "HistoryManager.size", "C03", [HM],
                 [Case("any", ensures=lambda E: E.res.t == hist(E.s0, E["self"])[0])], result="int", key="HistoryManager.size"))


# ---------------------------------------------------------------- get_context
def _model_type(name):
    return TObj("Model", {"_contexts": TList("ref:HistoryManager")})


def _ctxs(st, model):
    rec = st.objs[st.objs[model.oid]["attr:_contexts"].oid]
    return rec["len"], rec["elem"]


def _gc_model(E):
    o = E["obj"]
    if o.cls == "Model":
        return o
    m = E.s0.objs[o.oid].get("attr:_model")
    return m if isinstance(m, VObj) else None


def _gc_has(E):
    m = _gc_model(E)
    if m is None:
        return z3.BoolVal(False)
    return _ctxs(E.s0, m)[0] > 0


def _gc_post(E):
    m = _gc_model(E)
    n, e = _ctxs(E.s0, m)
    return z3.And(E.res.t == e[n - 1], E.res.t != NULL) if isinstance(E.res, VRef) else z3.BoolVal(False)


def _ctx_nonnull(E, name="obj"):
    """the context stack holds HistoryManager objects (never None)"""
    m = _gc_model(Env({"obj": E[name]}, E.s0, eng=E.eng))
    if m is None:
        return TRUE()
    n, e = _ctxs(E.s0, m)
    j = qv("cj")
    return FA([j], z3.Implies(z3.And(0 <= j, j < n), e[j] != NULL), patterns=[e[j]])


def _gc_cases(pt):
    c1 = pcase_(Case("innermost_context", requires=_gc_has, ensures=_gc_post), obj=pt)
    c1.result = "ref:HistoryManager"
    c2 = pcase_(Case("no_context", requires=lambda E: z3.Not(_gc_has(E)),
                     ensures=lambda E: z3.BoolVal(isinstance(E.res, VNone))), obj=pt)
    c2.result = lambda eng, st, E: (st, NONE)
    return [c1, c2]


def pcase_(case, **over):
    case.params_override = over
    return case


_MODEL = _model_type("m")
_IN_MODEL = TObj("Reaction", {"_model": _MODEL})
_DETACHED = TObj("Reaction", {"_model": TNone()})
def _shape(tag):
    def f(a, st):
        o = a["obj"]
        if not isinstance(o, VObj):
            return False
        if tag == "model":
            return o.cls == "Model"
        m = st.objs[o.oid].get("attr:_model")
        return o.cls != "Model" and (isinstance(m, VObj) if tag == "object_in_model" else isinstance(m, VNone))
    return f


_gc_all = []
for _tag, _pt in (("model", _MODEL), ("object_in_model", _IN_MODEL), ("detached_object", _DETACHED)):
    for _c in _gc_cases(_pt):
        if _tag == "detached_object" and _c.name == "innermost_context":
            continue
        _c.name = f"{_tag}:{_c.name}"
        _c.applies = _shape(_tag)
        _gc_all.append(_c)
REG.add(Contract(M, "get_context", "C03", [("obj", _MODEL)], _gc_all, key="get_context", result=None, pre=_ctx_nonnull))


# ---------------------------------------------------------------- resettable.wrapper (generic over the wrapped setter)
def _abstract_func(st, name):
    return st, VFunc("abstract", "the_attr")


def call_abstract(eng, st, f, pos, kw):
    """the wrapped setter: recorded in the ghost trace; may return or raise"""
    if f.a != "the_attr":
        return None
    tr = st.ghost.get("trace", ())
    s2 = st.setghost("trace", tr + (("call", f.a, tuple(pos)),))
    return [("ok", s2, NONE), ("raise", s2, VExc("ValueError"))]


def call_object_hook2(eng, st, f, pos, kw):
    r = call_object_hook(eng, st, f, pos, kw)
    if r is not None:
        return r
    if isinstance(f, VRef) and f.cls == "HistoryManager":
        # HistoryManager.__call__ by its contract: the operation is appended to that manager's history (ghost trace)
        tr = st.ghost.get("trace", ())
        return [("ok", st.setghost("trace", tr + (("push", f, pos[0]),)), NONE)]
    return None


HOOKS = {"call_object": call_object_hook2, "call_abstract": call_abstract}


def _thing(model_t):
    return TObj("Reaction", {"_model": model_t, "the_attr": TInt()})


def _w_ctx(E):
    return _gc_has(Env({"obj": E["self"]}, E.s0, eng=E.eng))


def _old(E):
    return E.s0.objs[E["self"].oid]["attr:the_attr"].t


def _trace(E):
    return E.s1.ghost.get("trace", ())


def _is_call(ev, E):
    return ev[0] == "call" and len(ev[2]) == 2 and isinstance(ev[2][0], VObj) and ev[2][0].oid == E["self"].oid \
        and isinstance(ev[2][1], VInt) and ev[2][1].t.eq(E["new_value"].t)


def _w_post_plain(E):
    tr = _trace(E)
    return z3.BoolVal(len(tr) == 1 and _is_call(tr[0], E))


def _w_post_same(E):
    return z3.BoolVal(len(_trace(E)) == 0)


def _w_post_push(E):
    tr = _trace(E)
    if not (len(tr) == 2 and tr[0][0] == "push" and _is_call(tr[1], E)):
        return z3.BoolVal(False)
    _, ctx, entry = tr[0]
    m = _gc_model(Env({"obj": E["self"]}, E.s0, eng=E.eng))
    n, e = _ctxs(E.s0, m)
    ok_shape = (isinstance(entry, VFunc) and entry.kind == "partial" and isinstance(entry.a, VFunc) and entry.a.kind == "abstract"
                and len(entry.b) == 2 and isinstance(entry.b[0], VObj) and entry.b[0].oid == E["self"].oid
                and isinstance(entry.b[1], VInt))
    if not ok_shape:
        return z3.BoolVal(False)
    # registered in the innermost context, capturing the OLD value, before the setter runs
    return z3.And(ctx.t == e[n - 1], entry.b[1].t == _old(E))


def _wcases(tag, model_t, has_ctx):
    out = []
    P = dict(self=_thing(model_t))

    def mk(name, req, ens):
        c = pcase_(Case(f"{tag}:{name}", requires=req, ensures=ens), **P)
        c.may_raise = "ValueError"      # the wrapped setter may raise; the same trace postcondition holds then
        return c
    if not has_ctx:
        out.append(mk("no_context", lambda E: z3.Not(_w_ctx(E)), _w_post_plain))
    else:
        c = pcase_(Case(f"{tag}:unchanged_value", requires=lambda E: z3.And(_w_ctx(E), _old(E) == E["new_value"].t),
                        ensures=_w_post_same), **P)
        out.append(c)
        out.append(mk("changed_value", lambda E: z3.And(_w_ctx(E), _old(E) != E["new_value"].t), _w_post_push))
    return out


_wc = _wcases("detached", TNone(), False) + _wcases("in_model", _MODEL, False) + _wcases("in_model", _MODEL, True)
REG.add(Contract(M, "resettable.wrapper", "C03",
                 [("self", _thing(TNone())), ("new_value", TInt()), ("func", TCustom(_abstract_func))], _wc,
                 key="resettable.wrapper", modifies=lambda E: [("ghost", "trace", lambda st: ())],
                 pre=lambda E: _ctx_nonnull(E, "self")))


# ================================================================ Model.__enter__ / Model.__exit__
MMOD = "cobra/core/model.py"
REG.fields.update({"hm_len": "int", "hm_hist": "seqref"})


def hm_len(E, st):
    return E.eng.heap_arr(st, "hm_len")


def hm_hist(E, st):
    return E.eng.heap_arr(st, "hm_hist")


def _new_manager(eng, st, E):
    return st, VRef(fresh("manager", Ref), "HistoryManager")


def _hm_init_post(E):
    """allocation: a new manager is a new object (not on the stack) with an empty history"""
    h = E["self"].t
    return z3.And(h != NULL, hm_len(E, E.s1)[h] == 0,
                  FA([x := qv("hx", Ref)], z3.Implies(x != h, hm_len(E, E.s1)[x] == hm_len(E, E.s0)[x])),
                  z3.BoolVal(True))


REG.add(Contract(M, "HistoryManager.__init__", "C03", [("self", TRef("HistoryManager"))], [Case("new", ensures=_hm_init_post)],
                 assumed=True, key="HistoryManager.__init__", result=_new_manager, modifies=lambda E: [("heap", "hm_len")],
                 note="object allocation: the new HistoryManager is a fresh object with an empty history"))

MODELC = ("self", TObj("Model", {"_contexts": TList("ref:HistoryManager")}))


def _stack(st, m):
    return _ctxs(st, m)


def _enter_post(E):
    n0, e0 = _stack(E.s0, E["self"])
    n1, e1 = _stack(E.s1, E["self"])
    j = qv("ej")
    top = e1[n0]
    return z3.And(z3.BoolVal(isinstance(E.res, VObj) and E.res.oid == E["self"].oid),
                  n1 == n0 + 1, FA([j], z3.Implies(z3.And(0 <= j, j < n0), e1[j] == e0[j]), patterns=[e1[j]]),
                  top != NULL, hm_len(E, E.s1)[top] == 0, world(E.s1) == world(E.s0))


def _stack_loc(E):
    return [("list", E.s0.objs[E["self"].oid]["attr:_contexts"]), ("heap", "hm_len")]


REG.add(Contract(MMOD, "Model.__enter__", "C03", [MODELC], [Case("push_new_context", ensures=_enter_post)],
                 modifies=_stack_loc, key="Model.__enter__", result="self"))


def reset_on_ref(eng, st, recv, name, pos, kw):
    """HistoryManager.reset on a manager taken from the stack, by the contract proved above (world := run(history), history
    emptied).  Obligation: while the undo functions run, the model's context stack is EMPTY, so that a context-aware undo function
    cannot record itself in an enclosing context."""
    if isinstance(recv, VRef) and recv.cls == "HistoryManager" and name == "reset":
        m = eng.entry_args["self"]
        n_now, _ = _ctxs(st, m)
        eng.oblige(st, n_now == 0, "exit/context-stack-hidden-while-undoing", kind="side")
        ln, hs = eng.heap_arr(st, "hm_len"), eng.heap_arr(st, "hm_hist")
        w1 = run(hs[recv.t], ln[recv.t], world(st))
        st2 = st.setghost("world", w1).setheap("hm_len", z3.Store(ln, recv.t, z3.IntVal(0)))
        return [("ok", st2, NONE)]
    return None


HOOKS_EXIT = dict(HOOKS, call_method=reset_on_ref)


def _exit_post(E):
    n0, e0 = _stack(E.s0, E["self"])
    n1, e1 = _stack(E.s1, E["self"])
    top = e0[n0 - 1]
    j, x = qv("xj"), qv("xx", Ref)
    return z3.And(n1 == n0 - 1, FA([j], z3.Implies(z3.And(0 <= j, j < n0 - 1), e1[j] == e0[j]), patterns=[e1[j]]),
                  world(E.s1) == run(hm_hist(E, E.s0)[top], hm_len(E, E.s0)[top], world(E.s0)),
                  hm_len(E, E.s1)[top] == 0,
                  FA([x], z3.Implies(x != top, hm_len(E, E.s1)[x] == hm_len(E, E.s0)[x])))


def _exit_mod(E):
    return [("attr", E["self"], "_contexts", lambda st: alloc_list(st, "ref:HistoryManager")), ("heap", "hm_len"),
            ("ghost", "world", lambda st: fresh("world", World))]


_x = [("self", MODELC[1]), ("type", TNone()), ("value", TNone()), ("traceback", TNone())]
REG.add(Contract(MMOD, "Model.__exit__", "C03", _x, [
    Case("innermost_context", requires=lambda E: _stack(E.s0, E["self"])[0] > 0, ensures=_exit_post),
    Case("no_context", requires=lambda E: _stack(E.s0, E["self"])[0] <= 0, raises="IndexError"),
], modifies=_exit_mod, key="Model.__exit__", axioms=lambda E: run_axioms()))


# ================================================================ add / remove constraints and variables (util/solver.py)
MSOLV = "cobra/util/solver.py"


def _model_with_solver():
    return TObj("Model", {"_contexts": TList("ref:HistoryManager"), "_solver": TObj("Solver", {})})


def solver_call_hook(eng, st, recv, name, pos, kw):
    """optlang solver.add / solver.remove: recorded in the ghost trace (assumed: remove(what) is the inverse of add(what))"""
    if isinstance(recv, VObj) and recv.cls == "Solver" and name in ("add", "remove"):
        tr = st.ghost.get("trace", ())
        return [("ok", st.setghost("trace", tr + ((name, tuple(pos), tuple(sorted(kw))),)), NONE)]
    return None


HOOKS_CONS = dict(HOOKS, call_method=solver_call_hook)
REG.inline.add("Model.solver@getter")
REG.external_classes = getattr(REG, "external_classes", set()) | {"Solver"}


def _cv_ctx(E):
    return _gc_has(Env({"obj": E["model"]}, E.s0, eng=E.eng))


def _cv_post(do, undo, with_ctx):
    def post(E):
        tr = _trace(E)
        what = E["what"]
        if with_ctx:
            if len(tr) != 2:
                return z3.BoolVal(False)
            first, second = tr
            n, e = _ctxs(E.s0, E["model"])
            ok = (first[0] == do and len(first[1]) == 1 and first[1][0] is what and second[0] == "push"
                  and isinstance(second[2], VFunc) and second[2].kind == "partial"
                  and isinstance(second[2].a, VFunc) and second[2].a.kind == "bound" and second[2].a.b == undo
                  and isinstance(second[2].a.a, VObj) and second[2].a.a.cls == "Solver"
                  and len(second[2].b) == 1 and second[2].b[0] is what)
            return z3.And(z3.BoolVal(bool(ok)), second[1].t == e[n - 1]) if ok else z3.BoolVal(False)
        ok = len(tr) == 1 and tr[0][0] == do and len(tr[0][1]) == 1 and tr[0][1][0] is what
        return z3.BoolVal(bool(ok))
    return post


for _fn, _do, _undo in (("add_cons_vars_to_problem", "add", "remove"), ("remove_cons_vars_from_problem", "remove", "add")):
    REG.add(Contract(MSOLV, _fn, "C03", [("model", _model_with_solver()), ("what", TRef("Undo")), ("**kwargs", TConc({"__kwargs__": True}))], [
        Case("no_context", requires=lambda E: z3.Not(_cv_ctx(E)), ensures=_cv_post(_do, _undo, False)),
        Case("in_context", requires=_cv_ctx, ensures=_cv_post(_do, _undo, True)),
    ], pre=lambda E: _ctx_nonnull(Env({"obj": E["model"]}, E.s0, eng=E.eng)), key=_fn,
        modifies=lambda E: [("ghost", "trace", lambda st: ())],
        note="`what` is ONE object that is not an optlang Variable (a constraint): the path on which remove_cons_vars_from_problem "
             "records nothing but the inverse solver call. Lists, and the column bookkeeping for removed VARIABLES (restore_columns, "
             "added by /repo 902ed3f), are outside this contract and are exercised by the bounded driver only"))

ALL_HOOKS = chain_hooks(HOOKS, {"call_method": reset_on_ref}, {"call_method": solver_call_hook})
