"""C03 (kernel) — HistoryManager, get_context, resettable, Model.__enter__/__exit__.

Ghost state: `world` is an abstract value of sort World (everything observable about the model); an undo entry u has an
abstract effect eff(u, w).  run(h, n, w) replays the first n entries of h last-in-first-out:
    run(h, 0, w) = w        run(h, n, w) = run(h, n-1, eff(h[n-1], w))     (n > 0)
Assumption stated in the contracts (non-reentrancy): running an entry does not touch the history being reset.
"""
import z3
from .common import *  # noqa
from pyvc.state import alloc_list, alloc_obj

M = "cobra/util/context.py"
World = z3.DeclareSort("World")
SeqRef = z3.ArraySort(z3.IntSort(), Ref)
eff = z3.Function("eff", Ref, World, World)
run = z3.Function("run", SeqRef, z3.IntSort(), World, World)
REG.classes["Undo"] = []
REG.classes["HistoryManager"] = []
REG.null_checked = {"Model"}


def run_axioms():
    h, n, w = z3.Const("ra_h", SeqRef), z3.Int("ra_n"), z3.Const("ra_w", World)
    return [z3.ForAll([h, w], run(h, 0, w) == w, patterns=[run(h, 0, w)]),
            z3.ForAll([h, n, w], z3.Implies(n > 0, run(h, n, w) == run(h, n - 1, eff(h[n - 1], w))), patterns=[run(h, n, w)])]


def world(st):
    return st.ghost.get("world", z3.Const("world0", World))


def hist(st, v):
    rec = st.objs[st.objs[v.oid]["attr:_history"].oid]
    return rec["len"], rec["elem"]


HM = ("self", TObj("HistoryManager", {"_history": TList("ref:Undo")}))


def _hm_hist_loc(E, Lc=None):
    st = Lc.st if Lc is not None else E.s0
    return [("list", st.objs[E["self"].oid]["attr:_history"])]


# calling an undo entry: world := eff(entry, world); the history under reset is not touched (non-reentrancy assumption)
def call_object_hook(eng, st, f, pos, kw):
    if isinstance(f, VRef) and f.cls == "Undo":
        w = world(st)
        return [("ok", st.setghost("world", eff(f.t, w)), NONE)]
    return None


HOOKS = {"call_object": call_object_hook}

# ---------------------------------------------------------------- HistoryManager.__call__
def _push_post(E):
    n0, e0 = hist(E.s0, E["self"])
    n1, e1 = hist(E.s1, E["self"])
    j = qv("pj")
    return z3.And(n1 == n0 + 1, e1[n0] == E["operation"].t,
                  FA([j], z3.Implies(z3.And(0 <= j, j < n0), e1[j] == e0[j]), patterns=[e1[j]]))


REG.add(Contract(M, "HistoryManager.__call__", "C03", [HM, ("operation", TRef("Undo"))],
                 [Case("push", ensures=_push_post)], modifies=_hm_hist_loc, key="HistoryManager.__call__"))


# ---------------------------------------------------------------- HistoryManager.reset (LIFO replay)
def _reset_inv(E, Lc):
    n0, e0 = hist(E.s0, E["self"])
    n, e = hist(Lc.st, E["self"])
    j = qv("rj")
    return z3.And(0 <= n, n <= n0,
                  FA([j], z3.Implies(z3.And(0 <= j, j < n), e[j] == e0[j]), patterns=[e[j]]),
                  run(e0, n, world(Lc.st)) == run(e0, n0, world(E.s0)))


def _reset_post(E):
    n0, e0 = hist(E.s0, E["self"])
    n1, e1 = hist(E.s1, E["self"])
    return z3.And(n1 == 0, world(E.s1) == run(e0, n0, world(E.s0)))


def _reset_loop_mod(E, Lc):
    return _hm_hist_loc(E, Lc) + [("ghost", "world", lambda st: fresh("world", World))]


REG.add(Contract(M, "HistoryManager.reset", "C03", [HM], [Case("replay_lifo", ensures=_reset_post)],
                 pre=lambda E: z3.And(*run_axioms()),
                 modifies=lambda E: _hm_hist_loc(E) + [("ghost", "world", lambda st: fresh("world", World))],
                 loops={0: LoopSpec(_reset_inv, _reset_loop_mod, assigns=lambda E: hist(E.s1, E["self"])[0])},
                 key="HistoryManager.reset",
                 note="assumes non-reentrancy: an entry does not push to or pop from the history being reset"))

REG.add(Contract(M, "HistoryManager.size", "C03", [HM],
                 [Case("any", ensures=lambda E: E.res.t == hist(E.s0, E["self"])[0])], result="int", key="HistoryManager.size"))


# ---------------------------------------------------------------- get_context
def _model_type(name):
    return TObj("Model", {"_contexts": TList("ref:HistoryManager")})


def _ctxs(st, model):
    rec = st.objs[st.objs[model.oid]["attr:_contexts"].oid]
    return rec["len"], rec["elem"]


def _gc_model(E):
    o = E["obj"]
    if o.cls == "Model":
        return o
    m = E.s0.objs[o.oid].get("attr:_model")
    return m if isinstance(m, VObj) else None


def _gc_has(E):
    m = _gc_model(E)
    if m is None:
        return z3.BoolVal(False)
    return _ctxs(E.s0, m)[0] > 0


def _gc_post(E):
    m = _gc_model(E)
    n, e = _ctxs(E.s0, m)
    return z3.And(E.res.t == e[n - 1], E.res.t != NULL) if isinstance(E.res, VRef) else z3.BoolVal(False)


def _ctx_nonnull(E, name="obj"):
    """the context stack holds HistoryManager objects (never None)"""
    m = _gc_model(Env({"obj": E[name]}, E.s0, eng=E.eng))
    if m is None:
        return TRUE()
    n, e = _ctxs(E.s0, m)
    j = qv("cj")
    return FA([j], z3.Implies(z3.And(0 <= j, j < n), e[j] != NULL), patterns=[e[j]])


def _gc_cases(pt):
    c1 = pcase_(Case("innermost_context", requires=_gc_has, ensures=_gc_post), obj=pt)
    c1.result = "ref:HistoryManager"
    c2 = pcase_(Case("no_context", requires=lambda E: z3.Not(_gc_has(E)),
                     ensures=lambda E: z3.BoolVal(isinstance(E.res, VNone))), obj=pt)
    c2.result = lambda eng, st, E: (st, NONE)
    return [c1, c2]


def pcase_(case, **over):
    case.params_override = over
    return case


_MODEL = _model_type("m")
_IN_MODEL = TObj("Reaction", {"_model": _MODEL})
_DETACHED = TObj("Reaction", {"_model": TNone()})
def _shape(tag):
    def f(a, st):
        o = a["obj"]
        if not isinstance(o, VObj):
            return False
        if tag == "model":
            return o.cls == "Model"
        m = st.objs[o.oid].get("attr:_model")
        return o.cls != "Model" and (isinstance(m, VObj) if tag == "object_in_model" else isinstance(m, VNone))
    return f


_gc_all = []
for _tag, _pt in (("model", _MODEL), ("object_in_model", _IN_MODEL), ("detached_object", _DETACHED)):
    for _c in _gc_cases(_pt):
        if _tag == "detached_object" and _c.name == "innermost_context":
            continue
        _c.name = f"{_tag}:{_c.name}"
        _c.applies = _shape(_tag)
        _gc_all.append(_c)
REG.add(Contract(M, "get_context", "C03", [("obj", _MODEL)], _gc_all, key="get_context", result=None, pre=_ctx_nonnull))


# ---------------------------------------------------------------- resettable.wrapper (generic over the wrapped setter)
def _abstract_func(st, name):
    return st, VFunc("abstract", "the_attr")


def call_abstract(eng, st, f, pos, kw):
    """the wrapped setter: recorded in the ghost trace; may return or raise"""
    if f.a != "the_attr":
        return None
    tr = st.ghost.get("trace", ())
    s2 = st.setghost("trace", tr + (("call", f.a, tuple(pos)),))
    return [("ok", s2, NONE), ("raise", s2, VExc("ValueError"))]


def call_object_hook2(eng, st, f, pos, kw):
    r = call_object_hook(eng, st, f, pos, kw)
    if r is not None:
        return r
    if isinstance(f, VRef) and f.cls == "HistoryManager":
        # HistoryManager.__call__ by its contract: the operation is appended to that manager's history (ghost trace)
        tr = st.ghost.get("trace", ())
        return [("ok", st.setghost("trace", tr + (("push", f, pos[0]),)), NONE)]
    return None


HOOKS = {"call_object": call_object_hook2, "call_abstract": call_abstract}


def _thing(model_t):
    return TObj("Reaction", {"_model": model_t, "the_attr": TInt()})


def _w_ctx(E):
    return _gc_has(Env({"obj": E["self"]}, E.s0, eng=E.eng))


def _old(E):
    return E.s0.objs[E["self"].oid]["attr:the_attr"].t


def _trace(E):
    return E.s1.ghost.get("trace", ())


def _is_call(ev, E):
    return ev[0] == "call" and len(ev[2]) == 2 and isinstance(ev[2][0], VObj) and ev[2][0].oid == E["self"].oid \
        and isinstance(ev[2][1], VInt) and ev[2][1].t.eq(E["new_value"].t)


def _w_post_plain(E):
    tr = _trace(E)
    return z3.BoolVal(len(tr) == 1 and _is_call(tr[0], E))


def _w_post_same(E):
    return z3.BoolVal(len(_trace(E)) == 0)


def _w_post_push(E):
    tr = _trace(E)
    if not (len(tr) == 2 and tr[0][0] == "push" and _is_call(tr[1], E)):
        return z3.BoolVal(False)
    _, ctx, entry = tr[0]
    m = _gc_model(Env({"obj": E["self"]}, E.s0, eng=E.eng))
    n, e = _ctxs(E.s0, m)
    ok_shape = (isinstance(entry, VFunc) and entry.kind == "partial" and isinstance(entry.a, VFunc) and entry.a.kind == "abstract"
                and len(entry.b) == 2 and isinstance(entry.b[0], VObj) and entry.b[0].oid == E["self"].oid
                and isinstance(entry.b[1], VInt))
    if not ok_shape:
        return z3.BoolVal(False)
    # registered in the innermost context, capturing the OLD value, before the setter runs
    return z3.And(ctx.t == e[n - 1], entry.b[1].t == _old(E))


def _wcases(tag, model_t, has_ctx):
    out = []
    P = dict(self=_thing(model_t))

    def mk(name, req, ens):
        c = pcase_(Case(f"{tag}:{name}", requires=req, ensures=ens), **P)
        c.may_raise = "ValueError"      # the wrapped setter may raise; the same trace postcondition holds then
        return c
    if not has_ctx:
        out.append(mk("no_context", lambda E: z3.Not(_w_ctx(E)), _w_post_plain))
    else:
        c = pcase_(Case(f"{tag}:unchanged_value", requires=lambda E: z3.And(_w_ctx(E), _old(E) == E["new_value"].t),
                        ensures=_w_post_same), **P)
        out.append(c)
        out.append(mk("changed_value", lambda E: z3.And(_w_ctx(E), _old(E) != E["new_value"].t), _w_post_push))
    return out


_wc = _wcases("detached", TNone(), False) + _wcases("in_model", _MODEL, False) + _wcases("in_model", _MODEL, True)
REG.add(Contract(M, "resettable.wrapper", "C03",
                 [("self", _thing(TNone())), ("new_value", TInt()), ("func", TCustom(_abstract_func))], _wc,
                 key="resettable.wrapper", modifies=lambda E: [("ghost", "trace", lambda st: ())],
                 pre=lambda E: _ctx_nonnull(E, "self")))


# ================================================================ Model.__enter__ / Model.__exit__
MMOD = "cobra/core/model.py"
REG.fields.update({"hm_len": "int", "hm_hist": "seqref"})


def hm_len(E, st):
    return E.eng.heap_arr(st, "hm_len")


def hm_hist(E, st):
    return E.eng.heap_arr(st, "hm_hist")


def _new_manager(eng, st, E):
    return st, VRef(fresh("manager", Ref), "HistoryManager")


def _hm_init_post(E):
    """allocation: a new manager is a new object (not on the stack) with an empty history"""
    h = E["self"].t
    return z3.And(h != NULL, hm_len(E, E.s1)[h] == 0,
                  FA([x := qv("hx", Ref)], z3.Implies(x != h, hm_len(E, E.s1)[x] == hm_len(E, E.s0)[x])),
                  z3.BoolVal(True))


REG.add(Contract(M, "HistoryManager.__init__", "C03", [("self", TRef("HistoryManager"))], [Case("new", ensures=_hm_init_post)],
                 assumed=True, key="HistoryManager.__init__", result=_new_manager, modifies=lambda E: [("heap", "hm_len")],
                 note="object allocation: the new HistoryManager is a fresh object with an empty history"))

MODELC = ("self", TObj("Model", {"_contexts": TList("ref:HistoryManager")}))


def _stack(st, m):
    return _ctxs(st, m)


def _enter_post(E):
    n0, e0 = _stack(E.s0, E["self"])
    n1, e1 = _stack(E.s1, E["self"])
    j = qv("ej")
    top = e1[n0]
    return z3.And(z3.BoolVal(isinstance(E.res, VObj) and E.res.oid == E["self"].oid),
                  n1 == n0 + 1, FA([j], z3.Implies(z3.And(0 <= j, j < n0), e1[j] == e0[j]), patterns=[e1[j]]),
                  top != NULL, hm_len(E, E.s1)[top] == 0, world(E.s1) == world(E.s0))


def _stack_loc(E):
    return [("list", E.s0.objs[E["self"].oid]["attr:_contexts"]), ("heap", "hm_len")]


REG.add(Contract(MMOD, "Model.__enter__", "C03", [MODELC], [Case("push_new_context", ensures=_enter_post)],
                 modifies=_stack_loc, key="Model.__enter__", result="self"))


def reset_on_ref(eng, st, recv, name, pos, kw):
    """HistoryManager.reset on a manager taken from the stack, by the contract proved above (world := run(history), history
    emptied).  Obligation: while the undo functions run, the model's context stack is EMPTY, so that a context-aware undo function
    cannot record itself in an enclosing context."""
    if isinstance(recv, VRef) and recv.cls == "HistoryManager" and name == "reset":
        m = eng.entry_args["self"]
        n_now, _ = _ctxs(st, m)
        eng.oblige(st, n_now == 0, "exit/context-stack-hidden-while-undoing", kind="side")
        ln, hs = eng.heap_arr(st, "hm_len"), eng.heap_arr(st, "hm_hist")
        w1 = run(hs[recv.t], ln[recv.t], world(st))
        st2 = st.setghost("world", w1).setheap("hm_len", z3.Store(ln, recv.t, z3.IntVal(0)))
        return [("ok", st2, NONE)]
    return None


HOOKS_EXIT = dict(HOOKS, call_method=reset_on_ref)


def _exit_post(E):
    n0, e0 = _stack(E.s0, E["self"])
    n1, e1 = _stack(E.s1, E["self"])
    top = e0[n0 - 1]
    j, x = qv("xj"), qv("xx", Ref)
    return z3.And(n1 == n0 - 1, FA([j], z3.Implies(z3.And(0 <= j, j < n0 - 1), e1[j] == e0[j]), patterns=[e1[j]]),
                  world(E.s1) == run(hm_hist(E, E.s0)[top], hm_len(E, E.s0)[top], world(E.s0)),
                  hm_len(E, E.s1)[top] == 0,
                  FA([x], z3.Implies(x != top, hm_len(E, E.s1)[x] == hm_len(E, E.s0)[x])))


def _exit_mod(E):
    return [("attr", E["self"], "_contexts", lambda st: alloc_list(st, "ref:HistoryManager")), ("heap", "hm_len"),
            ("ghost", "world", lambda st: fresh("world", World))]


_x = [("self", MODELC[1]), ("type", TNone()), ("value", TNone()), ("traceback", TNone())]
REG.add(Contract(MMOD, "Model.__exit__", "C03", _x, [
    Case("innermost_context", requires=lambda E: _stack(E.s0, E["self"])[0] > 0, ensures=_exit_post),
    Case("no_context", requires=lambda E: _stack(E.s0, E["self"])[0] <= 0, raises="IndexError"),
], modifies=_exit_mod, key="Model.__exit__", axioms=lambda E: run_axioms()))


# ================================================================ add / remove constraints and variables (util/solver.py)
MSOLV = "cobra/util/solver.py"


def _model_with_solver():
    return TObj("Model", {"_contexts": TList("ref:HistoryManager"), "_solver": TObj("Solver", {})})


def solver_call_hook(eng, st, recv, name, pos, kw):
    """optlang solver.add / solver.remove: recorded in the ghost trace (assumed: remove(what) is the inverse of add(what))"""
    if isinstance(recv, VObj) and recv.cls == "Solver" and name in ("add", "remove"):
        tr = st.ghost.get("trace", ())
        return [("ok", st.setghost("trace", tr + ((name, tuple(pos), tuple(sorted(kw))),)), NONE)]
    return None


HOOKS_CONS = dict(HOOKS, call_method=solver_call_hook)
REG.inline.add("Model.solver@getter")
REG.external_classes = getattr(REG, "external_classes", set()) | {"Solver"}


def _cv_ctx(E):
    return _gc_has(Env({"obj": E["model"]}, E.s0, eng=E.eng))


def _cv_post(do, undo, with_ctx):
    def post(E):
        tr = _trace(E)
        what = E["what"]
        if with_ctx:
            if len(tr) != 2:
                return z3.BoolVal(False)
            first, second = tr
            n, e = _ctxs(E.s0, E["model"])
            ok = (first[0] == do and len(first[1]) == 1 and first[1][0] is what and second[0] == "push"
                  and isinstance(second[2], VFunc) and second[2].kind == "partial"
                  and isinstance(second[2].a, VFunc) and second[2].a.kind == "bound" and second[2].a.b == undo
                  and isinstance(second[2].a.a, VObj) and second[2].a.a.cls == "Solver"
                  and len(second[2].b) == 1 and second[2].b[0] is what)
            return z3.And(z3.BoolVal(bool(ok)), second[1].t == e[n - 1]) if ok else z3.BoolVal(False)
        ok = len(tr) == 1 and tr[0][0] == do and len(tr[0][1]) == 1 and tr[0][1][0] is what
        return z3.BoolVal(bool(ok))
    return post


for _fn, _do, _undo in (("add_cons_vars_to_problem", "add", "remove"), ("remove_cons_vars_from_problem", "remove", "add")):
    REG.add(Contract(MSOLV, _fn, "C03", [("model", _model_with_solver()), ("what", TRef("Undo")), ("**kwargs", TConc({"__kwargs__": True}))], [
        Case("no_context", requires=lambda E: z3.Not(_cv_ctx(E)), ensures=_cv_post(_do, _undo, False)),
        Case("in_context", requires=_cv_ctx, ensures=_cv_post(_do, _undo, True)),
    ], pre=lambda E: _ctx_nonnull(Env({"obj": E["model"]}, E.s0, eng=E.eng)), key=_fn,
        modifies=lambda E: [("ghost", "trace", lambda st: ())],
        note="`what` is ONE abstract object (for add_cons_vars_to_problem a constraint or a variable - the function does not "
             "distinguish; for remove_cons_vars_from_problem see the note set below): performs the solver call and, in a context, "
             "registers exactly the inverse solver call in the innermost context. Lists / tuples / sets in `what` are outside the "
             "contract (bounded driver only)"))


# ================================================================ removed VARIABLES: column bookkeeping (restore_columns)
# Ghost model of the optlang solver (ASSUMED - optlang is external; see the notes of the contracts below):
#   A : Constraint -> Variable -> Real   the coefficient matrix (ghost "A"): A[c][v] is what c.get_linear_coefficients([v])[v] reads
#                                        and what c.set_linear_coefficients({v: x}) writes; nothing else in the two functions under
#                                        contract reads or writes it (solver.add / solver.remove / solver.update are recorded in the
#                                        ghost trace only, their effect on A is an assumption of the glue lemma)
#   cname : Constraint -> Id             the name of a constraint (does not change)
#   var_problem : Variable -> Ref        the solver a variable belongs to (`variable.problem`)
#   solver.constraints                   an optlang Container: a sequence of constraints that is also keyed by their names;
#                                        `name in container` <=> some member has that name, `container[name]` is such a member
from pyvc import builtins as _B  # noqa
from pyvc.state import alloc_dict  # noqa

CoefRow = z3.ArraySort(Ref, z3.RealSort())
CoefMat = z3.ArraySort(Ref, CoefRow)
cname = z3.Function("cname", Ref, Id)
var_problem = z3.Function("var_problem", Ref, Ref)
A_ENTRY = z3.Const("A_entry", CoefMat)
REG.classes.setdefault("Variable", [])
REG.classes.setdefault("Constraint", [])
REG.classes.setdefault("Container", [])


def coef(st):
    return st.ghost.get("A", A_ENTRY)


def _lp_model():
    return TObj("Model", {"_contexts": TList("ref:HistoryManager"),
                          "_solver": TObj("Solver", {"constraints": TList("ref:Constraint", cls="Container")})})


def _solver_obj(st, model):
    return st.objs[model.oid]["attr:_solver"]


def _cons(st, model):
    """(length, elements) of the constraints container of the model's solver"""
    rec = st.objs[st.objs[_solver_obj(st, model).oid]["attr:constraints"].oid]
    return rec["len"], rec["elem"]


def _entry_solver(eng, st):
    m = (getattr(eng, "entry_args", None) or {}).get("model")
    if isinstance(m, VObj) and m.kind == "obj":
        s = st.objs[m.oid].get("attr:_solver")
        if isinstance(s, VObj) and isinstance(st.objs[s.oid].get("attr:constraints"), VObj):
            return s
    return None


def lp_getattr_hook(eng, st, v, name):
    if isinstance(v, VRef) and v.cls == "Variable" and name == "problem":
        sol = _entry_solver(eng, st)
        if sol is None:
            return None
        # `variable.problem`: the model's solver object itself, or something else (another solver, None)
        return [("ok", s2, sol if yes else VRef(var_problem(v.t), "Solver"))
                for yes, s2 in eng.branch(st, var_problem(v.t) == ident_of(sol.oid))]
    if isinstance(v, VRef) and v.cls == "Constraint":
        if name == "name":
            return [("ok", st, VStr(cname(v.t)))]
        if name in ("get_linear_coefficients", "set_linear_coefficients"):
            return [("ok", st, VFunc("bound", v, name))]
    return None


def lp_call_hook(eng, st, recv, name, pos, kw):
    """ASSUMED contracts of optlang (documented behaviour of optlang.interface.Constraint / Container / Model.update)"""
    if isinstance(recv, VRef) and recv.cls == "Constraint" and len(pos) == 1 and not kw:
        if name == "get_linear_coefficients":
            # -> {v: A[self][v] for v in variables}; reads only
            seq = _B.to_seq(eng, st, pos[0])
            if seq is None or seq.known_len is None:
                raise Unsupported("get_linear_coefficients of a symbolic collection of variables")
            row = coef(st)[recv.t]
            dom, val = z3.K(Ref, z3.BoolVal(False)), z3.K(Ref, z3.RealVal(0))
            for k in range(seq.known_len):
                u = unwrap(seq.get(st, z3.IntVal(k)), "ref")
                dom, val = z3.Store(dom, u, z3.BoolVal(True)), z3.Store(val, u, row[u])
            st2, d = alloc_dict(st, "ref:Variable", "real", dom=dom, val=val)
            return [("ok", st2, d)]
        if name == "set_linear_coefficients":
            # for every variable of the dictionary the coefficient in THIS constraint becomes the given value; no other
            # coefficient of the matrix changes
            d = pos[0]
            rec = st.objs[d.oid] if isinstance(d, VObj) and d.kind == "dict" else None
            if rec is None or rec.get("lazy") or rec.get("pure") or not rec["kkind"].startswith("ref"):
                raise Unsupported("set_linear_coefficients needs a {variable: number} dictionary")
            a0 = coef(st)
            row1, u = fresh("row", CoefRow), qv("su", Ref)
            newv = z3.Select(rec["val"], u)
            newv = z3.ToReal(newv) if rec["vkind"] == "int" else newv
            ax = FA([u], row1[u] == z3.If(z3.Select(rec["dom"], u), newv, a0[recv.t][u]), patterns=[row1[u]])
            return [("ok", st.assume(ax).setghost("A", z3.Store(a0, recv.t, row1)), NONE)]
    if isinstance(recv, VObj) and recv.cls == "Container" and name in ("__contains__", "__getitem__") and len(pos) == 1:
        rec = st.objs[recv.oid]
        n, e = rec["len"], rec["elem"]
        if isinstance(pos[0], VInt) and name == "__getitem__":
            return [("ok", s2, VRef(e[norm(pos[0].t, n)], "Constraint")) if ok else eng.raise_(s2, "IndexError")
                    for ok, s2 in eng.branch(st, z3.And(-n <= pos[0].t, pos[0].t < n))]
        if not isinstance(pos[0], (VStr, VConc)):
            return None
        k = unwrap(pos[0], "id")
        b, w, j = fresh("has_name", z3.BoolSort()), fresh("at_name", I), qv("hj")
        st2 = st.assume(FA([j], z3.Implies(z3.And(0 <= j, j < n, cname(e[j]) == k), b), patterns=[cname(e[j])]),
                        z3.Implies(b, z3.And(0 <= w, w < n, cname(e[w]) == k)))
        if name == "__contains__":
            return [("ok", st2, VBool(b))]
        return [("ok", s3, VRef(e[w], "Constraint")) if yes else eng.raise_(s3, "KeyError") for yes, s3 in eng.branch(st2, b)]
    if isinstance(recv, VObj) and recv.cls == "Solver" and name == "update" and not pos and not kw \
            and isinstance(st.objs[recv.oid].get("attr:constraints"), VObj):
        # Model.update(): flushes pending additions / removals; recorded in the ghost trace, no coefficient is written
        tr = st.ghost.get("trace", ())
        return [("ok", st.setghost("trace", tr + (("update", (), ()),)), NONE)]
    return None


def dict_truth_hook(eng, st, v):
    """`if d:` for a dictionary kept as (dom, val) arrays without a cardinality: true iff it has a key"""
    if isinstance(v, VObj) and v.kind == "dict":
        rec = st.objs[v.oid]
        if rec.get("lazy"):
            return False
        if rec.get("pure") or "card" in rec:
            return None
        k = qv("tk", rec["dom"].sort().domain())
        return z3.Exists([k], z3.Select(rec["dom"], k))
    return None


HOOKS_LP = {"getattr": lp_getattr_hook, "call_method": lp_call_hook, "truth": dict_truth_hook}


# ---------------------------------------------------------------- spec functions shared by (b), (c) and the glue lemma (d)
def names_unique(n, e):
    """optlang Container: the members have pairwise different names"""
    j1, j2 = qv("u1"), qv("u2")
    return FA([j1, j2], z3.Implies(z3.And(0 <= j1, j1 < n, 0 <= j2, j2 < n, cname(e[j1]) == cname(e[j2])), j1 == j2),
              patterns=[z3.MultiPattern(cname(e[j1]), cname(e[j2]))])


def column_recorded(dom, val, a, n, e, v, upto):
    """(dom, val) is exactly { name of c -> a[c][v] | c one of the first `upto` constraints of (n, e), a[c][v] != 0 }"""
    j, nm, w = qv("cj"), qv("cn", Id), qv("cw")
    return z3.And(
        FA([j], z3.Implies(z3.And(0 <= j, j < upto, a[e[j]][v] != 0),
                           z3.And(z3.Select(dom, cname(e[j])), z3.Select(val, cname(e[j])) == a[e[j]][v])), patterns=[e[j]]),
        FA([nm], z3.Implies(z3.Select(dom, nm),
                            z3.Exists([w], z3.And(0 <= w, w < upto, cname(e[w]) == nm, a[e[w]][v] != 0), patterns=[e[w]])),
           patterns=[z3.Select(dom, nm)]))


def _written(entries, n, e, c, u, done=None):
    """(c, u) is a cell restore_columns writes: u a recorded variable, c a CURRENT constraint whose name is recorded for u"""
    w = qv("rw")
    alts = []
    for v, dom, val in entries:
        rec_ = z3.Select(dom, cname(c)) if done is None else done(cname(c))
        alts.append(z3.And(u == v, rec_, z3.Exists([w], z3.And(0 <= w, w < n, e[w] == c), patterns=[e[w]])))
    return z3.Or(*alts) if alts else z3.BoolVal(False)


def restore_spec(entries, a0, a1, n, e):
    """entries = [(variable, dom, val)]: for every recorded variable and every recorded (name -> x) such that a constraint of that
    name exists in the CURRENT container (n, e), the coefficient of the variable in that constraint is x afterwards (a1);
    no other cell of the matrix differs from before (a0)"""
    j, c, u = qv("rj"), qv("rc", Ref), qv("ru", Ref)
    cs = [FA([j], z3.Implies(z3.And(0 <= j, j < n, z3.Select(dom, cname(e[j]))), a1[e[j]][v] == z3.Select(val, cname(e[j]))),
             patterns=[e[j]]) for v, dom, val in entries]
    cs.append(FA([c, u], z3.Implies(a1[c][u] != a0[c][u], _written(entries, n, e, c, u)), patterns=[a1[c][u]]))
    return z3.And(*cs)


def _col_arrays(st, col):
    rec = st.objs[col.oid]
    if rec.get("lazy"):
        return z3.K(Id, z3.BoolVal(False)), z3.K(Id, z3.RealVal(0))
    return rec["dom"], rec["val"]


# ---------------------------------------------------------------- (a), (b): remove_cons_vars_from_problem, `what` ONE Variable
def _own(E):
    return var_problem(E["what"].t) == ident_of(_solver_obj(E.s0, E["model"]).oid)


def _rm_inv(E, Lc):
    """loop over solver.constraints: the column recorded so far is the one of the constraints visited so far"""
    n, e = _cons(E.s0, E["model"])
    dom, val = _col_arrays(Lc.st, Lc.var("column"))
    return z3.And(column_recorded(dom, val, coef(E.s0), n, e, E["what"].t, Lc.i), z3.BoolVal(coef(Lc.st).eq(coef(E.s0))))


def _is_solver_call(ev, name, what):
    return ev[0] == name and len(ev[1]) == 1 and ev[1][0] is what and ev[2] == ()


def _is_push_inverse(ev, E, name):
    """ev pushes partial(<the model's solver>.<name>, what)"""
    f = ev[2] if ev[0] == "push" else None
    return (isinstance(f, VFunc) and f.kind == "partial" and isinstance(f.a, VFunc) and f.a.kind == "bound" and f.a.b == name
            and isinstance(f.a.a, VObj) and f.a.a.oid == _solver_obj(E.s0, E["model"]).oid and len(f.b) == 1
            and f.b[0] is E["what"] and not f.c)


def _rm_var_post(E):
    tr, what, model = _trace(E), E["what"], E["model"]
    nc, ec = _ctxs(E.s0, model)
    n, e = _cons(E.s0, model)
    a0, v = coef(E.s0), what.t
    same_a = z3.BoolVal(coef(E.s1).eq(a0))
    j = qv("pj")
    if len(tr) == 2:
        # nothing to restore: the variable occurs in no constraint; [remove(what), push partial(solver.add, what)]
        ok = _is_solver_call(tr[0], "remove", what) and _is_push_inverse(tr[1], E, "add")
        if not ok:
            return z3.BoolVal(False)
        return z3.And(tr[1][1].t == ec[nc - 1], FA([j], z3.Implies(z3.And(0 <= j, j < n), a0[e[j]][v] == 0), patterns=[e[j]]), same_a)
    if len(tr) == 3:
        # [push restore_columns, remove(what), push partial(solver.add, what)]: restore_columns is recorded first = runs last
        f = tr[0][2] if tr[0][0] == "push" else None
        ok = (isinstance(f, VFunc) and f.kind == "closure" and getattr(f.a, "name", None) == "restore_columns"
              and _is_solver_call(tr[1], "remove", what) and _is_push_inverse(tr[2], E, "add"))
        if not ok:
            return z3.BoolVal(False)
        # what the registered closure will see: its free variables `model` and `columns`
        mdl, cols = E.s1.lookup(f.b, "model"), E.s1.lookup(f.b, "columns")
        items = E.s1.objs[cols.oid].get("items") if isinstance(cols, VObj) else None
        ok = (isinstance(mdl, VObj) and mdl.oid == model.oid and items is not None and len(items) == 1
              and isinstance(items[0], VTuple) and len(items[0].items) == 2 and isinstance(items[0].items[0], VRef)
              and isinstance(items[0].items[1], VObj) and items[0].items[1].kind == "dict")
        if not ok:
            return z3.BoolVal(False)
        var, col = items[0].items
        dom, val = _col_arrays(E.s1, col)
        w = qv("pw")
        return z3.And(tr[0][1].t == ec[nc - 1], tr[2][1].t == ec[nc - 1], var.t == v,
                      column_recorded(dom, val, a0, n, e, v, n),
                      z3.Exists([w], z3.And(0 <= w, w < n, a0[e[w]][v] != 0), patterns=[e[w]]), same_a)
    return z3.BoolVal(False)


def _rm_plain_post(with_ctx):
    base = _cv_post("remove", "add", with_ctx)
    return lambda E: z3.And(base(E), z3.BoolVal(coef(E.s1).eq(coef(E.s0))))


def _is_var(a, st):
    return isinstance(a.get("what"), VRef) and a["what"].cls == "Variable"


_rm = REG.get("remove_cons_vars_from_problem")
_rm.params = [("model", _lp_model()), ("what", TRef("Undo"))]
for _c in _rm.cases:
    _c.applies = lambda a, st: not _is_var(a, st)
_VAR = dict(what=TRef("Variable"))
for _c in (Case("variable:no_context", requires=lambda E: z3.Not(_cv_ctx(E)), ensures=_rm_plain_post(False)),
           Case("variable:in_context:of_another_solver", requires=lambda E: z3.And(_cv_ctx(E), z3.Not(_own(E))),
                ensures=_rm_plain_post(True)),
           Case("variable:in_context:of_this_solver", requires=lambda E: z3.And(_cv_ctx(E), _own(E)), ensures=_rm_var_post)):
    _c.applies = _is_var
    _rm.cases.append(pcase_(_c, **_VAR))
_rm.pre = lambda E: z3.And(_ctx_nonnull(Env({"obj": E["model"]}, E.s0, eng=E.eng)), names_unique(*_cons(E.s0, E["model"])))
_rm.loops = {1: LoopSpec(_rm_inv, lambda E, Lc: [("dict", Lc.var("column"), "id", "real")])}
_rm.note = (
    "`what` is ONE object: (i) not an optlang Variable (a constraint), or a Variable of another solver: the solver call remove(what) "
    "and, in a context, exactly partial(solver.add, what) registered in the innermost context; (ii) a Variable of the model's solver, "
    "in a context: additionally, BEFORE the removal, the closure restore_columns is registered iff the variable has a non-zero "
    "coefficient in some constraint, and the `columns` it captures is [(what, {name of c -> A[c][what] | c in solver.constraints at "
    "entry, A[c][what] != 0})] (loop invariant over solver.constraints). ASSUMED (optlang, external): the ghost matrix A is what "
    "Constraint.get_linear_coefficients reads; constraint names are pairwise different within a solver (precondition); "
    "`variable.problem is solver` decides membership. Lists / tuples / sets of several objects in `what` are OUTSIDE the contract "
    "(the engine keeps lists of (object, dict) tuples only with a concrete length): bounded driver only")


# ---------------------------------------------------------------- (c): the nested undo function restore_columns
def _columns_t(k):
    """closure variable `columns`: a list of k (Variable, {name -> coefficient}) tuples"""
    def mk(st, name):
        items = []
        for i in range(k):
            st, var = TRef("Variable").make(st, f"{name}_var{i}")
            st, col = alloc_dict(st, "id", "real", base=f"{name}_col{i}")
            items.append(VTuple((var, col)))
        st, o = alloc_obj(st, "pylist", {"items": tuple(items)})
        return st, VObj(o.oid, "pylist", "list")
    return TCustom(mk)


def _entries(E, st=None):
    st = st or E.s0
    out = []
    for t in st.objs[E["columns"].oid]["items"]:
        var, col = t.items
        out.append((var.t, st.objs[col.oid]["dom"], st.objs[col.oid]["val"]))
    return out


def _rc_inv(E, Lc):
    """inner loop over column.items() (ghost enumeration order/pos of the dictionary): the names enumerated so far that exist in
    the current solver are written for this variable, nothing else has changed since the loop was entered"""
    st, i = Lc.st, Lc.i
    v, col = Lc.var("variable").t, Lc.var("column")
    rec = st.objs[col.oid]
    dom, val = rec["dom"], rec["val"]
    order, pos, card = st.ghost[("order", col.oid, dom.get_id())]
    n, e = _cons(E.s0, E["model"])
    a_in, a_cur = coef(Lc.entry), coef(st)
    j, c, u = qv("ij"), qv("ic", Ref), qv("iu", Ref)
    done = lambda nm: z3.And(z3.Select(dom, nm), pos[nm] < i)  # noqa
    return z3.And(
        FA([j], z3.Implies(z3.And(0 <= j, j < n, done(cname(e[j]))), a_cur[e[j]][v] == z3.Select(val, cname(e[j]))), patterns=[e[j]]),
        FA([c, u], z3.Implies(a_cur[c][u] != a_in[c][u], _written([(v, dom, val)], n, e, c, u, done)), patterns=[a_cur[c][u]]))


def _rc_post(E):
    n, e = _cons(E.s0, E["model"])
    same_cols = all(E.s1.objs[t.items[1].oid] is E.s0.objs[t.items[1].oid] for t in E.s0.objs[E["columns"].oid]["items"]) \
        and E.s1.objs[E["columns"].oid] is E.s0.objs[E["columns"].oid]
    tr = _trace(E)
    return z3.And(restore_spec(_entries(E), coef(E.s0), coef(E.s1), n, e),
                  z3.BoolVal(bool(same_cols)),                                   # the recorded columns are only read
                  z3.BoolVal(len(tr) == 1 and tr[0] == ("update", (), ())))      # the only solver call: current.update()


def _rc_distinct(E):
    vs = [v for v, _, _ in _entries(E)]
    return z3.Distinct(*vs) if len(vs) > 1 else z3.BoolVal(True)


REG.add(Contract(MSOLV, "remove_cons_vars_from_problem.restore_columns", "C03", [], [
    pcase_(Case("no_column", ensures=_rc_post), columns=_columns_t(0)),
    pcase_(Case("one_column", ensures=_rc_post), columns=_columns_t(1)),
    pcase_(Case("two_columns", requires=_rc_distinct, ensures=_rc_post), columns=_columns_t(2)),
], closure=[("model", _lp_model()), ("columns", _columns_t(1))],
    pre=lambda E: names_unique(*_cons(E.s0, E["model"])),
    modifies=lambda E: [("ghost", "trace", lambda st: ()), ("ghost", "A", lambda st: fresh("A", CoefMat))],
    loops={1: LoopSpec(_rc_inv, lambda E, Lc: [("ghost", "A", lambda st: fresh("A", CoefMat))])},
    key="remove_cons_vars_from_problem.restore_columns",
    note="nested undo function, verified with its free variables `model` and `columns` as closure parameters; `columns` holds 0, 1 "
         "or 2 (variable, {name -> coefficient}) tuples with different variables (the engine keeps such lists only with a concrete "
         "length; remove_cons_vars_from_problem under its contract registers it with exactly 1). Proved: for every recorded variable "
         "and every recorded name for which the CURRENT solver (model.solver at the time of the call) has a constraint, the "
         "coefficient of the variable in that constraint is set to the recorded value; no other cell of the coefficient matrix "
         "changes; the recorded columns and the constraint container are only read; the only other solver call is update(). "
         "ASSUMED (optlang, external): Constraint.set_linear_coefficients({v: x}) writes exactly A[self][v] := x; the Container is "
         "keyed by pairwise different constraint names (precondition); Model.update() writes no coefficient"))


# ---------------------------------------------------------------- (d): glue lemma over (b), (c) and the assumed optlang contracts
def lemmas():
    """Leaving the context runs the history of (b) last-in-first-out: partial(solver.add, v) first, then restore_columns.
    ASSUMED about optlang: a variable that has just been added (again) has coefficient 0 in every constraint (`Adding a variable
    again does not bring back its column`); constraints keep their names.  Then, whatever happened in between, every constraint
    that existed at the removal and still exists has its entry-time coefficient for v again, and restore_columns touches no other
    variable's coefficients."""
    from pyvc.engine import Obl
    v = z3.Const("g_v", Ref)
    n0, e0 = z3.Int("g_n0"), z3.Const("g_e0", SeqRef)           # solver.constraints when the variable is removed
    n1, e1 = z3.Int("g_n1"), z3.Const("g_e1", SeqRef)           # ... when the undo functions run
    a0, a2, a3 = (z3.Const(f"g_A{k}", CoefMat) for k in (0, 2, 3))   # at the removal / after the undo solver.add(v) / after restore
    dom, val = z3.Const("g_dom", z3.ArraySort(Id, z3.BoolSort())), z3.Const("g_val", z3.ArraySort(Id, z3.RealSort()))
    c, u, i, j = z3.Const("g_c", Ref), z3.Const("g_u", Ref), z3.Int("g_i"), z3.Int("g_j")
    added = z3.ForAll([c], a2[c][v] == 0, patterns=[a2[c][v]])
    common = [n0 >= 0, n1 >= 0, names_unique(n0, e0), names_unique(n1, e1), added]
    still = z3.And(0 <= i, i < n0, 0 <= j, j < n1, e1[j] == e0[i])
    goal = z3.And(z3.ForAll([i, j], z3.Implies(still, a3[e0[i]][v] == a0[e0[i]][v]), patterns=[z3.MultiPattern(e0[i], e1[j])]),
                  z3.ForAll([c, u], z3.Implies(u != v, a3[c][u] == a2[c][u]), patterns=[a3[c][u]]))
    some, none_ = z3.Int("g_w"), z3.Int("g_k")
    return [
        Obl("C03/lemma/remove-variable/undo-restores-column", common + [
            column_recorded(dom, val, a0, n0, e0, v, n0),                       # (b): what restore_columns captured
            restore_spec([(v, dom, val)], a2, a3, n1, e1)], goal, "lemma"),     # (c): what restore_columns does
        Obl("C03/lemma/remove-variable/empty-column-needs-no-restore", common + [
            z3.ForAll([none_], z3.Implies(z3.And(0 <= none_, none_ < n0), a0[e0[none_]][v] == 0), patterns=[e0[none_]]),   # (b), 2-event trace
            a3 == a2], goal, "lemma")]


ALL_HOOKS = chain_hooks(HOOKS, {"call_method": reset_on_ref}, {"call_method": solver_call_hook}, HOOKS_LP)
