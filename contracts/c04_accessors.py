"""C04 — the per-object solution accessors Reaction.flux, Reaction.reduced_cost, Metabolite.shadow_price.

Keys (hook table HOOKS): "Reaction.flux@getter", "Reaction.reduced_cost@getter", "Metabolite.shadow_price@getter"  (wired into C04),
and the demonstration keys "<...>@getter:documented" (NOT wired: the full documented exception table, which the code does not satisfy).

Views: the reaction's / metabolite's model pointer `_model` (NULL: detached), the model's solver `_solver`, the solver's status
(ghost: lp_status_none(solver) / lp_status(solver)), fwd(r) / rev(r) the reaction's variables (the PROVED getters of
contracts/c01_lp.py are applied at the call sites), heap fields lp_primal / lp_dual of solver objects (finite numbers: precondition),
con_at(container, name) the constraint registered under a name.

PROVED (documentation of the three properties, `Raises` sections included), for every status for which documentation and code agree:
  * an object without a model: RuntimeError (nothing else: the AttributeError of `None.solver` is translated);
  * status 'optimal': flux = primal(forward variable) - primal(reverse variable); reduced_cost = dual(forward variable) (the
    statement's c_r - sum_m S_mr pi_m, see contracts/c04_solution.py); shadow_price = dual(the constraint registered under the
    metabolite's id) (precondition: one is registered - C01);
  * Reaction.flux / reduced_cost, a status that is neither 'optimal' nor one of the six "has primals" statuses (e.g. 'unbounded',
    'undefined'): OptimizationError (check_solver_status by its proved contract, re-raised unchanged by the handler);
  * nothing is written on any path (frame).
STATED PRECONDITION (where documentation and code DISAGREE - three findings, each reproduced natively, see the agent report):
  (F-a) status None (model never optimized): documented RuntimeError, the code raises OptimizationError (flux, reduced_cost);
  (F-b) a "has primals" status (numeric, feasible, infeasible, suboptimal, iteration_limit, time_limit): documented OptimizationError
        ("anything other than 'optimal'"), the code only warns and RETURNS the stale number (flux of an infeasible textbook model:
        10.000000000000002);
  (F-c) Metabolite.shadow_price with any status for which check_solver_status raises (None, 'unbounded', ...): the handler does
        `raise err.with_traceback()` without the mandatory argument -> TypeError instead of the documented OptimizationError /
        RuntimeError.
  (F-c) was REPAIRED in /repo (`raise err`; recorded in known_findings.jsonl): shadow_price now has the case raising_status too.
  The wired contracts exclude exactly the inputs of (F-a), (F-b) by `pre` (status not None and not a has-primals status); the `:documented` keys state the documented table without precondition and do NOT verify
  (.venv/bin/python tools/run_contract.py contracts.c04_accessors --hooks HOOKS "Reaction.flux@getter:documented" ...).
ASSUMED leaves (optlang): `variable.primal`, `variable.dual`, `constraint.dual` read a number (heap fields lp_primal / lp_dual; no
exception modelled), `solver.status` is None or a string, `solver.constraints[name]` as `Container.__getitem__` (con_at);
BaseException.with_traceback() without argument raises TypeError (CPython).

Mutation trials (tools/mutate_and_run.sh ... contracts.c04_accessors --hooks HOOKS <key>), each NOT verified:
  reaction.py `self.forward_variable.primal - self.reverse_variable.primal` -> `+`                 flux: optimal post sat
  reaction.py `return self.forward_variable.dual` -> `return self.reverse_variable.dual`             reduced_cost: optimal post sat
  reaction.py first `check_solver_status(self._model.solver.status)` -> `pass`                      flux: raising_status expected-OptimizationError
  reaction.py first `except AttributeError:\n            raise RuntimeError(` -> `raise OptimizationError(`   flux: detached expected-RuntimeError
  metabolite.py `self._model.constraints[self.id].dual` -> `.primal`                                 shadow_price: unsupported (undecided)
  metabolite.py `check_solver_status(self._model.solver.status)` -> `check_solver_status(None)`      shadow_price: optimal unexpected-exception
"""
import z3
import cobra  # noqa
from .common import *  # noqa
from . import c01_lp as C1
from . import c04_status as C4
from pyvc.values import VReal, VExc, VFunc, Unsupported, id_lit, unwrap

MR, MMET = "cobra/core/reaction.py", "cobra/core/metabolite.py"
REG.fields.update({"lp_primal": "real", "lp_dual": "real", "_model": "ref:Model", "_solver": "ref:LPSolver"})
for _c in ("LPSolver", "ConContainer", "Constraint", "Variable"):
    REG.classes.setdefault(_c, [])
REG.classes.setdefault("Metabolite", ["Object"])
REG.inline.update({"Model.constraints@getter", "Model.solver@getter"})
status_none = z3.Function("lp_status_none", Ref, z3.BoolSort())
status_str = z3.Function("lp_status", Ref, Id)
lp_cons = z3.Function("lp_constraints_of", Ref, Ref)
con_at = z3.Function("lp_con_registered", Ref, Id, Ref)

_gc = Case("present", requires=lambda E: con_at(E["self"].t, unwrap(E["name"], "id")) != NULL)
_gc.result = lambda eng, st, E: (st, VRef(con_at(E["self"].t, unwrap(E["name"], "id")), "Constraint"))
REG.add(Contract("optlang/container.py", "Container.__getitem__", "C04", [("self", TRef("ConContainer")), ("name", TStr())], [
    _gc, Case("absent", requires=lambda E: con_at(E["self"].t, unwrap(E["name"], "id")) == NULL, raises="KeyError"),
], assumed=True, key="ConContainer.__getitem__",
    note="optlang Container look-up by name, model.constraints[name]: the object registered under that name (ghost function "
         "lp_con_registered), KeyError when there is none; reads only"))


# ---------------------------------------------------------------- hooks
def _getattr(eng, st, v, name):
    if isinstance(v, VRef) and v.cls == "Model" and name == "solver":
        outs = []
        for isnull, s2 in eng.branch(st, v.t == NULL):           # `None.solver`
            outs.append(eng.raise_(s2, "AttributeError") if isnull else ("ok", s2, VRef(eng.heap_arr(s2, "_solver")[v.t], "LPSolver")))
        return outs
    if isinstance(v, VRef) and v.cls == "Model" and name == "constraints":
        outs = []
        for isnull, s2 in eng.branch(st, v.t == NULL):
            outs.append(eng.raise_(s2, "AttributeError") if isnull
                        else ("ok", s2, VRef(lp_cons(eng.heap_arr(s2, "_solver")[v.t]), "ConContainer")))
        return outs
    if isinstance(v, VRef) and v.cls == "LPSolver" and name == "status":
        return [("ok", s2, NONE if isnone else VStr(status_str(v.t))) for isnone, s2 in eng.branch(st, status_none(v.t))]
    if isinstance(v, VRef) and v.cls == "Variable" and name in ("primal", "dual"):
        return [("ok", st, eng.heap_read(st, "lp_" + name, v.t))]
    if isinstance(v, VRef) and v.cls == "Constraint" and name == "dual":
        return [("ok", st, eng.heap_read(st, "lp_dual", v.t))]
    if isinstance(v, VNone) and name in ("primal", "dual"):
        return [eng.raise_(st, "AttributeError")]
    if isinstance(v, VExc) and name == "with_traceback":
        return [("ok", st, VFunc("bound", v, name))]
    return None


def _call_method(eng, st, recv, name, pos, kw):
    if isinstance(recv, VExc) and name == "with_traceback":
        if len(pos) == 1 and not kw:
            return [("ok", st, recv)]
        return [eng.raise_(st, "TypeError")]        # BaseException.with_traceback() takes exactly one argument
    return None


HOOKS = {"getattr": _getattr, "call_method": _call_method}


# ---------------------------------------------------------------- specification
def _model(E, who="self"):
    return E.eng.heap_arr(E.s0, "_model")[E[who].t]


def _solver(E):
    return E.eng.heap_arr(E.s0, "_solver")[_model(E)]


def _detached(E):
    return _model(E) == NULL


def _status_is(E, name):
    return z3.And(z3.Not(status_none(_solver(E))), status_str(_solver(E)) == id_lit(name))


def _has_primals(E):
    return z3.And(z3.Not(status_none(_solver(E))), z3.Or(*[status_str(_solver(E)) == id_lit(n) for n in C4.HAS_PRIMALS]))


def _raising_status(E):
    return z3.And(z3.Not(status_none(_solver(E))), z3.Not(_status_is(E, "optimal")), z3.Not(_has_primals(E)))


def _finite(E):
    x = qv("fx", Ref)
    pk, _ = E.eng.heap_arr(E.s0, "lp_primal")
    dk, _ = E.eng.heap_arr(E.s0, "lp_dual")
    return z3.And(FA([x], pk[x] == 0, patterns=[pk[x]]), FA([x], dk[x] == 0, patterns=[dk[x]]))


def _val(E, field, ref):
    return E.eng.heap_arr(E.s0, field)[1][ref]


def _res(E, term):
    return z3.And(E.res.k == 0, E.res.v == term) if isinstance(E.res, VReal) else z3.BoolVal(False)


def _flux(E):
    r = E["self"].t
    return _res(E, _val(E, "lp_primal", C1.fwd(r)) - _val(E, "lp_primal", C1.rev(r)))


def _rc(E):
    return _res(E, _val(E, "lp_dual", C1.fwd(E["self"].t)))


def _row(E):
    return con_at(lp_cons(_solver(E)), E.eng.heap_arr(E.s0, "_id")[E["self"].t])


def _sp(E):
    return _res(E, _val(E, "lp_dual", _row(E)))


def _documented(post):
    """the `Raises` sections as written"""
    return [Case("detached", requires=_detached, raises="RuntimeError"),
            Case("never_optimized", requires=lambda E: z3.And(z3.Not(_detached(E)), status_none(_solver(E))), raises="RuntimeError"),
            Case("optimal", requires=lambda E: z3.And(z3.Not(_detached(E)), _status_is(E, "optimal")), ensures=post),
            Case("any_other_status", requires=lambda E: z3.And(z3.Not(_detached(E)), z3.Not(status_none(_solver(E))),
                                                              z3.Not(_status_is(E, "optimal"))), raises="OptimizationError")]


def _agreed(post, with_raising):
    out = [Case("detached", requires=_detached, raises="RuntimeError"),
           Case("optimal", requires=lambda E: z3.And(z3.Not(_detached(E)), _status_is(E, "optimal")), ensures=post)]
    if with_raising:
        out.append(Case("raising_status", requires=lambda E: z3.And(z3.Not(_detached(E)), _raising_status(E)), raises="OptimizationError"))
    return out


def _pre_rxn(E):
    return z3.And(_finite(E), z3.Or(_detached(E), _status_is(E, "optimal"), _raising_status(E)))


def _pre_met(E):
    # (since the repair of the handler - `raise err`, was `raise err.with_traceback()`: finding F-c - the raising statuses are covered
    # as for the two reaction accessors)
    return z3.And(_finite(E), z3.Or(_detached(E), z3.And(_status_is(E, "optimal"), _row(E) != NULL), _raising_status(E)))


RXN, MET = ("self", TRef("Reaction")), ("self", TRef("Metabolite"))
REG.add(Contract(MR, "Reaction.flux@getter", "C04", [RXN], _agreed(_flux, True), pre=_pre_rxn, result="real", key="Reaction.flux@getter"))
REG.add(Contract(MR, "Reaction.reduced_cost@getter", "C04", [RXN], _agreed(_rc, True), pre=_pre_rxn, result="real",
                 key="Reaction.reduced_cost@getter"))
REG.add(Contract(MMET, "Metabolite.shadow_price@getter", "C04", [MET], _agreed(_sp, True), pre=_pre_met, result="real",
                 key="Metabolite.shadow_price@getter"))
# demonstration only (not wired): the documentation as written, no precondition beyond finite values / a registered row
REG.add(Contract(MR, "Reaction.flux@getter", "C04", [RXN], _documented(_flux), pre=_finite, result="real",
                 key="Reaction.flux@getter:documented"))
REG.add(Contract(MR, "Reaction.reduced_cost@getter", "C04", [RXN], _documented(_rc), pre=_finite, result="real",
                 key="Reaction.reduced_cost@getter:documented"))
REG.add(Contract(MMET, "Metabolite.shadow_price@getter", "C04", [MET], _documented(_sp),
                 pre=lambda E: z3.And(_finite(E), z3.Or(_detached(E), _row(E) != NULL)), result="real",
                 key="Metabolite.shadow_price@getter:documented"))
KEYS = ["Reaction.flux@getter", "Reaction.reduced_cost@getter", "Metabolite.shadow_price@getter", "ConContainer.__getitem__"]
