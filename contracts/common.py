"""Shared registry, heap schema and view functions (ghost state) used by the sidecar contracts."""
import z3
from pyvc.values import *  # noqa
from pyvc.contract import *  # noqa

REG = Registry()
REG.modules = [
    "cobra/core/dictlist.py", "cobra/core/object.py", "cobra/core/reaction.py", "cobra/core/gene.py",
    "cobra/core/species.py", "cobra/core/metabolite.py", "cobra/core/model.py", "cobra/core/group.py",
    "cobra/util/context.py",
]
# heap schema: field -> kind
REG.fields.update({
    "_id": "id",
})
REG.inline.add("Object.id@getter")
REG.default_dict_kinds = ("id", "int")

I = z3.IntSort()
B_ = z3.BoolSort()


def TRUE():
    return z3.BoolVal(True)


def qv(base, sort=I):
    return z3.Const(fresh_name(base), sort)


# ------------------------------------------------------------------ DictList views
def L(st, v):
    rec = st.objs[v.oid]
    return rec["len"], rec["elem"]


def Dv(st, v):
    """the `_dict` index of a DictList value: (dom, val)"""
    d = st.objs[v.oid]["attr:_dict"]
    rec = st.objs[d.oid]
    if rec.get("lazy"):
        return z3.K(Id, z3.BoolVal(False)), z3.K(Id, z3.IntVal(0))
    return rec["dom"], rec["val"]


def dict_of(st, v):
    return st.objs[v.oid]["attr:_dict"]


def idarr(E, st):
    return E.eng.heap_arr(st, "_id")


def WF(E, st, v):
    """Representation invariant of a DictList: list and index agree in both directions."""
    n, e = L(st, v)
    dom, val = Dv(st, v)
    ida = idarr(E, st)
    i, k = qv("wi"), qv("wk", Id)
    a = FA([i], z3.Implies(z3.And(0 <= i, i < n),
                                  z3.And(z3.Select(dom, ida[e[i]]), z3.Select(val, ida[e[i]]) == i)),
                  patterns=[e[i]])
    b = FA([k], z3.Implies(z3.Select(dom, k),
                                  z3.And(0 <= val[k], val[k] < n, ida[e[val[k]]] == k)),
                  patterns=[z3.Select(dom, k)])
    return z3.And(n >= 0, a, b)


def same_list(E, s0, s1, v):
    n0, e0 = L(s0, v)
    n1, e1 = L(s1, v)
    if n0.eq(n1) and e0.eq(e1):
        return TRUE()
    j = qv("sj")
    return z3.And(n1 == n0, FA([j], z3.Implies(z3.And(0 <= j, j < n0), e1[j] == e0[j])))


def same_index(E, s0, s1, v):
    d0, v0 = Dv(s0, v)
    d1, v1 = Dv(s1, v)
    if d0.eq(d1) and v0.eq(v1):
        return TRUE()
    k = qv("sk", Id)
    return FA([k], z3.And(z3.Select(d1, k) == z3.Select(d0, k),
                                 z3.Implies(z3.Select(d0, k), v1[k] == v0[k])))


def unchanged_dl(E, v):
    return z3.And(same_list(E, E.s0, E.s1, v), same_index(E, E.s0, E.s1, v))


def norm(i, n):
    return z3.If(i < 0, i + n, i)


def clamp(i, n):
    return z3.If(i < 0, z3.If(i + n < 0, 0, i + n), z3.If(i > n, n, i))


def dl_locs(E, name="self"):
    v = E.a[name]
    return [("list", v), ("dict", dict_of(E.s0, v))]


def new_dictlist(eng, st, E=None, base="res"):
    """result builder: a fresh symbolic DictList"""
    return TDictList("Object").make(st, fresh_name(base))


def havoc_index_attr(E, name="self"):
    """the `_dict` attribute is rebound to a new dict"""
    v = E.a[name]
    return ("attr", v, "_dict", lambda st: alloc_dict_id_int(st))


def alloc_dict_id_int(st):
    from pyvc.state import alloc_dict
    return alloc_dict(st, "id", "int", base=fresh_name("idx"))


def distinct_ids(E, st, n, e):
    ida = idarr(E, st)
    i, j = qv("di"), qv("dj")
    return FA([i, j], z3.Implies(z3.And(0 <= i, i < j, j < n), ida[e[i]] != ida[e[j]]),
              patterns=[z3.MultiPattern(e[i], e[j])])
