"""C02 / C01 — renaming an object that belongs to a model, and the trivial removal wrappers.

(a) Reaction._set_id_with_model / Metabolite._set_id_with_model (called by the `id` setter of an object whose `_model` is set).
    Views: id(x) = heap field `_id`; the model's DictList (list part + `_dict` index, `WF` of contracts/common.py); fwd(r), rev(r) =
    the reaction's optlang variables (c01_lp); opt_name(x) = heap field `opt_name` of a solver object (the optlang `name` attribute);
    REVID(k) = the reverse id belonging to id k (id + "_reverse_" + md5 prefix: a function of the id - trusted).
    Proved, from the documented intent:
      * a new id already present in the list's index raises ValueError and changes NOTHING (frame: heap, list, index, solver names);
      * otherwise id(self) = value and no other object's id changes; the DictList is well formed again with the same elements at the
        same positions; lookup by the new id finds self (at its old position), the old id is gone, every other key is present exactly
        as before at the same position; and the solver objects are renamed in step:
            reaction:   opt_name(fwd(self)) = value, opt_name(rev(self)) = REVID(value), no other solver object renamed;
            metabolite: opt_name(c) = value for c = the constraint registered under the old id (its mass-balance constraint, C01),
                        no other solver object renamed.
      * reaction only: when optlang's name setter refuses the new id or the new reverse id (white space; `bad_name`), the function
        raises ValueError and NOTHING has changed - id, list, index, the names of both variables (the forward variable, possibly
        renamed already, carries its old name again).  [The original body changed id and index first and left them changed: defect
        found with this contract, repaired in /repo.]
    Stated preconditions (not hidden): the object is listed in its model's DictList (cross-reference invariant), the DictList is well
    formed, the solver is in step at entry (C01: the reaction's variables carry id / reverse id as names - names optlang accepted;
    a constraint is registered under the metabolite's id); for a METABOLITE also that optlang accepts the new name (its constraint is
    renamed first, so a refused name raises before anything changed - not modelled as a case).
(b) Reaction.remove_from_model, Reaction.delete, Metabolite.remove_from_model: exactly one call of Model.remove_reactions([self],
    remove_orphans=<flag as given>) resp. Model.remove_metabolites(self, <flag as given>) on the object's own model (ghost trace).
"""
import z3
from .common import *  # noqa
from . import c15_dictlist  # noqa  (DictList.__contains__, _generate_index)
from . import c01_lp as C1
from pyvc.values import ident_of

MR = "cobra/core/reaction.py"
MMET = "cobra/core/metabolite.py"
REG.fields.update({"_model": "ref:Model", "opt_name": "id"})
REG.classes.setdefault("Variable", [])
REG.classes.setdefault("Constraint", [])
REG.classes.setdefault("Container", [])
REG.inline.add("Reaction.model@getter")
REG.inline.add("Species.model@getter")
REG.inline.add("Reaction.remove_from_model")     # Reaction.delete is verified through the body of the function it forwards to

fwd, rev = C1.fwd, C1.rev
REVID = z3.Function("reverse_id_of", Id, Id)         # reverse id belonging to an id
bad_name = z3.Function("optlang_rejects_name", Id, z3.BoolSort())   # names optlang's setter refuses (white space, empty)
named = z3.Function("constraint_named_at_entry", Id, Ref)   # solver.constraints[k] in the entry state (NULL: no such constraint)


def names(E, st):
    return E.eng.heap_arr(st, "opt_name")


# ---------------------------------------------------------------- assumed: optlang
def _setter_post(E):
    return names(E, E.s1) == z3.Store(names(E, E.s0), E["self"].t, E["value"].t)


for _cls in ("Variable", "Constraint"):
    REG.add(Contract("optlang/interface.py", f"{_cls}.name@setter", "C01", [("self", TRef(_cls)), ("value", TStr())], [
        Case("accepted", requires=lambda E: z3.Not(bad_name(E["value"].t)), ensures=_setter_post),
        Case("rejected", requires=lambda E: bad_name(E["value"].t), raises="ValueError"),
    ], modifies=lambda E: [("heap", "opt_name")], assumed=True, key=f"{_cls}.name@setter",
        note=f"optlang {_cls}.name setter: the object (and nothing else) carries the new name afterwards and stays the same object in "
             "its container (update_key); ValueError, nothing changed, for a name optlang rejects (white space / empty)"))


def _same_names_as_entry(E):
    a, b = names(E, E.s0), names(E, E.eng.entry_state)
    return TRUE() if a.eq(b) else a == b


_c = Case("present", requires=lambda E: named(E["name"].t) != NULL,
          ensures=lambda E: z3.And(E.res.t == named(E["name"].t), names(E, E.s0)[E.res.t] == E["name"].t))
_c.result = lambda eng, st, E: (st, VRef(fresh("con", Ref), "Constraint"))
REG.add(Contract("optlang/container.py", "Container.__getitem__", "C01", [("self", TRef("Container")), ("name", TStr())], [
    _c, Case("absent", requires=lambda E: named(E["name"].t) == NULL, raises="KeyError"),
], pre=_same_names_as_entry, assumed=True, key="Container.__getitem__",
    note="model.constraints[name] (no rename since entry): the constraint registered under that name, which carries it; KeyError if none"))


# ---------------------------------------------------------------- hooks
def _entry_model(eng):
    m = (getattr(eng, "entry_args", None) or {}).get("model")
    return m if isinstance(m, VObj) and m.kind == "obj" and m.cls == "Model" else None


def getattr_hook(eng, st, v, name):
    if isinstance(v, VRef) and v.cls in ("Reaction", "Metabolite") and name == "_model":
        m = _entry_model(eng)
        if m is None:
            return None
        # the object's model pointer: the materialised model of the contract when it is that model's identity, a plain reference else
        cur = eng.heap_arr(st, "_model")[v.t]
        return [("ok", s2, m if yes else VRef(cur, "Model")) for yes, s2 in eng.branch(st, cur == ident_of(m.oid))]
    if isinstance(v, VRef) and v.cls == "Reaction":
        ida = eng.heap_arr(st, "_id")
        if name == "reverse_id":
            # ASSUMED: reverse_id = "_".join((id, "reverse", md5(id)[:5])) is a function of the CURRENT id
            return [("ok", st, VStr(REVID(ida[v.t])))]
        if name in ("forward_variable", "reverse_variable"):
            # c01_lp's assumed getter (model.variables[id] / [reverse_id] is the reaction's forward / reverse variable), refined: the
            # lookup goes by NAME, so it finds that variable only while the variable is registered under the current (reverse) id
            want = ida[v.t] if name == "forward_variable" else REVID(ida[v.t])
            nm = eng.heap_arr(st, "opt_name")
            outs = []
            for k, s, x in eng.apply_contract(st, REG.get(f"Reaction.{name}@getter"), [v], {}):
                if k != "ok" or not isinstance(x, VRef):
                    outs.append((k, s, x))
                    continue
                for yes, s2 in eng.branch(s, nm[x.t] == want):
                    if not yes:
                        raise Unsupported(f"{name}: no solver variable is known to be registered under the reaction's current "
                                          "(reverse) id - solver not in step with the reaction")
                    outs.append(("ok", s2, x))
            return outs
    return None


def call_method_hook(eng, st, recv, name, pos, kw):
    if isinstance(recv, (VRef, VObj)) and recv.cls == "Model" and name in ("remove_reactions", "remove_metabolites"):
        # abstract call: recorded in the ghost trace with receiver, arguments and the state in which it happened
        tr = st.ghost.get("trace", ())
        return [("ok", st.setghost("trace", tr + ((name, recv, tuple(pos), tuple(sorted(kw.items())), st),)), NONE)]
    return None


HOOKS = {"getattr": getattr_hook, "call_method": call_method_hook}


# ---------------------------------------------------------------- (a) renaming
def _dl(E, st, attr):
    return st.objs[E["model"].oid]["attr:" + attr]


def _rename_pre(attr, solver_in_step):
    def pre(E):
        x = E["self"].t
        dl = _dl(E, E.s0, attr)
        n, e = L(E.s0, dl)
        dom, val = Dv(E.s0, dl)
        ida = idarr(E, E.s0)
        return z3.And(WF(E, E.s0, dl),
                      E.eng.heap_arr(E.s0, "_model")[x] == ident_of(E["model"].oid),         # the object belongs to this model
                      z3.Select(dom, ida[x]), e[val[ida[x]]] == x,                             # ... and is listed there under its id
                      solver_in_step(E))
    return pre


def _dup(attr):
    return lambda E: z3.Select(Dv(E.s0, _dl(E, E.s0, attr))[0], E["value"].t)


def _nothing(attr):
    """raising cases: list and index as found, stated explicitly (heap fields - ids, solver names - are covered by the frame: the
    raising cases have no modifies clause)"""
    return lambda E: unchanged_dl(E, _dl(E, E.s0, attr))


def _list_post(E, attr):
    """id, list and index after a successful rename"""
    x, v = E["self"].t, E["value"].t
    dl = _dl(E, E.s0, attr)
    ida0, ida1 = idarr(E, E.s0), idarr(E, E.s1)
    old = ida0[x]
    n0, e0 = L(E.s0, dl)
    dom0, val0 = Dv(E.s0, dl)
    dom1, val1 = Dv(E.s1, dl)
    k = qv("rk", Id)
    return z3.And(
        ida1 == z3.Store(ida0, x, v),                                   # exactly this object's id, to exactly the new value
        WF(E, E.s1, dl), same_list(E, E.s0, E.s1, dl),                  # well formed again, same members in the same order
        z3.Select(dom1, v), e0[val1[v]] == x, val1[v] == val0[old],     # lookup by the new id finds the object, at its position
        z3.Not(z3.Select(dom1, old)),                                   # the old id is gone
        FA([k], z3.Implies(z3.And(k != v, k != old),                    # every other member is found as before
                           z3.And(z3.Select(dom1, k) == z3.Select(dom0, k),
                                  z3.Implies(z3.Select(dom0, k), val1[k] == val0[k]))), patterns=[z3.Select(dom1, k)]))


def _rename_mod(attr):
    def mod(E):
        dl = _dl(E, E.s0, attr)
        return [("heap", "_id"), ("heap", "opt_name"), ("attr", dl, "_dict", lambda st: alloc_dict_id_int(st))]
    return mod


def _model_t(attr, **more):
    return TObj("Model", dict({attr: TDictList("Reaction" if attr == "reactions" else "Metabolite")}, **more))


# --- Reaction
def _rx_in_step(E):
    r = E["self"].t
    ida, nm = idarr(E, E.s0), names(E, E.s0)
    return z3.And(nm[fwd(r)] == ida[r], nm[rev(r)] == REVID(ida[r]),           # C01 at entry: variables named id / reverse id
                  z3.Not(bad_name(ida[r])))       # ... and the name the forward variable carries is one optlang accepted


def _rx_names_ok(E):
    """optlang accepts both new names"""
    v = E["value"].t
    return z3.And(z3.Not(bad_name(v)), z3.Not(bad_name(REVID(v))))


def _rx_post(E):
    r, v = E["self"].t, E["value"].t
    nm0, nm1 = names(E, E.s0), names(E, E.s1)
    y = qv("ry", Ref)
    return z3.And(_list_post(E, "reactions"),
                  nm1[fwd(r)] == v, nm1[rev(r)] == REVID(v),
                  FA([y], z3.Implies(z3.And(y != fwd(r), y != rev(r)), nm1[y] == nm0[y]), patterns=[nm1[y]]))


REG.add(Contract(MR, "Reaction._set_id_with_model", "C02",
                 [("self", TRef("Reaction")), ("value", TStr()), ("model", _model_t("reactions"))], [
                     Case("new_id", requires=lambda E: z3.And(z3.Not(_dup("reactions")(E)), _rx_names_ok(E)), ensures=_rx_post),
                     Case("id_in_use", requires=_dup("reactions"), raises="ValueError", ensures=_nothing("reactions")),
                     # optlang refuses the new id or the new reverse id as a variable name: ValueError and NOTHING has changed (no
                     # modifies_on_raise: id, list, index and every solver name - incl. a forward variable already renamed - as found)
                     Case("name_rejected", requires=lambda E: z3.And(z3.Not(_dup("reactions")(E)), z3.Not(_rx_names_ok(E))),
                          raises="ValueError", ensures=_nothing("reactions")),
                 ], pre=_rename_pre("reactions", _rx_in_step), modifies=_rename_mod("reactions"),
                 key="Reaction._set_id_with_model", props=["C02", "C01"],
                 note="`model` is a ghost parameter: the materialised model self._model points to"))


# --- Metabolite
def _met_in_step(E):
    x, v = E["self"].t, E["value"].t
    return z3.And(named(idarr(E, E.s0)[x]) != NULL,       # C01 at entry: the solver holds a constraint under the metabolite's id
                  z3.Not(bad_name(v)))


def _met_post(E):
    x, v = E["self"].t, E["value"].t
    nm0, nm1 = names(E, E.s0), names(E, E.s1)
    c = named(idarr(E, E.s0)[x])
    y = qv("my", Ref)
    return z3.And(_list_post(E, "metabolites"), nm1[c] == v,
                  FA([y], z3.Implies(y != c, nm1[y] == nm0[y]), patterns=[nm1[y]]))


REG.add(Contract(MMET, "Metabolite._set_id_with_model", "C02",
                 [("self", TRef("Metabolite")), ("value", TStr()), ("model", _model_t("metabolites", constraints=TRef("Container")))], [
                     Case("new_id", requires=lambda E: z3.Not(_dup("metabolites")(E)), ensures=_met_post),
                     Case("id_in_use", requires=_dup("metabolites"), raises="ValueError", ensures=_nothing("metabolites")),
                 ], pre=_rename_pre("metabolites", _met_in_step), modifies=_rename_mod("metabolites"),
                 key="Metabolite._set_id_with_model", props=["C02", "C01"],
                 note="`model` is a ghost parameter: the materialised model self._model points to"))


# ---------------------------------------------------------------- (b) removal wrappers
def _in_a_model(E):
    return E.eng.heap_arr(E.s0, "_model")[E["self"].t] != NULL


def _one_call(E, fname):
    tr = E.s1.ghost.get("trace", ())
    if len(tr) != 1 or tr[0][0] != fname:
        return None
    _, recv, pos, kw, st = tr[0]
    if not isinstance(recv, VRef):
        return None
    return recv, pos, dict(kw), st


def _flag_is(v, param):
    return v.t == param.t if isinstance(v, VBool) else z3.BoolVal(False)


def _rx_remove_post(E):
    c = _one_call(E, "remove_reactions")
    if c is None:
        return z3.BoolVal(False)
    recv, pos, kw, st = c
    if len(pos) != 1 or set(kw) != {"remove_orphans"} or not (isinstance(pos[0], VObj) and pos[0].kind == "list"):
        return z3.BoolVal(False)
    n, e = L(st, pos[0])
    return z3.And(recv.t == E.eng.heap_arr(E.s0, "_model")[E["self"].t],      # on the reaction's own model
                  n == 1, e[0] == E["self"].t,                                  # the list [self]
                  _flag_is(kw["remove_orphans"], E["remove_orphans"]))          # the flag as given


def _met_remove_post(E):
    c = _one_call(E, "remove_metabolites")
    if c is None:
        return z3.BoolVal(False)
    recv, pos, kw, st = c
    if len(pos) != 2 or kw or not isinstance(pos[0], VRef):
        return z3.BoolVal(False)
    return z3.And(recv.t == E.eng.heap_arr(E.s0, "_model")[E["self"].t], pos[0].t == E["self"].t,
                  _flag_is(pos[1], E["destructive"]))


TRACE = lambda E: [("ghost", "trace", lambda st: ())]  # noqa

for _q in ("remove_from_model", "delete"):
    REG.add(Contract(MR, f"Reaction.{_q}", "C02", [("self", TRef("Reaction")), ("remove_orphans", TBool())],
                     [Case("in_model", ensures=_rx_remove_post)], pre=_in_a_model, modifies=TRACE, key=f"Reaction.{_q}"))
REG.add(Contract(MMET, "Metabolite.remove_from_model", "C02", [("self", TRef("Metabolite")), ("destructive", TBool())],
                 [Case("in_model", ensures=_met_remove_post)], pre=_in_a_model, modifies=TRACE, key="Metabolite.remove_from_model"))
