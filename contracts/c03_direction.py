"""C03 — Model.objective_direction setter (the body under `@resettable`), over the ghost model of the optlang objective of
contracts/c03_objective.py (an Objective object with an opaque `expression` and a `direction`; `objective.direction = d` writes it).

Documented: "Set the objective direction. When used in a context, this attribute is set temporarily. value: {"max", "min"}. Raises
ValueError if given direction isn't max or min."  String operations are uninterpreted: lower(s), starts(s, literal); the ONLY facts
assumed about them are the four ground facts about the literals "max" and "min" used by the lemma (lower("max") starts with "max" ...).

PROVED (Model.objective_direction@setter):
  max / min   lower(value) starts with "max" (resp. not, and starts with "min"): the direction of the installed objective becomes
              the literal "max" (resp. "min"); the objective OBJECT installed in the solver and its expression are as before;
              exactly one solver call (the direction assignment);
  other       neither: ValueError, NOTHING changed, no solver call   (the state the `resettable` registration then has to undo is
              the unchanged one).
lemmas(): `resettable/objective_direction:contract` - from these cases: calling the setter with the OLD direction ("max" or "min":
the entry invariant, optlang admits nothing else) in ANY state takes the max resp. min case, does not raise and leaves the old
direction; this is the hypothesis `undo` of c03_glue `resettable/objective_direction`.
Not modelled: a value without `.lower` (AttributeError before anything happens: natively checked).

Mutation trials (tools/mutate_and_run.sh cobra/core/model.py, none verifies):
  first branch `direction = "max"` -> `= "min"` ............................... case=max post.1 (sat)
  `elif value.startswith("min")` -> `elif value.startswith("max")` ........... case=min exit=raise:ValueError unexpected-exception (sat)
  `raise ValueError(...)` -> `self.solver.objective.direction = "min"` ........ case=other expected-ValueError (sat)
  `value = value.lower()` dropped ............................................. case=max post.1, unexpected-exception (sat)
"""
import z3
from .common import *  # noqa
from . import c03_objective as O
from pyvc.values import id_lit

MD = "cobra/core/model.py"
KEY = "Model.objective_direction@setter[objective-view]"      # (the key without suffix is the contract of contracts/w_model_small.py)
KEYS = [KEY]
str_lower = z3.Function("str_lower", Id, Id)
str_starts = z3.Function("str_startswith", Id, Id, z3.BoolSort())
MAX, MIN = id_lit("max"), id_lit("min")


def call_method_hook(eng, st, recv, name, pos, kw):
    if getattr(eng.cur_contract, "key", None) != KEY or not isinstance(recv, (VStr, VConc)):
        return None
    t = unwrap(recv, "id")
    if name == "lower" and not pos and not kw:
        return [("ok", st, VStr(str_lower(t)))]
    if name == "startswith" and len(pos) == 1 and not kw and isinstance(pos[0], (VStr, VConc)):
        return [("ok", st, VBool(str_starts(t, unwrap(pos[0], "id"))))]
    return None


HOOKS = chain_hooks({"call_method": call_method_hook}, O.HOOKS)


def _is(E, lit):
    return str_starts(str_lower(E["value"].t), lit)


def _written(E, lit):
    o0, o1 = O.cur_obj(E.s0, E["self"]), O.cur_obj(E.s1, E["self"])
    tr = O._tr(E.s1)
    ok = (o1.oid == o0.oid and len(tr) == 1 and tr[0][0] == "direction=" and tr[0][1].oid == o0.oid)
    return z3.And(z3.BoolVal(bool(ok)), O.dir_of(E.s1, o1) == lit, O.expr_of(E.s1, o1) == O.expr_of(E.s0, o0))


def _untouched(E):
    o0, o1 = O.cur_obj(E.s0, E["self"]), O.cur_obj(E.s1, E["self"])
    return z3.And(z3.BoolVal(o1.oid == o0.oid and len(O._tr(E.s1)) == 0), O.dir_of(E.s1, o1) == O.dir_of(E.s0, o0),
                  O.expr_of(E.s1, o1) == O.expr_of(E.s0, o0))


def _dir_mod(E):
    o = O.cur_obj(E.s0, E["self"])
    return [("attr", o, "direction", lambda st: TStr().make(st, "direction")), ("ghost", "trace", lambda st: ())]


REG.add(Contract(MD, "Model.objective_direction@setter", "C03", [("self", O.MODEL_T()), ("value", TStr())], [
    Case("max", requires=lambda E: _is(E, MAX), ensures=lambda E: _written(E, MAX)),
    Case("min", requires=lambda E: z3.And(z3.Not(_is(E, MAX)), _is(E, MIN)), ensures=lambda E: _written(E, MIN)),
    Case("other", requires=lambda E: z3.And(z3.Not(_is(E, MAX)), z3.Not(_is(E, MIN))), ensures=_untouched, raises="ValueError"),
], modifies=_dir_mod, key=KEY, props=["C03"],
    note="the setter body (the @resettable wrapper around it: C03 kernel); str.lower / str.startswith uninterpreted; the optlang "
         "objective as modelled in contracts/c03_objective.py (assumed)"))


def lemmas():
    """the undo partial(setter, model, OLD direction) takes the max / min case in whatever state it runs"""
    from . import c03_glue as G
    out = []
    old, d_any, d_after = z3.Const("dl_old", Id), z3.Const("dl_current", Id), z3.Const("dl_after", Id)
    raised = z3.Bool("dl_raised")
    facts = z3.And(str_starts(str_lower(MAX), MAX), str_starts(str_lower(MIN), MIN), z3.Not(str_starts(str_lower(MIN), MAX)), MAX != MIN)
    is_max, is_min = str_starts(str_lower(old), MAX), z3.And(z3.Not(str_starts(str_lower(old), MAX)), str_starts(str_lower(old), MIN))
    contract = z3.And(z3.Implies(is_max, z3.And(z3.Not(raised), d_after == MAX)),
                      z3.Implies(is_min, z3.And(z3.Not(raised), d_after == MIN)),
                      z3.Implies(z3.And(z3.Not(is_max), z3.Not(is_min)), z3.And(raised, d_after == d_any)))
    hyps = [("ASSUMED string facts about the literals max / min", facts, True),
            ("entry invariant: the direction is max or min (optlang)", z3.Or(old == MAX, old == MIN), True),
            ("the setter called with the OLD direction in any state, by the three cases of its proved contract", contract, True)]
    G._lemma(out, "resettable/objective_direction:contract", hyps, z3.And(z3.Not(raised), d_after == old))
    return out
