"""C18 — minimal_medium._as_medium: the solver's fluxes read as a medium, per exchange over a SYMBOLIC list of exchanges.

Documented (`_as_medium`): 'The "medium", meaning all active import fluxes in the solution'; tolerance: 'Fluxes with an absolute
value smaller than this number will be ignored'; exports: 'Whether to return export fluxes as well'; minimal_medium: 'All exchange
fluxes are oriented into the import reaction e.g. positive fluxes denote imports and negative fluxes exports'.

Spec functions, per exchange r:  flux(r) = r.flux (assumed getter: the net flux of r in the solver's current solution, a finite real,
ghost heap field `flux`),  imp(r) = -flux(r) if r has a reactant (written `met -->`: its forward direction EXPORTS) else flux(r)
(the sign convention of Model.medium: c18_medium.import_bound),  kept(r) = |flux(r)| >= tolerance and (exports or imp(r) > 0).
PROVED, for a list of exchanges of any length (loop invariant over the list) - the returned Series, read as the ordered mapping
label -> value that it is, satisfies
   (A1) every exchange r with kept(r) has its id as a label and the value there is imp(r);
   (A2) every label is the id of an exchange r of the list with kept(r)
(ids pairwise different, so no entry is overwritten: (A1) + (A2) pin the mapping down).  In words: fluxes below the tolerance in
absolute value are dropped, what remains is oriented as IMPORT, and export entries (negative import) survive only with exports=True.
Nothing is modified.
Preconditions (stated): every exchange has at most one reactant (`len(rxn.reactants) == 1` in the code is then `has a reactant`;
this is what the assumed find_boundary_types contracts of C18 provide: single-metabolite reactions), ids pairwise different (members
of model.reactions), tolerance a finite real.
ASSUMED: Reaction.flux getter (finite real; raising when there is no solution is its own concern: `minimal_medium` calls _as_medium
only after the status was found optimal); pandas (`pandas.Series as ordered mapping`): pd.Series() is an empty mapping, s[label] =
v sets / overwrites one entry, s[s > 0] is a new Series holding exactly the entries of s whose value is > 0, with their values.

Mutation trials (tools/mutate_and_run.sh cobra/medium/minimal_medium.py ... contracts.c18_asmedium --hooks HOOKS _as_medium):
   listed under MUTANTS in the docstring of c18_minmedium.py (all trials of the three new C18 modules are listed there).
"""
import ast
import z3
from .common import *  # noqa
from . import c01_lp as C1
from . import c18_medium as CM
from pyvc.values import VReal
from pyvc.state import alloc_dict

MMM = CM.MMM
KEY = "_as_medium"
REG.fields.update({"flux": "real"})


def flux(E, st, r):
    return C1.hreal(E, st, "flux", r)


def imp(E, st, r):
    """the IMPORT flux of exchange r: oriented by the direction of writing (finite)"""
    f = flux(E, st, r)
    return z3.If(CM.flag(E, st, "has_reactants", r), -f.v, f.v)


def big(E, st, r, tol):
    f = flux(E, st, r)
    return z3.If(f.v < 0, -f.v, f.v) >= tol.v


def kept(E, st, r, tol, exports):
    return z3.And(big(E, st, r, tol), z3.Or(exports, imp(E, st, r) > 0))


def _flux_result(eng, st, E):
    ka, va = eng.heap_arr(st, "flux")
    r = E["self"].t
    return st.assume(ka[r] == 0), VReal(ka[r], va[r])


REG.add(Contract("cobra/core/reaction.py", "Reaction.flux@getter", "C18", [("self", TRef("Reaction"))], [Case("any")], assumed=True,
                 key="Reaction.flux@getter", result=_flux_result,
                 note="Reaction.flux: forward.primal - reverse.primal of the solver's CURRENT solution, a finite real (ghost heap field "
                      "`flux`, renewed by every solve); it raises without a solution - callers here read it after an optimal status"))
REG.add(Contract("pandas", "Series", "C18", [("x", TNone())], [Case("any")], assumed=True, key="pandas.Series as ordered mapping",
                 note="pd.Series() is an empty mapping label -> value; s[label] = v sets / overwrites one entry; s > 0 followed by s[mask] "
                      "is a NEW Series holding exactly the entries of s whose value is > 0, with their values"))


def _used():
    from pyvc.apply import ASSUMED_USED
    ASSUMED_USED["pandas.Series as ordered mapping"] = REG.get("pandas.Series as ordered mapping").note


# ---------------------------------------------------------------- hooks: the pandas Series of _as_medium as a typed mapping
VERIFYING = {KEY}


def _verifying(eng):
    return getattr(getattr(eng, "cur_contract", None), "key", None) in VERIFYING


def _is_series(st, v):
    return isinstance(v, VObj) and v.kind == "dict" and st.objs[v.oid].get("series")


def getattr_hook(eng, st, v, name):
    if _verifying(eng) and isinstance(v, VConc) and v.py == ("module", "pandas") and name == "Series":
        return [("ok", st, VFunc("abstract", "pd.Series"))]
    return None


def call_abstract(eng, st, f, pos, kw):
    if _verifying(eng) and f.a == "pd.Series" and not pos and not kw:
        _used()
        st, d = alloc_dict(st, "id", "real", base="series", dom=z3.K(Id, z3.BoolVal(False)), val=z3.K(Id, z3.RealVal(0)))
        return [("ok", st.updobj(d.oid, series=True), d)]
    return None


def compare_hook(eng, st, op, a, b):
    if _verifying(eng) and _is_series(st, a) and isinstance(op, ast.Gt) and isinstance(b, VInt) and z3.is_int_value(z3.simplify(b.t)) \
            and z3.simplify(b.t).as_long() == 0:
        rec = st.objs[a.oid]
        return [("ok", st.setghost("series_mask", (a.oid, rec["dom"], rec["val"])), VOpaque("series>0"))]
    return None


def getitem_hook(eng, st, obj, idx):
    if _verifying(eng) and _is_series(st, obj) and isinstance(idx, VOpaque) and idx.what == "series>0":
        oid, dom, val = st.ghost.get("series_mask", (None, None, None))
        rec = st.objs[obj.oid]
        if oid != obj.oid or not (dom.eq(rec["dom"]) and val.eq(rec["val"])):
            raise Unsupported("mask of another Series / of an older content")
        st, d = alloc_dict(st, "id", "real", base="selected", val=val)
        dom2 = st.objs[d.oid]["dom"]
        k = qv("mk", Id)
        st = st.assume(FA([k], z3.Select(dom2, k) == z3.And(z3.Select(dom, k), z3.Select(val, k) > 0), patterns=[z3.Select(dom2, k)]))
        return [("ok", st.updobj(d.oid, series=True), d)]
    return None


HOOKS = {"getattr": getattr_hook, "call_abstract": call_abstract, "compare": compare_hook, "getitem": getitem_hook}


# ---------------------------------------------------------------- specification
def _lst(E, st=None):
    rec = (st or E.s0).objs[E["exchanges"].oid]
    return rec["len"], rec["elem"]


def _tol(E):
    return E.eng.to_real(E["tolerance"])


def _pre(E):
    n, e = _lst(E)
    j = qv("pj")
    nre = E.eng.heap_arr(E.s0, "n_reactants")
    return z3.And(_tol(E).k == 0, distinct_ids(E, E.s0, n, e),
                  FA([j], z3.Implies(z3.And(0 <= j, j < n), z3.And(e[j] != NULL, nre[e[j]] <= 1)), patterns=[e[j]]))


def medium_is(E, st, dom, val, n, e, sel, upto=None):
    """(A1) + (A2) for the mapping (dom, val) over the first `upto` exchanges, `sel(r)` the condition under which r is in it"""
    upto = n if upto is None else upto
    ida = idarr(E, st)
    j, k, w = qv("aj"), qv("ak", Id), qv("aw")
    return z3.And(
        FA([j], z3.Implies(z3.And(0 <= j, j < upto, sel(e[j])), z3.And(z3.Select(dom, ida[e[j]]), z3.Select(val, ida[e[j]]) == imp(E, st, e[j]))),
           patterns=[e[j]]),
        FA([k], z3.Implies(z3.Select(dom, k), z3.Exists([w], z3.And(0 <= w, w < upto, sel(e[w]), ida[e[w]] == k))),
           patterns=[z3.Select(dom, k)]))


def _post(E):
    if not (isinstance(E.res, VObj) and E.res.kind == "dict"):
        return z3.BoolVal(False)
    rec = E.s1.objs[E.res.oid]
    if rec.get("lazy") or rec.get("pure") or rec.get("kkind") != "id" or rec.get("vkind") != "real":
        return z3.BoolVal(False)
    n, e = _lst(E)
    tol, ex = _tol(E), E["exports"].t
    return medium_is(E, E.s0, rec["dom"], rec["val"], n, e, lambda r: kept(E, E.s0, r, tol, ex))


def _inv(E, Lc):
    n, e = _lst(E, Lc.st)
    rec = Lc.st.objs[Lc.var("medium").oid]
    tol = _tol(E)
    return z3.And(Lc.n == n, medium_is(E, Lc.st, rec["dom"], rec["val"], n, e, lambda r: big(E, Lc.st, r, tol), upto=Lc.i))


def _res(eng, st, E):
    st, d = alloc_dict(st, "id", "real", base="medium")
    return st.updobj(d.oid, series=True), d


_tolt = TReal()
_tolt.default = VReal(0, z3.RealVal("0.000001"))
_ext = TBool()
_ext.default = VBool(False)
REG.add(Contract(MMM, "_as_medium", "C18", [("exchanges", TList("ref:Reaction")), ("tolerance", _tolt), ("exports", _ext)],
                 [Case("any", ensures=_post)], pre=_pre, key=KEY, result=_res,
                 loops={0: LoopSpec(_inv, lambda E, Lc: [("dict", Lc.var("medium"))])},
                 note="precondition: exchanges with pairwise different ids and at most one reactant each, finite tolerance; pandas Series "
                      "as an ordered mapping (assumed), Reaction.flux assumed"))
