"""C02 — Model.add_boundary as the decision table of its docstring.

    type       id (unless reaction_id given)   lower bound                      upper bound                      SBO term (unless given)
    exchange   "EX_" + metabolite id           lb, else configured lower bound  ub, else configured upper bound  sbo_terms["exchange"]
    demand     "DM_" + metabolite id           0  (irreversible)                ub, else configured upper bound  sbo_terms["demand"]
    sink       "SK_" + metabolite id           lb, else configured lower bound  ub, else configured upper bound  sbo_terms["sink"]
    other      reaction_id (required)          lb, else configured lower bound  ub, else configured upper bound  none
  name = metabolite name + " " + type; a given reaction_id / sbo_term takes precedence (an EMPTY sbo_term writes no annotation);
  the reaction receives exactly {metabolite: -1} through ONE add_metabolites call and is then handed to self.add_reactions([rxn]) -
  one call, after everything else - and returned.  ValueError, with nothing added (no add_reactions call, model.reactions untouched):
  an exchange for a metabolite whose compartment is not the one find_external_compartment(self) reports; a custom type without
  reaction_id; an id that model.reactions already holds.

Abstract / assumed (recorded in the ghost trace, see HOOKS): find_external_compartment(self) (returns the constant EXT), the
Reaction constructor (a record holding id, name and bounds as given, with an empty annotation dictionary), Reaction.add_metabolites,
Model.add_reactions.  Strings: identifiers are an uninterpreted sort, f-strings are folded into the opaque concatenation STR_CONCAT.
`configuration` (module global of cobra.core.model) is a ghost parameter.
"""
import ast
import z3
import cobra  # noqa
from .common import *  # noqa
from . import c15_dictlist  # noqa  (DictList.__contains__)
from pyvc.engine import STR_CONCAT
from pyvc.state import alloc_obj, alloc_dict
from pyvc.values import id_lit, xr_eq, VReal

MM = "cobra/core/model.py"
REG.fields.update({"name": "id", "compartment": "id"})
EXT = z3.Const("external_compartment_found", Id)
PREDEFINED = {"exchange": "EX", "demand": "DM", "sink": "SK"}


# ---------------------------------------------------------------- strings
def sjoin(parts):
    """canonical value of the concatenation of literal / symbolic string pieces (adjacent literals merged, left fold)"""
    acc = []
    for p in parts:
        if isinstance(p, str):
            p = VConc(p)
        if isinstance(p, VConc) and acc and isinstance(acc[-1], VConc):
            acc[-1] = VConc(acc[-1].py + p.py)
        else:
            acc.append(p)
    acc = [p for p in acc if not (isinstance(p, VConc) and p.py == "")] or [VConc("")]
    out = acc[0]
    for p in acc[1:]:
        out = VStr(STR_CONCAT(unwrap(out, "id"), unwrap(p, "id")))
    return out


def fstring_hook(eng, st, node, vs):
    it, parts = iter(vs), []
    for piece in node.values:
        if isinstance(piece, ast.Constant):
            parts.append(VConc(piece.value))
            continue
        v = next(it)
        if piece.conversion != -1 or piece.format_spec is not None:
            return None
        if not (isinstance(v, VStr) or isinstance(v, VConc) and isinstance(v.py, str)):
            return None
        parts.append(v)
    return [("ok", st, sjoin(parts))]


def truth_str_hook(eng, st, v):
    return v.t != id_lit("")


def contains_hook(eng, st, cont, item):
    """`symbolic string in {literal keys ...}` (record dictionary without conditional entries)"""
    if isinstance(cont, VObj) and cont.kind == "dict" and isinstance(item, VStr):
        rec = st.objs[cont.oid]
        if rec.get("pure") and all(isinstance(k, str) and isinstance(v, Value) and not isinstance(v, VOpaque) for k, v in rec["pyitems"]):
            return [("ok", st, VBool(z3.Or(*[item.t == id_lit(k) for k, _ in rec["pyitems"]]) if rec["pyitems"] else False))]
    return None


# ---------------------------------------------------------------- abstract callees
def _trace(st, entry):
    return st.setghost("trace", st.ghost.get("trace", ()) + (entry,))


def global_hook(eng, name):
    if name in ("find_external_compartment", "Reaction"):
        return VFunc("abstract", name)
    return None


def call_abstract(eng, st, f, pos, kw):
    if f.a == "find_external_compartment":
        return [("ok", _trace(st, ("find_external_compartment", tuple(pos), st)), VStr(EXT))]
    if f.a == "Reaction":
        # ASSUMED constructor: a new reaction holding id, name and bounds as given; no metabolites; empty annotation dictionary
        if pos or set(kw) != {"id", "name", "lower_bound", "upper_bound"}:
            raise Unsupported("Reaction(...) with other arguments than id=, name=, lower_bound=, upper_bound=")
        st, ann = alloc_obj(st, "dict", {"lazy": True})
        st, o = alloc_obj(st, "NewReaction", dict({"attr:" + k: v for k, v in kw.items()},
                                                  **{"attr:annotation": VObj(ann.oid, "dict", "dict")}))
        return [("ok", st, o)]
    return None


def call_method_hook(eng, st, recv, name, pos, kw):
    if isinstance(recv, VObj) and recv.cls == "NewReaction" and name == "add_metabolites":
        return [("ok", _trace(st, ("add_metabolites", recv, tuple(pos), tuple(sorted(kw.items())), st)), NONE)]
    if isinstance(recv, VObj) and recv.cls == "Model" and name == "add_reactions":
        return [("ok", _trace(st, ("add_reactions", recv, tuple(pos), tuple(sorted(kw.items())), st)), NONE)]
    return None


def getattr_hook(eng, st, v, name):
    if isinstance(v, VObj) and v.cls == "NewReaction" and name == "add_metabolites":
        return [("ok", st, VFunc("bound", v, name))]
    return None


HOOKS = {"getattr": getattr_hook, "fstring": fstring_hook, "truth_str": truth_str_hook, "contains": contains_hook, "global": global_hook,
         "call_abstract": call_abstract, "call_method": call_method_hook}


# ---------------------------------------------------------------- specification
def _cfg(E, which):
    return E.s0.objs[E["configuration"].oid]["attr:" + which]


def _given(E, name, default):
    return default if isinstance(E[name], VNone) else E[name]


def _type_py(E):
    return E["type"].py if isinstance(E["type"], VConc) else None


def _custom(E):
    """the type is none of the three pre-defined ones"""
    if _type_py(E) is not None:
        return z3.BoolVal(_type_py(E) not in PREDEFINED)
    return z3.And(*[E["type"].t != id_lit(k) for k in PREDEFINED])


def _want_id(E):
    """-> string value, or None when there is none (custom type without reaction_id)"""
    if not isinstance(E["reaction_id"], VNone):
        return E["reaction_id"]
    t = _type_py(E)
    if t in PREDEFINED:
        return sjoin([PREDEFINED[t] + "_", VStr(idarr(E, E.s0)[E["metabolite"].t])])
    return None


def _external(E):
    return E.eng.heap_arr(E.s0, "compartment")[E["metabolite"].t] == EXT


def _id_free(E):
    w = _want_id(E)
    if w is None:
        return z3.BoolVal(False)
    return z3.Not(z3.Select(Dv(E.s0, E.s0.objs[E["self"].oid]["attr:reactions"])[0], unwrap(w, "id")))


def _ext_ok(E):
    return _external(E) if _type_py(E) == "exchange" else TRUE()


def _req_ok(E):
    return z3.And(_custom(E) if _type_py(E) is None else TRUE(), _ext_ok(E), _id_free(E))


def _req_not_external(E):
    return z3.Not(_external(E)) if _type_py(E) == "exchange" else z3.BoolVal(False)


def _req_no_id(E):
    return z3.And(_custom(E), z3.BoolVal(_want_id(E) is None))


def _req_in_use(E):
    if _want_id(E) is None:
        return z3.BoolVal(False)
    return z3.And(_custom(E) if _type_py(E) is None else TRUE(), _ext_ok(E), z3.Not(_id_free(E)))


def _real_is(E, got, want):
    try:
        return xr_eq(E.eng.to_real(got), E.eng.to_real(want))
    except Unsupported:
        return z3.BoolVal(False)


def _str_is(got, want):
    if not (isinstance(got, (VStr, VConc)) and isinstance(want, (VStr, VConc))):
        return z3.BoolVal(False)
    return unwrap(got, "id") == unwrap(want, "id")


def _post_ok(E):
    F = z3.BoolVal(False)
    tr = list(E.s1.ghost.get("trace", ()))
    t = _type_py(E)
    rxn = E.res
    if not (isinstance(rxn, VObj) and rxn.cls == "NewReaction"):
        return F
    # the trace: [find_external_compartment(self)] for an exchange, then ONE add_metabolites, then ONE add_reactions - nothing else
    if t == "exchange":
        if not tr or tr[0][0] != "find_external_compartment":
            return F
        fe = tr.pop(0)
        if len(fe[1]) != 1 or not (isinstance(fe[1][0], VObj) and fe[1][0].oid == E["self"].oid):
            return F
    if [x[0] for x in tr] != ["add_metabolites", "add_reactions"]:
        return F
    (_, r1, pos1, kw1, st1), (_, m2, pos2, kw2, st2) = tr
    if r1.oid != rxn.oid or len(pos1) != 1 or kw1 or not (isinstance(pos1[0], VObj) and pos1[0].kind == "dict"):
        return F
    if m2.oid != E["self"].oid or len(pos2) != 1 or kw2 or not (isinstance(pos2[0], VObj) and pos2[0].kind == "pylist"):
        return F
    items = st2.objs[pos2[0].oid]["items"]
    if len(items) != 1 or not (isinstance(items[0], VObj) and items[0].oid == rxn.oid):
        return F
    # the stoichiometry handed over: exactly {metabolite: -1}
    drec = st1.objs[pos1[0].oid]
    if drec.get("lazy") or drec.get("pure") or not drec["kkind"].startswith("ref") or drec["vkind"] != "int":
        return F
    met = E["metabolite"].t
    x = qv("bx", Ref)
    stoich = z3.And(FA([x], z3.Select(drec["dom"], x) == (x == met)), z3.Select(drec["val"], met) == -1)
    # the reaction as it is when add_reactions receives it (and at exit)
    out = [stoich]
    for s_ in (st2, E.s1):
        rr = s_.objs[rxn.oid]
        want_lb = VInt(0) if t == "demand" else _given(E, "lb", _cfg(E, "lower_bound"))
        want_ub = _given(E, "ub", _cfg(E, "upper_bound"))
        want_name = sjoin([VStr(E.eng.heap_arr(E.s0, "name")[met]), " ", E["type"]])
        out += [_str_is(rr["attr:id"], _want_id(E)), _str_is(rr["attr:name"], want_name),
                _real_is(E, rr["attr:lower_bound"], want_lb), _real_is(E, rr["attr:upper_bound"], want_ub)]
        # annotation: {"sbo": term} with term = the given non-empty sbo_term, else the type's default; nothing for a custom type
        # without term or an empty term
        ann = s_.objs[rr["attr:annotation"].oid]
        if isinstance(E["sbo_term"], VNone):
            term, cond = (VConc(cobra.medium.sbo_terms[t]), True) if t in PREDEFINED else (None, False)
        else:
            term, cond = E["sbo_term"], E["sbo_term"].t != id_lit("")
        if ann.get("lazy"):
            out.append(z3.BoolVal(cond is False) if isinstance(cond, bool) else z3.Not(cond))
        elif ann.get("pure") or ann["kkind"] != "id" or ann["vkind"] != "id":
            return F
        else:
            k = qv("bk", Id)
            out += [z3.BoolVal(True) if cond is True else cond,
                    FA([k], z3.Select(ann["dom"], k) == (k == id_lit("sbo"))), z3.Select(ann["val"], id_lit("sbo")) == unwrap(term, "id")]
    return z3.And(*out)


def _post_raise(E):
    """nothing was handed to the model"""
    tr = E.s1.ghost.get("trace", ())
    return z3.BoolVal(all(x[0] == "find_external_compartment" for x in tr))


# ---------------------------------------------------------------- cases: every shape of the optional arguments x the four types
def _cases():
    out = []
    opt = lambda name, T: ((name + "=None", TNone()), (name + "=given", T()))  # noqa
    # one TConc subclass per literal: the coverage check groups cases by parameter type names, each type gets its own group
    lit_t = lambda k: type("TConc_" + k, (TConc,), {})(k)  # noqa
    for tname, ttype in [(k, lit_t(k)) for k in PREDEFINED] + [("custom", TStr())]:
        for (ri, rt) in opt("reaction_id", TStr):
            for (li, lt) in opt("lb", TReal):
                for (ui, ut) in opt("ub", TReal):
                    for (si, st_) in opt("sbo_term", TStr):
                        over = {"type": ttype, "reaction_id": rt, "lb": lt, "ub": ut, "sbo_term": st_}
                        tag = f"{tname},{ri},{li},{ui},{si}"
                        group = []
                        if tname == "custom" and isinstance(rt, TNone):
                            group.append(Case(tag + ":no_id", requires=_req_no_id, raises="ValueError", ensures=_post_raise))
                        else:
                            group.append(Case(tag + ":added", requires=_req_ok, ensures=_post_ok))
                            group.append(Case(tag + ":id_in_use", requires=_req_in_use, raises="ValueError", ensures=_post_raise))
                        if tname == "exchange":
                            group.append(Case(tag + ":not_external", requires=_req_not_external, raises="ValueError",
                                              ensures=_post_raise))
                        for c in group:
                            c.params_override = over
                            if tname == "custom":
                                c.domain = _custom
                        out += group
    return out


REG.add(Contract(MM, "Model.add_boundary", "C02",
                 [("self", TObj("Model", {"reactions": TDictList("Reaction")})), ("metabolite", TRef("Metabolite")), ("type", TStr()),
                  ("reaction_id", TNone()), ("lb", TNone()), ("ub", TNone()), ("sbo_term", TNone()),
                  ("configuration", TObj("Configuration", {"lower_bound": TReal(), "upper_bound": TReal()}))],
                 _cases(), pre=lambda E: WF(E, E.s0, E.s0.objs[E["self"].oid]["attr:reactions"]),
                 modifies=lambda E: [("ghost", "trace", lambda st: ())], key="Model.add_boundary",
                 note="`configuration` is a ghost parameter: the module global of cobra.core.model as seen at entry"))
