"""C10 — the pure-Python decision logic of cobra/io/sbml.py that can be reached; libsbml objects are opaque references.

(1) `_sbml_to_model.process_association(ass)` ("gene rules as Boolean functions", reader side), by STRUCTURAL INDUCTION over the
    libsbml association tree:   sem(result, K) = sem_sbml(ass, K)   for every set K of absent genes, where
        sem       is the Boolean value of a python ast rule tree of contracts/c07_knockout.py (the function GPR._eval_gpr is proved
                  to compute), read in the state at exit,
        sem_sbml  is defined by one-step unfolding over the libsbml tree: FbcOr -> some child true, FbcAnd -> every child true,
                  GeneProductRef -> the gene  tr(getGeneProduct())  is not in K,   tr = f_replace[F_GENE] when f_replace is a
                  non-empty dictionary with the key F_GENE (an UNINTERPRETED function: _f_gene = _clip + un-escaping for the default
                  table), else the identity.
    K is an arbitrary-but-fixed constant (ABSENT): what is proved for it holds for every K, and the induction hypothesis (the
    function's own contract at the recursive calls inside the list comprehension) is used for that very K.
    Also proved: the shape of the node returned (BoolOp(Or) / BoolOp(And) with as many values as the association has children, in
    order: values[i] is the tree returned for child i; Name with the translated id).
    UNKNOWN KIND (not FbcOr / FbcAnd / GeneProductRef) at the root: the function falls off its if-chain and returns None - silently
    (proved, case `other`); an unknown kind BELOW the root is excluded by the precondition wf_fbc(ass) (every node below the root has
    one of the three kinds, no child is None, child counts are >= 0): there the None would end up inside BoolOp.values.
    Partial correctness: termination (finite, acyclic libsbml tree) is assumed, as is the well-foundedness the induction needs.
    ASSUMED (contracts with assumed=True and a note): the libsbml accessors isFbcOr / isFbcAnd / isGeneProductRef (mutually
    exclusive: the three are distinct C++ classes), getListOfAssociations (a sequence), getGeneProduct (a string), the ast
    constructors Or() / And() / BoolOp(op, values) / Name(id=...): each returns a (non-None) node with exactly the fields given.
    AST nodes are treated as IMMUTABLE values: a constructor tells the fields of the node it returns and changes nothing else, the
    trees returned by the recursive calls are known only through the induction hypothesis (their sem), and sem is read in the exit
    state; that no later construction changes the sem of an earlier tree (frame argument by tree induction) is part of this
    assumption and not mechanised.  The tree returned for child c at a recursive call site is named by the ghost function
    process_association_result(c): the identity of nodes is not part of the claim.

Mutation trials (tools/mutate_and_run.sh cobra/io/sbml.py ...), each NOT verified:
    see MUTANTS at the end of this module.
"""
import z3
import cobra  # noqa
from .common import *  # noqa
from . import c07_knockout as G
from . import c10_c11_io as W
from pyvc.values import VReal, xr_eq, id_lit
from pyvc.state import alloc_obj

MS = "cobra/io/sbml.py"
IdSet = G.IdSet
sem, values_len, values_at = G.sem, G.values_len, G.values_at
T_NAME, T_BOOLOP, T_OR, T_AND = G.T_NAME, G.T_BOOLOP, G.T_OR, G.T_AND

REG.classes["FbcAssociation"] = []

# ---------------------------------------------------------------- the libsbml association tree (opaque; accessors ASSUMED)
K_OR, K_AND, K_REF = 1, 2, 3
kindS = z3.Function("fbc_kind", Ref, I)                       # 1 FbcOr, 2 FbcAnd, 3 GeneProductRef, anything else: another kind
nS = z3.Function("fbc_num_associations", Ref, I)
childS = z3.Function("fbc_association_at", Ref, I, Ref)
gpS = z3.Function("fbc_gene_product", Ref, Id)
GENE_TR = z3.Function("f_replace_F_GENE", Id, Id)             # f_replace[F_GENE] as an uninterpreted function
gtr = z3.Function("gene_id_as_read", Id, Id)                  # the translation in force (defined per shape of f_replace)
sem_sbml = z3.Function("sem_sbml", Ref, IdSet, z3.BoolSort())
wfS = z3.Function("wf_fbc", Ref, z3.BoolSort())
conv = z3.Function("process_association_result", Ref, Ref)
ABSENT = z3.Const("c10_absent_genes", IdSet)


def known(x):
    return z3.Or(kindS(x) == K_OR, kindS(x) == K_AND, kindS(x) == K_REF)


def sbml_axioms():
    x, K, i = z3.Const("bx", Ref), z3.Const("bK", IdSet), z3.Int("bi")
    rng = z3.And(0 <= i, i < nS(x))
    return [
        z3.ForAll([x, K], z3.Implies(kindS(x) == K_OR, sem_sbml(x, K) == z3.Exists([i], z3.And(rng, sem_sbml(childS(x, i), K)),
                                                                                    patterns=[childS(x, i)])),
                  patterns=[sem_sbml(x, K)]),
        z3.ForAll([x, K], z3.Implies(kindS(x) == K_AND, sem_sbml(x, K) == z3.ForAll([i], z3.Implies(rng, sem_sbml(childS(x, i), K)),
                                                                                     patterns=[childS(x, i)])),
                  patterns=[sem_sbml(x, K)]),
        z3.ForAll([x, K], z3.Implies(kindS(x) == K_REF, sem_sbml(x, K) == z3.Not(K[gtr(gpS(x))])), patterns=[sem_sbml(x, K)]),
        z3.ForAll([x], z3.Implies(wfS(x), z3.And(x != NULL, z3.Implies(z3.Or(kindS(x) == K_OR, kindS(x) == K_AND), z3.And(
            nS(x) >= 0, z3.ForAll([i], z3.Implies(rng, z3.And(childS(x, i) != NULL, known(childS(x, i)), wfS(childS(x, i)))),
                                  patterns=[childS(x, i)]))))), patterns=[wfS(x)]),
    ]


def _shape_of(v, st):
    """-> 'tr' when f_replace is a non-empty record holding F_GENE, 'id' otherwise"""
    if isinstance(v, VObj) and v.kind == "dict":
        keys = [k for k, _ in st.objs[v.oid].get("pyitems", ())]
        return "tr" if "F_GENE" in keys else "id"
    return "id"


def _pa_axioms(E):
    ax = G.sem_axioms(E, E.s0) + sbml_axioms()
    if "f_replace" in E.a:            # verifying the function: the translation in force for this shape of f_replace
        g = z3.Const("tg", Id)
        if _shape_of(E["f_replace"], E.s0) == "tr":
            ax.append(z3.ForAll([g], gtr(g) == GENE_TR(g), patterns=[gtr(g)]))
        else:
            ax.append(z3.ForAll([g], gtr(g) == g, patterns=[gtr(g)]))
    return ax


def _assumed(key, params, note, result, ensures=None, module="libsbml"):
    return REG.add(Contract(module, key, "C10", params, [Case("any", ensures=ensures)], assumed=True, key=key, result=result, note=note))


_SELF = [("self", TRef("FbcAssociation"))]
for _name, _k in (("isFbcOr", K_OR), ("isFbcAnd", K_AND), ("isGeneProductRef", K_REF)):
    _assumed("FbcAssociation." + _name, _SELF,
             f"libsbml: {_name}() tells the dynamic class of the association (ghost fbc_kind == {_k}); FbcOr, FbcAnd and "
             "GeneProductRef are distinct classes, so at most one of the three tests is true; no side effect",
             (lambda k: lambda eng, st, E: (st, VBool(kindS(E["self"].t) == k)))(_k))
_assumed("FbcAssociation.getListOfAssociations", _SELF,
         "libsbml: the children of an FbcOr / FbcAnd as a sequence of fbc_num_associations(x) >= 0 associations "
         "fbc_association_at(x, i), iterated in document order; no side effect",
         lambda eng, st, E: (st.assume(nS(E["self"].t) >= 0),
                             VSeq(nS(E["self"].t), (lambda x: lambda s, i: VRef(childS(x, i), "FbcAssociation"))(E["self"].t),
                                  tag="fbc-associations")))
_assumed("FbcAssociation.getGeneProduct", _SELF,
         "libsbml: the geneProduct attribute of a GeneProductRef as a string (ghost fbc_gene_product(x)); no side effect",
         lambda eng, st, E: (st, VStr(gpS(E["self"].t))))


# ---------------------------------------------------------------- python ast constructors (ASSUMED: immutable nodes)
def tagA(E, st):
    return E.eng.heap_arr(st, "ast_tag")


def _node(eng, st, E):
    return st, VRef(fresh("ast_node", Ref), "AstNode")


_AST_NOTE = ("python ast: {0} returns a new (non-None) node with {1}; nodes are treated as immutable values - the call tells the "
             "fields of the node it returns and changes nothing else")
for _name, _t in (("Or", T_OR), ("And", T_AND)):
    _assumed("ast." + _name, [], _AST_NOTE.format(_name + "()", f"class {_name}"), _node, module="ast",
             ensures=(lambda t: lambda E: z3.And(E.res.t != NULL, tagA(E, E.s1)[E.res.t] == t))(_t))


def _boolop_post(E):
    x = E.res.t
    rec = E.s0.objs[E["values"].oid]
    j = qv("vj")
    return z3.And(x != NULL, tagA(E, E.s1)[x] == T_BOOLOP, E.eng.heap_arr(E.s1, "op")[x] == E["op"].t, values_len(x) == rec["len"],
                  FA([j], z3.Implies(z3.And(0 <= j, j < rec["len"]), values_at(x, j) == z3.Select(rec["elem"], j)),
                     patterns=[values_at(x, j), z3.Select(rec["elem"], j)]))


_assumed("ast.BoolOp", [("op", TRef("AstNode")), ("values", TList("ref:AstNode"))],
         _AST_NOTE.format("BoolOp(op, values)", "class BoolOp, the operator node given and the values of the list given, in order"),
         _node, ensures=_boolop_post, module="ast")
_assumed("ast.Name", [("id", TStr())], _AST_NOTE.format("Name(id=s)", "class Name and id s"), _node, module="ast",
         ensures=lambda E: z3.And(E.res.t != NULL, tagA(E, E.s1)[E.res.t] == T_NAME,
                                  E.eng.heap_arr(E.s1, "id")[E.res.t] == unwrap(E["id"], "id")))


def _pa_global(eng, name):
    if name in ("Or", "And", "BoolOp", "Name"):
        return VFunc("abstract", "ast." + name)
    return None


def _pa_call_abstract(eng, st, f, pos, kw):
    if f.a == "ast.BoolOp" and len(pos) == 2 and isinstance(pos[1], VObj) and pos[1].kind == "list" and "ass" in eng.entry_args:
        # call-site lemma (OBLIGED, then assumed): the list handed over holds, in order, the results for the children of `ass`
        # - what the list comprehension built, restated with a trigger on the child (fbc_association_at(ass, j))
        a, rec, j = eng.entry_args["ass"].t, st.objs[pos[1].oid], qv("lj")
        lemma = z3.And(rec["len"] == nS(a),
                       FA([j], z3.Implies(z3.And(0 <= j, j < nS(a)), z3.Select(rec["elem"], j) == conv(childS(a, j))),
                          patterns=[childS(a, j), z3.Select(rec["elem"], j)]))
        eng.oblige_split(st, lemma, "call:ast.BoolOp/values-are-the-results-for-the-children", kind="side")
        st = st.assume(lemma)
    if isinstance(f.a, str) and f.a.startswith("ast."):
        return eng.apply_contract(st, eng.reg.get(f.a), pos, kw)
    if f.a == "f_replace[F_GENE]":
        # the id translation: an uninterpreted function of the string it is given
        if len(pos) != 1 or kw or not isinstance(pos[0], (VStr, VConc)):
            raise Unsupported("f_replace[F_GENE] with something else than one string")
        return [("ok", st, VStr(GENE_TR(unwrap(pos[0], "id"))))]
    return None


PA_HOOKS = {"global": _pa_global, "call_abstract": _pa_call_abstract}


# ---------------------------------------------------------------- process_association
def _record(items):
    def make(st, name):
        st, o = alloc_obj(st, "dict", {"pure": True, "pyitems": tuple(items)})
        return st, VObj(o.oid, "dict", "dict")
    return TCustom(make)


_FN = lambda n: VFunc("abstract", f"f_replace[{n}]")  # noqa
F_SHAPES = {
    "f_replace=None": lambda: TNone(),
    "f_replace={}": lambda: _record([]),
    "f_replace=with-F_GENE": lambda: _record([("F_GENE", _FN("F_GENE")), ("F_SPECIE", _FN("F_SPECIE")), ("F_REACTION", _FN("F_REACTION"))]),
    "f_replace=without-F_GENE": lambda: _record([("F_REACTION", _FN("F_REACTION"))]),
}


def _kind_is(k):
    return lambda E: kindS(E["ass"].t) == k


def _pa_sem(E):
    if not isinstance(E.res, VRef):
        return z3.BoolVal(False)
    return z3.And(E.res.t != NULL, sem(E.res.t, ABSENT) == sem_sbml(E["ass"].t, ABSENT))


def _pa_boolop(optag):
    def post(E):
        if not isinstance(E.res, VRef):
            return z3.BoolVal(False)
        x, a = E.res.t, E["ass"].t
        j = qv("pj")
        tg, op = tagA(E, E.s1), E.eng.heap_arr(E.s1, "op")
        return z3.And(_pa_sem(E), tg[x] == T_BOOLOP, op[x] != NULL, tg[op[x]] == optag, values_len(x) == nS(a),
                      FA([j], z3.Implies(z3.And(0 <= j, j < nS(a)), values_at(x, j) == conv(childS(a, j))), patterns=[values_at(x, j)]))
    return post


def _pa_name(E):
    if not isinstance(E.res, VRef):
        return z3.BoolVal(False)
    x = E.res.t
    return z3.And(_pa_sem(E), tagA(E, E.s1)[x] == T_NAME, E.eng.heap_arr(E.s1, "id")[x] == gtr(gpS(E["ass"].t)))


def _pa_cases():
    out = []
    for sname, mk in F_SHAPES.items():
        for kname, req, ens in (("FbcOr", _kind_is(K_OR), _pa_boolop(T_OR)), ("FbcAnd", _kind_is(K_AND), _pa_boolop(T_AND)),
                                ("GeneProductRef", _kind_is(K_REF), _pa_name),
                                ("other", lambda E: z3.Not(known(E["ass"].t)), lambda E: z3.BoolVal(isinstance(E.res, VNone)))):
            c = Case(f"{kname},{sname}", requires=req, ensures=ens)
            c.params_override = {"f_replace": mk()}
            out.append(c)
    return out


def _pa_call_post(E):
    a, r = E["ass"].t, E.res.t
    return z3.And(z3.Implies(known(a), z3.And(r != NULL, sem(r, ABSENT) == sem_sbml(a, ABSENT))),
                  z3.Implies(z3.Not(known(a)), r == NULL))


_pa = REG.add(Contract(MS, "_sbml_to_model.process_association", "C10", [("ass", TRef("FbcAssociation"))], _pa_cases(),
                       pre=lambda E: wfS(E["ass"].t), axioms=_pa_axioms, closure=[("f_replace", TNone())],
                       key="process_association", result=lambda eng, st, E: (st, VRef(conv(E["ass"].t), "AstNode")),
                       note="K (the set of absent genes) is the arbitrary-but-fixed constant c10_absent_genes; at a recursive call "
                            "site the result is the ghost term process_association_result(child)"))
_pa.call_cases = [Case("any", ensures=_pa_call_post)]   # implied by the proved cases (same clauses, stated for the ghost result term)

PA_KEYS = ["process_association"]
