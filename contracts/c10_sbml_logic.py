"""C10 — the pure-Python decision logic of cobra/io/sbml.py that can be reached; libsbml objects are opaque references.

(1) `_sbml_to_model.process_association(ass)` ("gene rules as Boolean functions", reader side), by STRUCTURAL INDUCTION over the
    libsbml association tree:   sem(result, K) = sem_sbml(ass, K)   for every set K of absent genes, where
        sem       is the Boolean value of a python ast rule tree of contracts/c07_knockout.py (the function GPR._eval_gpr is proved
                  to compute), read in the state at exit,
        sem_sbml  is defined by one-step unfolding over the libsbml tree: FbcOr -> some child true, FbcAnd -> every child true,
                  GeneProductRef -> the gene  tr(getGeneProduct())  is not in K,   tr = f_replace[F_GENE] when f_replace is a
                  non-empty dictionary with the key F_GENE (an UNINTERPRETED function: _f_gene = _clip + un-escaping for the default
                  table), else the identity.
    K is an arbitrary-but-fixed constant (ABSENT): what is proved for it holds for every K, and the induction hypothesis (the
    function's own contract at the recursive calls inside the list comprehension) is used for that very K.
    Also proved: the shape of the node returned (BoolOp(Or) / BoolOp(And) with as many values as the association has children, in
    order: values[i] is the tree returned for child i; Name with the translated id).
    UNKNOWN KIND (not FbcOr / FbcAnd / GeneProductRef) at the root: the function falls off its if-chain and returns None - silently
    (proved, case `other`); an unknown kind BELOW the root is excluded by the precondition wf_fbc(ass) (every node below the root has
    one of the three kinds, no child is None, child counts are >= 0): there the None would end up inside BoolOp.values.
    Partial correctness: termination (finite, acyclic libsbml tree) is assumed, as is the well-foundedness the induction needs.
    ASSUMED (contracts with assumed=True and a note): the libsbml accessors isFbcOr / isFbcAnd / isGeneProductRef (mutually
    exclusive: the three are distinct C++ classes), getListOfAssociations (a sequence), getGeneProduct (a string), the ast
    constructors Or() / And() / BoolOp(op, values) / Name(id=...): each returns a (non-None) node with exactly the fields given.
    AST nodes are treated as IMMUTABLE values: a constructor tells the fields of the node it returns and changes nothing else, the
    trees returned by the recursive calls are known only through the induction hypothesis (their sem), and sem is read in the exit
    state; that no later construction changes the sem of an earlier tree (frame argument by tree induction) is part of this
    assumption and not mechanised.  The tree returned for child c at a recursive call site is named by the ghost function
    process_association_result(c): the identity of nodes is not part of the claim.

(2) `_check_required` (returns the value when it is a non-empty string; CobraSBMLError otherwise, with the message text
    "Required attribute '<attribute>' cannot be found or parsed in '<str(sbase)>'." followed by " with id '<id>'", else " with name
    '<name>'", else " with metaId '...'" for the first of getId / getName / getMetaId the object has and that is non-empty),
    `_check` (the libsbml return-code convention: never raises, returns None; None -> one error logged, an int other than
    LIBSBML_OPERATION_SUCCESS -> two errors logged, success / bool / any other class -> nothing; its docstring's "exits with status
    code 1" is NOT what the code does - stated, not a proved clause), `_create_parameter` against a model of the libsbml calls
    (key _create_parameter@libsbml: this discharges what contracts/c10_c11_io.py assumed) and the cross-function obligation of
    `_create_bound`: `_model_to_sbml` creates the five shared parameters under the ids `_create_bound` hands out with
    config.lower_bound / config.upper_bound / 0 / -inf / +inf (key _model_to_sbml@default-parameters, restricted path: see there).
(3) `_parse_annotation_info` (regular expression assumed) and the collection logic of `_parse_annotations`: see the section; the
    ORDER of the identifiers (first occurrence) is in contracts/c10_ann_order.py.
(4) the reader's flux-bound decision sits in the middle of the 500-line `_sbml_to_model` (inside the loop over reactions): there
    is no way to start the symbolic execution at a statement inside a function without an engine extension - left out.

FINDINGS (reproduced natively with /venv/bin/python against /repo, see the report; the keys in FINDING_KEYS are NOT wired):
  F1  SId collision, C10 "the SBML validator accepts": reactions "A" (lower bound -5, i.e. not one of the five shared values) and
      "A_lower_bound": the bound parameter of A gets the id R_A_lower_bound, which is also the SId of the second reaction; libsbml's
      validator reports "Duplicate 'id' attribute value" (the proof obligation this blocks: `_create_bound` keeps the five shared
      entries / creates a NEW id - rid + "_" + bound_type is not fresh).
  F2  `_check_required`, metaId branch: the message quotes getName() (necessarily empty there) instead of getMetaId():
      "... in '<Species>'. with metaId ''" (key _check_required@intended-message fails on exactly these exits).
  F3  `_parse_annotations`: "a single string for one identifier, a list for several" does not hold: the same identifier met twice
      (two qualifiers, or http:// and https:// forms of one uri) gives {'chebi': ['CHEBI:1']}, a list of ONE; the writer then emits
      one resource and the next read gives 'CHEBI:1' - annotation {'chebi': ['CHEBI:1']} is not preserved by the first round trip
      (key _parse_annotations@single-string-for-one fails with `sat` on the clause llen >= 2).

Mutation trials (tools/mutate_and_run.sh cobra/io/sbml.py ...), each NOT verified: see MUTANTS at the end of this module.
"""
import z3
import cobra  # noqa
from .common import *  # noqa
from . import c07_knockout as G
from . import c10_c11_io as W
from pyvc.values import VReal, xr_eq, id_lit
from pyvc.state import alloc_obj

MS = "cobra/io/sbml.py"
IdSet = G.IdSet
sem, values_len, values_at = G.sem, G.values_len, G.values_at
T_NAME, T_BOOLOP, T_OR, T_AND = G.T_NAME, G.T_BOOLOP, G.T_OR, G.T_AND

REG.classes["FbcAssociation"] = []

# ---------------------------------------------------------------- the libsbml association tree (opaque; accessors ASSUMED)
K_OR, K_AND, K_REF = 1, 2, 3
kindS = z3.Function("fbc_kind", Ref, I)                       # 1 FbcOr, 2 FbcAnd, 3 GeneProductRef, anything else: another kind
nS = z3.Function("fbc_num_associations", Ref, I)
childS = z3.Function("fbc_association_at", Ref, I, Ref)
gpS = z3.Function("fbc_gene_product", Ref, Id)
GENE_TR = z3.Function("f_replace_F_GENE", Id, Id)             # f_replace[F_GENE] as an uninterpreted function
gtr = z3.Function("gene_id_as_read", Id, Id)                  # the translation in force (defined per shape of f_replace)
sem_sbml = z3.Function("sem_sbml", Ref, IdSet, z3.BoolSort())
wfS = z3.Function("wf_fbc", Ref, z3.BoolSort())
conv = z3.Function("process_association_result", Ref, Ref)
ABSENT = z3.Const("c10_absent_genes", IdSet)


def known(x):
    return z3.Or(kindS(x) == K_OR, kindS(x) == K_AND, kindS(x) == K_REF)


def sbml_axioms():
    x, K, i = z3.Const("bx", Ref), z3.Const("bK", IdSet), z3.Int("bi")
    rng = z3.And(0 <= i, i < nS(x))
    return [
        z3.ForAll([x, K], z3.Implies(kindS(x) == K_OR, sem_sbml(x, K) == z3.Exists([i], z3.And(rng, sem_sbml(childS(x, i), K)),
                                                                                    patterns=[childS(x, i)])),
                  patterns=[sem_sbml(x, K)]),
        z3.ForAll([x, K], z3.Implies(kindS(x) == K_AND, sem_sbml(x, K) == z3.ForAll([i], z3.Implies(rng, sem_sbml(childS(x, i), K)),
                                                                                     patterns=[childS(x, i)])),
                  patterns=[sem_sbml(x, K)]),
        z3.ForAll([x, K], z3.Implies(kindS(x) == K_REF, sem_sbml(x, K) == z3.Not(K[gtr(gpS(x))])), patterns=[sem_sbml(x, K)]),
        z3.ForAll([x], z3.Implies(wfS(x), z3.And(x != NULL, z3.Implies(z3.Or(kindS(x) == K_OR, kindS(x) == K_AND), z3.And(
            nS(x) >= 0, z3.ForAll([i], z3.Implies(rng, z3.And(childS(x, i) != NULL, known(childS(x, i)), wfS(childS(x, i)))),
                                  patterns=[childS(x, i)]))))), patterns=[wfS(x)]),
    ]


def _shape_of(v, st):
    """-> 'tr' when f_replace is a non-empty record holding F_GENE, 'id' otherwise"""
    if isinstance(v, VObj) and v.kind == "dict":
        keys = [k for k, _ in st.objs[v.oid].get("pyitems", ())]
        return "tr" if "F_GENE" in keys else "id"
    return "id"


def _pa_axioms(E):
    ax = G.sem_axioms(E, E.s0) + sbml_axioms()
    if "f_replace" in E.a:            # verifying the function: the translation in force for this shape of f_replace
        g = z3.Const("tg", Id)
        if _shape_of(E["f_replace"], E.s0) == "tr":
            ax.append(z3.ForAll([g], gtr(g) == GENE_TR(g), patterns=[gtr(g)]))
        else:
            ax.append(z3.ForAll([g], gtr(g) == g, patterns=[gtr(g)]))
    return ax


def _assumed(key, params, note, result, ensures=None, module="libsbml"):
    return REG.add(Contract(module, key, "C10", params, [Case("any", ensures=ensures)], assumed=True, key=key, result=result, note=note))


_SELF = [("self", TRef("FbcAssociation"))]
for _name, _k in (("isFbcOr", K_OR), ("isFbcAnd", K_AND), ("isGeneProductRef", K_REF)):
    _assumed("FbcAssociation." + _name, _SELF,
             f"libsbml: {_name}() tells the dynamic class of the association (ghost fbc_kind == {_k}); FbcOr, FbcAnd and "
             "GeneProductRef are distinct classes, so at most one of the three tests is true; no side effect",
             (lambda k: lambda eng, st, E: (st, VBool(kindS(E["self"].t) == k)))(_k))
_assumed("FbcAssociation.getListOfAssociations", _SELF,
         "libsbml: the children of an FbcOr / FbcAnd as a sequence of fbc_num_associations(x) >= 0 associations "
         "fbc_association_at(x, i), iterated in document order; no side effect",
         lambda eng, st, E: (st.assume(nS(E["self"].t) >= 0),
                             VSeq(nS(E["self"].t), (lambda x: lambda s, i: VRef(childS(x, i), "FbcAssociation"))(E["self"].t),
                                  tag="fbc-associations")))
_assumed("FbcAssociation.getGeneProduct", _SELF,
         "libsbml: the geneProduct attribute of a GeneProductRef as a string (ghost fbc_gene_product(x)); no side effect",
         lambda eng, st, E: (st, VStr(gpS(E["self"].t))))


# ---------------------------------------------------------------- python ast constructors (ASSUMED: immutable nodes)
def tagA(E, st):
    return E.eng.heap_arr(st, "ast_tag")


def _node(eng, st, E):
    return st, VRef(fresh("ast_node", Ref), "AstNode")


_AST_NOTE = ("python ast: {0} returns a new (non-None) node with {1}; nodes are treated as immutable values - the call tells the "
             "fields of the node it returns and changes nothing else")
for _name, _t in (("Or", T_OR), ("And", T_AND)):
    _assumed("ast." + _name, [], _AST_NOTE.format(_name + "()", f"class {_name}"), _node, module="ast",
             ensures=(lambda t: lambda E: z3.And(E.res.t != NULL, tagA(E, E.s1)[E.res.t] == t))(_t))


def _boolop_post(E):
    x = E.res.t
    rec = E.s0.objs[E["values"].oid]
    j = qv("vj")
    return z3.And(x != NULL, tagA(E, E.s1)[x] == T_BOOLOP, E.eng.heap_arr(E.s1, "op")[x] == E["op"].t, values_len(x) == rec["len"],
                  FA([j], z3.Implies(z3.And(0 <= j, j < rec["len"]), values_at(x, j) == z3.Select(rec["elem"], j)),
                     patterns=[values_at(x, j), z3.Select(rec["elem"], j)]))


_assumed("ast.BoolOp", [("op", TRef("AstNode")), ("values", TList("ref:AstNode"))],
         _AST_NOTE.format("BoolOp(op, values)", "class BoolOp, the operator node given and the values of the list given, in order"),
         _node, ensures=_boolop_post, module="ast")
_assumed("ast.Name", [("id", TStr())], _AST_NOTE.format("Name(id=s)", "class Name and id s"), _node, module="ast",
         ensures=lambda E: z3.And(E.res.t != NULL, tagA(E, E.s1)[E.res.t] == T_NAME,
                                  E.eng.heap_arr(E.s1, "id")[E.res.t] == unwrap(E["id"], "id")))


def _pa_global(eng, name):
    if name in ("Or", "And", "BoolOp", "Name"):
        return VFunc("abstract", "ast." + name)
    return None


def _pa_call_abstract(eng, st, f, pos, kw):
    if f.a == "ast.BoolOp" and len(pos) == 2 and isinstance(pos[1], VObj) and pos[1].kind == "list" and "ass" in eng.entry_args:
        # call-site lemma (OBLIGED, then assumed): the list handed over holds, in order, the results for the children of `ass`
        # - what the list comprehension built, restated with a trigger on the child (fbc_association_at(ass, j))
        a, rec, j = eng.entry_args["ass"].t, st.objs[pos[1].oid], qv("lj")
        lemma = z3.And(rec["len"] == nS(a),
                       FA([j], z3.Implies(z3.And(0 <= j, j < nS(a)), z3.Select(rec["elem"], j) == conv(childS(a, j))),
                          patterns=[childS(a, j), z3.Select(rec["elem"], j)]))
        eng.oblige_split(st, lemma, "call:ast.BoolOp/values-are-the-results-for-the-children", kind="side")
        st = st.assume(lemma)
    if isinstance(f.a, str) and f.a.startswith("ast."):
        return eng.apply_contract(st, eng.reg.get(f.a), pos, kw)
    if f.a == "f_replace[F_GENE]":
        # the id translation: an uninterpreted function of the string it is given
        if len(pos) != 1 or kw or not isinstance(pos[0], (VStr, VConc)):
            raise Unsupported("f_replace[F_GENE] with something else than one string")
        return [("ok", st, VStr(GENE_TR(unwrap(pos[0], "id"))))]
    return None


PA_HOOKS = {"global": _pa_global, "call_abstract": _pa_call_abstract}


# ---------------------------------------------------------------- process_association
def _record(items):
    def make(st, name):
        st, o = alloc_obj(st, "dict", {"pure": True, "pyitems": tuple(items)})
        return st, VObj(o.oid, "dict", "dict")
    return TCustom(make)


_FN = lambda n: VFunc("abstract", f"f_replace[{n}]")  # noqa
F_SHAPES = {
    "f_replace=None": lambda: TNone(),
    "f_replace={}": lambda: _record([]),
    "f_replace=with-F_GENE": lambda: _record([("F_GENE", _FN("F_GENE")), ("F_SPECIE", _FN("F_SPECIE")), ("F_REACTION", _FN("F_REACTION"))]),
    "f_replace=without-F_GENE": lambda: _record([("F_REACTION", _FN("F_REACTION"))]),
}


def _kind_is(k):
    return lambda E: kindS(E["ass"].t) == k


def _pa_sem(E):
    if not isinstance(E.res, VRef):
        return z3.BoolVal(False)
    return z3.And(E.res.t != NULL, sem(E.res.t, ABSENT) == sem_sbml(E["ass"].t, ABSENT))


def _pa_boolop(optag):
    def post(E):
        if not isinstance(E.res, VRef):
            return z3.BoolVal(False)
        x, a = E.res.t, E["ass"].t
        j = qv("pj")
        tg, op = tagA(E, E.s1), E.eng.heap_arr(E.s1, "op")
        return z3.And(_pa_sem(E), tg[x] == T_BOOLOP, op[x] != NULL, tg[op[x]] == optag, values_len(x) == nS(a),
                      FA([j], z3.Implies(z3.And(0 <= j, j < nS(a)), values_at(x, j) == conv(childS(a, j))), patterns=[values_at(x, j)]))
    return post


def _pa_name(E):
    if not isinstance(E.res, VRef):
        return z3.BoolVal(False)
    x = E.res.t
    return z3.And(_pa_sem(E), tagA(E, E.s1)[x] == T_NAME, E.eng.heap_arr(E.s1, "id")[x] == gtr(gpS(E["ass"].t)))


def _pa_cases():
    out = []
    for sname, mk in F_SHAPES.items():
        for kname, req, ens in (("FbcOr", _kind_is(K_OR), _pa_boolop(T_OR)), ("FbcAnd", _kind_is(K_AND), _pa_boolop(T_AND)),
                                ("GeneProductRef", _kind_is(K_REF), _pa_name),
                                ("other", lambda E: z3.Not(known(E["ass"].t)), lambda E: z3.BoolVal(isinstance(E.res, VNone)))):
            c = Case(f"{kname},{sname}", requires=req, ensures=ens)
            c.params_override = {"f_replace": mk()}
            out.append(c)
    return out


def _pa_call_post(E):
    a, r = E["ass"].t, E.res.t
    return z3.And(z3.Implies(known(a), z3.And(r != NULL, sem(r, ABSENT) == sem_sbml(a, ABSENT))),
                  z3.Implies(z3.Not(known(a)), r == NULL))


_pa = REG.add(Contract(MS, "_sbml_to_model.process_association", "C10", [("ass", TRef("FbcAssociation"))], _pa_cases(),
                       pre=lambda E: wfS(E["ass"].t), axioms=_pa_axioms, closure=[("f_replace", TNone())],
                       key="process_association", result=lambda eng, st, E: (st, VRef(conv(E["ass"].t), "AstNode")),
                       note="K (the set of absent genes) is the arbitrary-but-fixed constant c10_absent_genes; at a recursive call "
                            "site the result is the ghost term process_association_result(child)"))
_pa.call_cases = [Case("any", ensures=_pa_call_post)]   # implied by the proved cases (same clauses, stated for the ghost result term)

PA_KEYS = ["process_association"]


# ================================================================ (2) _check_required, _check, _create_parameter
# sbase: an opaque libsbml object; its accessors getId / getName / getMetaId are ASSUMED to return strings (ghost functions
# sbase_id / sbase_name / sbase_metaid; libsbml returns "" for an unset attribute), hasattr(sbase, m) is the ghost predicate
# sbase_has_method; str(sbase) inside the message is the ghost string sbase_str.  Messages are built with the opaque concatenation
# STR_CONCAT (f-strings folded piece by piece, adjacent literals merged - contracts/c02_boundary.sjoin).
from . import c02_boundary as BD  # noqa: E402
from pyvc import engine as _ENG  # noqa: E402
from pyvc.engine import STR_CONCAT  # noqa: E402

_ENG.EXC_PARENTS.setdefault("CobraSBMLError", "Exception")
REG.classes["SBase"] = []
idS, nameS, metaS = (z3.Function(n, Ref, Id) for n in ("sbase_id", "sbase_name", "sbase_metaid"))
strS = z3.Function("sbase_str", Ref, Id)
hasS = z3.Function("sbase_has_method", Ref, Id, z3.BoolSort())
VALID_SID = z3.Function("libsbml_isValidSBMLSId", Id, z3.BoolSort())
_SB = [("self", TRef("SBase"))]
for _m, _f in (("getId", idS), ("getName", nameS), ("getMetaId", metaS)):
    _assumed("SBase." + _m, _SB, f"libsbml: {_m}() returns the attribute as a string (ghost {_f.name()}(x)), '' when it is not set; no "
             "side effect", (lambda f: lambda eng, st, E: (st, VStr(f(E["self"].t))))(_f))


def _cr_hasattr(eng, st, v, name):
    if isinstance(v, VRef) and v.cls == "SBase":
        return hasS(v.t, id_lit(name))
    return None


def _cr_fstring(eng, st, node, vs):
    vs = [VStr(strS(v.t)) if isinstance(v, VRef) and v.cls == "SBase" else v for v in vs]
    return BD.fstring_hook(eng, st, node, vs)


def _cr_global(eng, name):
    if name == "libsbml":
        return VOpaque("libsbml")
    return None


def _cr_truth(eng, st, v):
    # the truth value of an opaque libsbml answer (SyntaxChecker.isValidSBMLSId(value) ...): an unknown Boolean
    if isinstance(v, VOpaque):
        return fresh("opaque_truth", z3.BoolSort())
    return None


CR_HOOKS = {"hasattr": _cr_hasattr, "fstring": _cr_fstring, "truth_str": BD.truth_str_hook, "global": _cr_global, "truth": _cr_truth}


def _nonempty(t):
    return t != id_lit("")


def cr_message(E, intended):
    """the message of the CobraSBMLError as a z3 string term: base text + what identifies the object (id, else name, else metaId)"""
    x = E["sbase"].t
    base = unwrap(BD.sjoin(["Required attribute '", E["attribute"], "' cannot be found or parsed in '", VStr(strS(x)), "'."]), "id")
    suf = lambda label, t: unwrap(BD.sjoin([f" with {label} '", VStr(t), "'"]), "id")  # noqa
    has = lambda m: hasS(x, id_lit(m))  # noqa
    c_id = z3.And(has("getId"), _nonempty(idS(x)))
    c_name = z3.And(has("getName"), _nonempty(nameS(x)))
    c_meta = z3.And(has("getMetaId"), _nonempty(metaS(x)))
    meta_txt = metaS(x) if intended else nameS(x)
    return z3.If(c_id, STR_CONCAT(base, suf("id", idS(x))),
                 z3.If(c_name, STR_CONCAT(base, suf("name", nameS(x))),
                       z3.If(c_meta, STR_CONCAT(base, suf("metaId", meta_txt)), base)))


def _cr_raise_post(intended):
    def post(E):
        ev = getattr(E, "exc_value", None)
        if ev is None or len(ev.args) != 1 or not isinstance(ev.args[0], (VStr, VConc)):
            return z3.BoolVal(False)
        return unwrap(ev.args[0], "id") == cr_message(E, intended)
    return post


def _cr_cases(intended):
    out = []
    c = Case("value=None", raises="CobraSBMLError", ensures=_cr_raise_post(intended))
    c.params_override = {"value": TNone()}
    out.append(c)
    c = Case("value=''", requires=lambda E: E["value"].t == id_lit(""), raises="CobraSBMLError", ensures=_cr_raise_post(intended))
    c.params_override = {"value": TStr()}
    out.append(c)
    c = Case("value-set", requires=lambda E: E["value"].t != id_lit(""),
             ensures=lambda E: z3.BoolVal(isinstance(E.res, VStr)) if not isinstance(E.res, VStr) else E.res.t == E["value"].t)
    c.params_override = {"value": TStr()}
    out.append(c)
    return out


_CR_PARAMS = [("sbase", TRef("SBase")), ("value", TStr()), ("attribute", TStr())]
# wired: the message as the code builds it - in the metaId branch the text quoted is getName() (necessarily '' there), NOT the
# metaId (finding, reproduced natively: "... in '<Species>'. with metaId ''" for a species that has only metaid="meta_only_42")
REG.add(Contract(MS, "_check_required", "C10", _CR_PARAMS, _cr_cases(False), key="_check_required"))
# NOT wired (fails on exactly that branch): the message the code means to build, with the metaId quoted
REG.add(Contract(MS, "_check_required", "C10", _CR_PARAMS, _cr_cases(True), key="_check_required@intended-message"))


# ---------------------------------------------------------------- _check: the libsbml return-code convention
# _check never raises and returns None (its docstring's "exits with status code 1" is not what it does - it only logs):
#   value None -> one error logged;  an int equal to LIBSBML_OPERATION_SUCCESS (0) -> nothing;  any other int -> two errors logged;
#   anything else (not None, type is not int - a bool included) -> nothing.
# The log calls are recorded in a ghost counter through the `call_method` hook on LOGGER.
def _ck_logged(st):
    return st.ghost.get("c10_logged", z3.IntVal(0))


def _ck_log_call(eng, st, recv, method, node):
    # hook `log_call` (pyvc/engine.s_Expr): LOGGER.<method>(...) statements are counted, their arguments are not evaluated
    if recv == "LOGGER":
        st = st.setghost("c10_logged", _ck_logged(st) + (1 if method == "error" else 0))
        return st.setghost("c10_logged_other", st.ghost.get("c10_logged_other", 0) + (0 if method == "error" else 1))
    return None


CK_HOOKS = {"log_call": _ck_log_call}


def _ck_post(n):
    return lambda E: z3.And(z3.BoolVal(isinstance(E.res, VNone)), z3.simplify(_ck_logged(E.s1) - _ck_logged(E.s0)) == n,
                            z3.BoolVal(E.s1.ghost.get("c10_logged_other", 0) == 0))


def _ck_cases():
    out = []
    for tag, t, req, n in (("None", TNone(), None, 1), ("int:success", TInt(), lambda E: E["value"].t == 0, 0),
                           ("int:failure", TInt(), lambda E: E["value"].t != 0, 2), ("bool", TBool(), None, 0), ("str", TStr(), None, 0),
                           ("float", TReal(), None, 0)):
        c = Case("value=" + tag, requires=req, ensures=_ck_post(n))
        c.params_override = {"value": t}
        out.append(c)
    return out


REG.add(Contract(MS, "_check", "C10", [("value", TNone()), ("message", TStr())], _ck_cases(), key="_check",
                 modifies=lambda E: [("ghost", "c10_logged", lambda st: fresh("logged", I))],
                 note="LIBSBML_OPERATION_SUCCESS is read from the installed libsbml (0); `type(value) is int` is decided by the "
                      "python class of the argument (bool is not int)"))
CHECK_KEYS = ["_check_required", "_check"]
FINDING_KEYS = ["_check_required@intended-message"]


# ---------------------------------------------------------------- _create_parameter against the libsbml API (key _create_parameter@libsbml)
# contracts/c10_c11_io.py ASSUMES `_create_parameter` (ghost table ptab: id -> value).  Here its body is verified against a model of
# the libsbml calls it makes: model.createParameter() returns a NEW parameter object (recorded in the ghost list c10_created),
# setId / setValue / setConstant / setSBOTerm / setUnits store what they are given, and - the ASSUMED meaning of the libsbml API -
# a parameter that has received setId(i) and setValue(v) makes the model's table map i to v (ptab := ptab[i -> v]).
# Proved: exactly ONE parameter is created; it gets id = pid, value = value, constant = constant, the SBO term exactly when `sbo` is a
# non-empty string, the units flux_udef.getId() exactly when `units` is true; and the table afterwards is ptab[pid -> value]
# (the post-condition c10_c11_io assumed).
REG.classes["SbmlModel"] = []
REG.classes["SbmlParameter"] = []
_P_ATTRS = ("id", "value", "constant", "sbo", "units")


def _cp_getattr(eng, st, v, name):
    if isinstance(v, VObj) and v.cls in ("SbmlModel", "SbmlParameter") and "attr:" + name not in st.objs[v.oid]:
        return [("ok", st, VFunc("bound", v, name))]
    return None


def _cp_call_method(eng, st, recv, name, pos, kw):
    if isinstance(recv, VObj) and recv.cls == "SbmlModel" and name == "createParameter" and not pos and not kw:
        st, p = alloc_obj(st, "SbmlParameter", {"attr:" + a: NONE for a in _P_ATTRS})
        return [("ok", st.setghost("c10_created", st.ghost.get("c10_created", ()) + (p,)), p)]
    setters = {"setId": "id", "setValue": "value", "setConstant": "constant", "setSBOTerm": "sbo", "setUnits": "units"}
    if isinstance(recv, VObj) and recv.cls == "SbmlParameter" and name in setters and len(pos) == 1 and not kw:
        st = st.updobj(recv.oid, **{"attr:" + setters[name]: pos[0]})
        rec = st.objs[recv.oid]
        if name in ("setId", "setValue") and not isinstance(rec["attr:id"], VNone) and not isinstance(rec["attr:value"], VNone):
            k0, v0 = W.ptab(st)
            val = eng.to_real(rec["attr:value"])
            pid = unwrap(rec["attr:id"], "id")
            st = st.setghost("ptab", (z3.Store(k0, pid, val.k), z3.Store(v0, pid, val.v)))
        return [("ok", st, VInt(0))]
    return None


CP_HOOKS = chain_hooks({"getattr": _cp_getattr, "call_method": _cp_call_method, "truth_str": BD.truth_str_hook}, W.HOOKS)


def _cp_body_post(E):
    created = E.s1.ghost.get("c10_created", ())
    if len(created) != 1:
        return z3.BoolVal(False)
    rec = E.s1.objs[created[0].oid]
    b = lambda c: z3.BoolVal(c) if isinstance(c, bool) else c  # noqa
    same = lambda got, want: z3.BoolVal(False) if isinstance(got, (VNone, VObj)) else b(E.eng.eq(E.s1, got, want))  # noqa
    cs = [same(rec["attr:id"], E["pid"]), same(rec["attr:value"], E["value"]), same(rec["attr:constant"], E["constant"])]
    sbo, units = E["sbo"], E["units"]
    want_sbo = z3.BoolVal(False) if isinstance(sbo, VNone) else sbo.t != id_lit("")
    cs.append(z3.Not(want_sbo) if isinstance(rec["attr:sbo"], VNone) else z3.And(want_sbo, same(rec["attr:sbo"], sbo)))
    want_units = z3.BoolVal(False) if isinstance(units, VNone) else units.t
    if isinstance(rec["attr:units"], VNone):
        cs.append(z3.Not(want_units))
    else:
        cs.append(z3.And(want_units, z3.BoolVal(isinstance(E["flux_udef"], VRef)),
                         same(rec["attr:units"], VStr(idS(E["flux_udef"].t))) if isinstance(E["flux_udef"], VRef) else z3.BoolVal(False)))
    return z3.And(W._cp_post(E), *cs)


def _cp_body_cases():
    out = []
    for sn, st_ in (("sbo=None", TNone), ("sbo=str", TStr)):
        for un, ut, ft in (("units=None", TNone, TNone), ("units=bool", TBool, lambda: TRef("SBase"))):
            c = Case(f"{sn},{un}", ensures=_cp_body_post)
            c.params_override = {"sbo": st_(), "units": ut(), "flux_udef": ft()}
            out.append(c)
    return out


def _sbml_model(st, name):
    return alloc_obj(st, "SbmlModel", {})


REG.add(Contract(MS, "_create_parameter", "C10", [("model", TCustom(_sbml_model)), ("pid", TStr()), ("value", TReal()), ("sbo", TNone()),
                                                   ("constant", TBool()), ("units", TNone()), ("flux_udef", TNone())],
                 _cp_body_cases(), key="_create_parameter@libsbml",
                 modifies=lambda E: [("ghost", "ptab", lambda st: (fresh("ptab_k", W.RealMap[0]), fresh("ptab_v", W.RealMap[1]))),
                                     ("ghost", "c10_created", lambda st: ())]))
CP_KEYS = ["_create_parameter@libsbml"]


# ---------------------------------------------------------------- _model_to_sbml: the five shared parameters (cross-function obligation)
# `_create_bound` (contracts/c10_c11_io.py) is proved RELATIVE to `_defaults_ok`: the parameter table maps cobra_default_lb /
# cobra_default_ub / cobra_0_bound / minus_inf / plus_inf to config.lower_bound / config.upper_bound / 0 / -inf / +inf.  Here the real
# source of `_model_to_sbml` is executed and `_defaults_ok` is proved of the table AT EXIT - on a RESTRICTED PATH, stated as the
# shape of the arguments: a model with an id and a name, WITHOUT compartments, metabolites, genes, reactions and groups (the five
# loops run zero times), without `_sbml` meta data, objective direction "max", f_replace None / {} and units True / False.  The
# five `_create_parameter` calls are straight-line code before the first loop and depend on nothing but `config`, so the
# restriction loses nothing for THEM; what it does not show is that the loops keep the five entries (a reaction loop iteration
# calls `_create_bound`, whose new parameter id  rid + "_" + bound_type  is an opaque concatenation - see the finding on colliding
# SIds in the report).  libsbml objects are opaque values; `_sbase_annotations` / `_sbase_notes_dict` /
# `linear_reaction_coefficients` are ASSUMED not to touch the parameter table.
for _fn in ("_sbase_annotations", "_sbase_notes_dict"):
    REG.add(Contract(MS, _fn, "C10", [("sbase", TNone()), ("data", TNone())], [Case("any")], assumed=True, key="C10:" + _fn,
                     note=f"{_fn}(sbase, d): writes annotation / notes XML on one libsbml object through libsbml calls; creates no "
                          "parameter (the ghost parameter table is unchanged)"))


def _m2s_global(eng, name):
    if name == "libsbml":
        return VOpaque("libsbml")
    if name == "UNITS_FLUX":
        return VTuple((VConc("mmol_per_gDW_per_hr"), VTuple(tuple(VOpaque("Unit") for _ in range(4)))))
    if name in ("_sbase_annotations", "_sbase_notes_dict"):
        return VFunc("repo", "C10:" + name)
    if name == "linear_reaction_coefficients":
        return VFunc("abstract", name)
    return None


def _m2s_call_abstract(eng, st, f, pos, kw):
    if f.a == "linear_reaction_coefficients":
        return [("ok", st, VOpaque("reaction_coefficients"))]
    return None


M2S_HOOKS = chain_hooks({"global": _m2s_global, "call_abstract": _m2s_call_abstract, "truth_str": BD.truth_str_hook}, W.HOOKS)


def _empty_model(st, name):
    st, ann = alloc_obj(st, "dict", {"lazy": True})
    st, notes = alloc_obj(st, "dict", {"lazy": True})
    st, comp = alloc_obj(st, "dict", {"pure": True, "pyitems": ()})
    st, obj = alloc_obj(st, "OptlangObjective", {"attr:direction": VConc("max")})
    return alloc_obj(st, "ModelView", {
        "attr:id": VStr(z3.Const(name + "_id", Id)), "attr:name": VStr(z3.Const(name + "_name", Id)),
        "attr:annotation": VObj(ann.oid, "dict", "dict"), "attr:notes": VObj(notes.oid, "dict", "dict"),
        "attr:compartments": VObj(comp.oid, "dict", "dict"), "attr:metabolites": VTuple(()), "attr:genes": VTuple(()),
        "attr:reactions": VTuple(()), "attr:groups": VTuple(()), "attr:objective": obj})


REG.classes["ModelView"] = []
REG.classes["OptlangObjective"] = []


def _m2s_post(E):
    lo, hi = W.cfg_bounds()
    pv = lambda n: W.pval(E.s1, id_lit(n))  # noqa
    return z3.And(xr_eq(pv("cobra_default_lb"), lo), xr_eq(pv("cobra_default_ub"), hi), xr_eq(pv("cobra_0_bound"), VReal(0, 0)),
                  xr_eq(pv("minus_inf"), VReal(-1, 0)), xr_eq(pv("plus_inf"), VReal(1, 0)))


def _m2s_cases():
    out = []
    for fn, ft in (("f_replace=None", TNone), ("f_replace={}", lambda: _record([]))):
        c = Case(f"empty-model,{fn}", ensures=_m2s_post)
        c.params_override = {"f_replace": ft()}
        out.append(c)
    return out


def _m2s_pre(E):
    lo, hi = W.cfg_bounds()
    return z3.And(lo.k >= -1, lo.k <= 1, hi.k >= -1, hi.k <= 1)


REG.add(Contract(MS, "_model_to_sbml", "C10", [("cobra_model", TCustom(_empty_model)), ("f_replace", TNone()), ("units", TBool())],
                 _m2s_cases(), pre=_m2s_pre, key="_model_to_sbml@default-parameters", result="opaque",
                 modifies=lambda E: [("ghost", "ptab", lambda st: (fresh("ptab_k", W.RealMap[0]), fresh("ptab_v", W.RealMap[1])))],
                 note="restricted path: model without compartments / metabolites / genes / reactions / groups / _sbml"))
M2S_KEYS = ["_model_to_sbml@default-parameters"]


# ================================================================ (3) _parse_annotation_info / _parse_annotations
# The regular expression is an ASSUMED function of the uri: URL_IDENTIFIERS_PATTERN.match(uri) is None unless re_matches(uri), else
# a match object whose group(1) / group(2) are re_group1(uri) / re_group2(uri); str.isupper / str.lower are the uninterpreted
# functions str_isupper / str_lower.
RE_M = z3.Function("re_matches", Id, z3.BoolSort())
RE_G1, RE_G2 = z3.Function("re_group1", Id, Id), z3.Function("re_group2", Id, Id)
ISUPPER, LOWER = z3.Function("str_isupper", Id, z3.BoolSort()), z3.Function("str_lower", Id, Id)
REG.classes["ReMatch"] = []


def prov_t(u):
    return z3.If(ISUPPER(RE_G1(u)), LOWER(RE_G1(u)), RE_G1(u))


def ident_t(u):
    return z3.If(ISUPPER(RE_G1(u)), unwrap(BD.sjoin([VStr(RE_G1(u)), ":", VStr(RE_G2(u))]), "id"), RE_G2(u))


def _pi_global(eng, name):
    if name == "URL_IDENTIFIERS_PATTERN":
        return VOpaque("URL_IDENTIFIERS_PATTERN")
    return None


def _pi_call_method(eng, st, recv, name, pos, kw):
    if isinstance(recv, VOpaque) and recv.what == "URL_IDENTIFIERS_PATTERN" and name == "match" and len(pos) == 1 and isinstance(pos[0], VStr):
        outs = []
        for ok, s in eng.branch(st, RE_M(pos[0].t)):
            if ok:
                s, m = alloc_obj(s, "ReMatch", {"attr:uri": pos[0]})
                outs.append(("ok", s, m))
            else:
                outs.append(("ok", s, NONE))
        return outs
    if isinstance(recv, VObj) and recv.cls == "ReMatch" and name == "group" and len(pos) == 1 and isinstance(pos[0], VInt):
        g = z3.simplify(pos[0].t).as_long()
        u = st.objs[recv.oid]["attr:uri"].t
        return [("ok", st, VStr({1: RE_G1, 2: RE_G2}[g](u)))]
    if isinstance(recv, VStr) and name == "isupper" and not pos:
        return [("ok", st, VBool(ISUPPER(recv.t)))]
    if isinstance(recv, VStr) and name == "lower" and not pos:
        return [("ok", st, VStr(LOWER(recv.t)))]
    return None


def _pi_getattr(eng, st, v, name):
    if isinstance(v, VOpaque) and v.what == "URL_IDENTIFIERS_PATTERN" and name == "match":
        return [("ok", st, VFunc("bound", v, name))]
    if isinstance(v, VObj) and v.cls == "ReMatch" and name == "group":
        return [("ok", st, VFunc("bound", v, name))]
    return None


PI_HOOKS = {"global": _pi_global, "call_method": _pi_call_method, "getattr": _pi_getattr, "fstring": BD.fstring_hook}


def _pi_some_post(E):
    r = E.res
    if not (isinstance(r, VTuple) and len(r.items) == 2 and all(isinstance(x, (VStr, VConc)) for x in r.items)):
        return z3.BoolVal(False)
    u = E["uri"].t
    return z3.And(unwrap(r.items[0], "id") == prov_t(u), unwrap(r.items[1], "id") == ident_t(u))


_pi_none = Case("no-match", requires=lambda E: z3.Not(RE_M(E["uri"].t)), ensures=lambda E: z3.BoolVal(isinstance(E.res, VNone)))
_pi_none.result = lambda eng, st, E: (st, NONE)
_pi_some = Case("match", requires=lambda E: RE_M(E["uri"].t), ensures=_pi_some_post)
_pi_some.result = lambda eng, st, E: (st, VTuple((VStr(prov_t(E["uri"].t)), VStr(ident_t(E["uri"].t)))))
REG.add(Contract(MS, "_parse_annotation_info", "C10", [("uri", TStr())], [_pi_none, _pi_some], key="_parse_annotation_info",
                 note="provider(uri) = lower(group1) when group1 is upper case, else group1; identifier(uri) = group1 + ':' + group2 "
                      "when group1 is upper case, else group2"))

# ---------------------------------------------------------------- _parse_annotations: the collection logic
# The annotation dictionary (provider -> str | list of str) is modelled by ghost arrays (st.ghost["c10_ann"]): dom, isstr (the value
# is a single string), sval (that string), llen / lelem (the list), plus auxiliary ghosts posn (position of an identifier in the
# list of its provider) and wuri (the resource uri an identifier came from).  `x in <str>` is the uninterpreted SUBSTRING
# predicate str_contains - not equality: a collection logic that tests `identifier in annotation[provider]` while the value is still
# a string (seeded mutant) cannot be proved.
SUBSTR = z3.Function("str_contains", Id, Id, z3.BoolSort())             # str_contains(haystack, needle)
SBOSET = z3.Function("sbase_isSetSBOTerm", Ref, z3.BoolSort())
SBOTERM = z3.Function("sbase_SBOTermID", Ref, Id)
CVNONE = z3.Function("sbase_cvterms_is_None", Ref, z3.BoolSort())
nCV = z3.Function("sbase_num_cvterms", Ref, I)
cvS = z3.Function("sbase_cvterm_at", Ref, I, Ref)
nRES = z3.Function("cvterm_num_resources", Ref, I)
URI = z3.Function("cvterm_resource_uri", Ref, I, Id)
IS_RES = z3.Function("is_resource_uri_of_parsed_sbase", Id, z3.BoolSort())
REG.classes["CVTerm"] = []
_ARR = {"dom": z3.ArraySort(Id, z3.BoolSort()), "isstr": z3.ArraySort(Id, z3.BoolSort()), "sval": z3.ArraySort(Id, Id),
        "llen": z3.ArraySort(Id, I), "lelem": z3.ArraySort(Id, z3.ArraySort(I, Id)), "posn": z3.ArraySort(Id, z3.ArraySort(Id, I)),
        "wuri": z3.ArraySort(Id, z3.ArraySort(Id, Id))}


def ann(st):
    g = st.ghost.get("c10_ann")
    if g is None:
        g = {"dom": z3.K(Id, z3.BoolVal(False))}
        g.update({k: z3.Const("ann0_" + k, s) for k, s in _ARR.items() if k != "dom"})
    return g


def _ann_fresh(st):
    return {k: fresh("ann_" + k, s) for k, s in _ARR.items()}


def held(g, p, x):
    """identifier x is held under provider p: it is the single string, or an element of the list (at its recorded position)"""
    j = g["posn"][p][x]
    return z3.If(g["isstr"][p], g["sval"][p] == x, z3.And(0 <= j, j < g["llen"][p], g["lelem"][p][j] == x))


_assumed("SBase.isSetSBOTerm", _SB, "libsbml: whether the object has an SBO term (ghost sbase_isSetSBOTerm); no side effect",
         lambda eng, st, E: (st, VBool(SBOSET(E["self"].t))))
_assumed("SBase.getSBOTermID", _SB, "libsbml: the SBO term as a string 'SBO:nnnnnnn' (ghost sbase_SBOTermID); no side effect",
         lambda eng, st, E: (st, VStr(SBOTERM(E["self"].t))))
_cv_none = Case("None", requires=lambda E: CVNONE(E["self"].t))
_cv_none.result = lambda eng, st, E: (st, NONE)
_cv_list = Case("list", requires=lambda E: z3.Not(CVNONE(E["self"].t)))
_cv_list.result = lambda eng, st, E: (st.assume(nCV(E["self"].t) >= 0),
                                      VSeq(nCV(E["self"].t), (lambda x: lambda s, i: VRef(cvS(x, i), "CVTerm"))(E["self"].t), tag="cvterms"))
REG.add(Contract("libsbml", "SBase.getCVTerms", "C10", _SB, [_cv_none, _cv_list], assumed=True, key="SBase.getCVTerms",
                 note="libsbml: None, or the CV terms of the object as a sequence (sbase_num_cvterms, sbase_cvterm_at); no side effect"))
_CV = [("self", TRef("CVTerm"))]
_assumed("CVTerm.getNumResources", _CV, "libsbml: the number of resources of the CV term (an int >= 0 is not needed: range() of a "
         "negative number is empty); no side effect", lambda eng, st, E: (st, VInt(nRES(E["self"].t))))
_assumed("CVTerm.getResourceURI", _CV + [("k", TInt())],
         "libsbml: the k-th resource uri of the CV term (ghost cvterm_resource_uri(cv, k)), a resource uri of the object being parsed "
         "(ghost predicate is_resource_uri_of_parsed_sbase); no side effect",
         lambda eng, st, E: (st, VStr(URI(E["self"].t, E["k"].t))),
         ensures=lambda E: IS_RES(URI(E["self"].t, E["k"].t)))


def _is_ann_dict(v):
    return isinstance(v, VObj) and v.kind == "dict"


def _key(v):
    return unwrap(v, "id")


def _pa_setitem(eng, st, obj, idx, val):
    if not _is_ann_dict(obj):
        return None
    g, p = dict(ann(st)), _key(idx)
    cur = st.ghost.get("c10_cur_uri")
    if isinstance(val, (VStr, VConc)):
        x = _key(val)
        g["dom"], g["isstr"], g["sval"] = z3.Store(g["dom"], p, True), z3.Store(g["isstr"], p, True), z3.Store(g["sval"], p, x)
        if cur is not None:
            g["wuri"] = z3.Store(g["wuri"], p, z3.Store(g["wuri"][p], x, cur))
        return [("ok", st.setghost("c10_ann", g), NONE)]
    if isinstance(val, VFunc) and val.kind == "annlist":
        xs = val.a                                  # the elements of the list display, in order
        arr, pos_ = g["lelem"][p], g["posn"][p]
        for n, x in enumerate(xs):
            arr, pos_ = z3.Store(arr, n, x), z3.Store(pos_, x, n)
        g["dom"], g["isstr"] = z3.Store(g["dom"], p, True), z3.Store(g["isstr"], p, False)
        g["llen"], g["lelem"], g["posn"] = z3.Store(g["llen"], p, len(xs)), z3.Store(g["lelem"], p, arr), z3.Store(g["posn"], p, pos_)
        return [("ok", st.setghost("c10_ann", g), NONE)]
    raise Unsupported(f"annotation[...] = {val!r}")


def _pa_getitem(eng, st, obj, idx):
    if not _is_ann_dict(obj):
        return None
    p = _key(idx)
    outs = []
    for ok, s in eng.branch(st, ann(st)["dom"][p]):
        outs.append(("ok", s, VFunc("annval", obj, p)) if ok else eng.raise_(s, "KeyError"))
    return outs


def _pa_contains(eng, st, cont, item):
    if _is_ann_dict(cont):
        return [("ok", st, VBool(ann(st)["dom"][_key(item)]))]
    if isinstance(cont, VFunc) and cont.kind == "annval":
        g, p, x = ann(st), cont.b, _key(item)
        b, w, j = fresh("member", z3.BoolSort()), fresh("witness", I), qv("mj")
        arr, n = g["lelem"][p], g["llen"][p]
        in_list = z3.And(FA([j], z3.Implies(z3.And(0 <= j, j < n, arr[j] == x), b), patterns=[arr[j]]),
                         z3.Implies(b, z3.And(0 <= w, w < n, arr[w] == x)))
        # a str value: python's `in` is the substring test
        return [("ok", st.assume(z3.If(g["isstr"][p], b == SUBSTR(g["sval"][p], x), in_list)), VBool(b))]
    return None


def _pa_isinstance(eng, st, v, clsname):
    if isinstance(v, VFunc) and v.kind == "annval":
        return ann(st)["isstr"][v.b] if clsname == "str" else (z3.Not(ann(st)["isstr"][v.b]) if clsname == "list" else False)
    return None


def _pa_list_display(eng, st, vs):
    if vs and all(isinstance(v, VFunc) and v.kind == "annval" for v in vs):
        # [annotation[p]] while the value is a string: the list of that string
        for v in vs:
            eng.oblige(st, ann(st)["isstr"][v.b], "list-display-of-a-string-value", kind="side")
        return [("ok", st, VFunc("annlist", tuple(ann(st)["sval"][v.b] for v in vs)))]
    return None


def _pa2_getattr(eng, st, v, name):
    if isinstance(v, VFunc) and v.kind == "annval" and name == "append":
        return [("ok", st, VFunc("bound", v, name))]
    return None


def _pa2_call_method(eng, st, recv, name, pos, kw):
    if isinstance(recv, VFunc) and recv.kind == "annval" and name == "append" and len(pos) == 1:
        g, p, x = dict(ann(st)), recv.b, _key(pos[0])
        outs = []
        for is_str, s in eng.branch(st, g["isstr"][p]):
            if is_str:
                outs.append(eng.raise_(s, "AttributeError"))          # str has no append
                continue
            n = g["llen"][p]
            g2 = dict(g, llen=z3.Store(g["llen"], p, n + 1), lelem=z3.Store(g["lelem"], p, z3.Store(g["lelem"][p], n, x)),
                      posn=z3.Store(g["posn"], p, z3.Store(g["posn"][p], x, n)))
            cur = s.ghost.get("c10_cur_uri")
            if cur is not None:
                g2["wuri"] = z3.Store(g["wuri"], p, z3.Store(g["wuri"][p], x, cur))
            outs.append(("ok", s.setghost("c10_ann", g2), NONE))
        return outs
    if isinstance(recv, VRef) and recv.cls == "CVTerm" and name == "getResourceURI" and len(pos) == 1:
        outs = eng.apply_contract(st, eng.reg.get("CVTerm.getResourceURI"), [recv] + list(pos), kw)
        return [(k, s.setghost("c10_cur_uri", v.t) if k == "ok" else s, v) for k, s, v in outs]
    return None


AN_HOOKS = {"setitem": _pa_setitem, "getitem": _pa_getitem, "contains": _pa_contains, "isinstance": _pa_isinstance,
            "list_display": _pa_list_display, "getattr": _pa2_getattr, "call_method": _pa2_call_method}


def _origin(E, g, p, x):
    sb = E["sbase"].t
    u = g["wuri"][p][x]
    return z3.Or(z3.And(p == id_lit("sbo"), SBOSET(sb), x == SBOTERM(sb)),
                 z3.And(IS_RES(u), RE_M(u), prov_t(u) == p, ident_t(u) == x))


def _ann_wf(E, g, min_len=1):
    """what holds of the dictionary whatever has been processed: every provider present holds at least one identifier; a list has
    no duplicates (posn is the inverse of lelem); nothing is invented (every identifier held has an origin in the input)"""
    p, j = qv("ap", Id), qv("aj")
    lst = z3.And(g["dom"][p], z3.Not(g["isstr"][p]))
    e = g["lelem"][p][j]
    return [FA([p], z3.Implies(lst, g["llen"][p] >= min_len), patterns=[g["llen"][p]]),
            FA([p, j], z3.Implies(z3.And(lst, 0 <= j, j < g["llen"][p]), g["posn"][p][e] == j), patterns=[e]),
            FA([p], z3.Implies(z3.And(g["dom"][p], g["isstr"][p]), _origin(E, g, p, g["sval"][p])), patterns=[g["sval"][p]]),
            FA([p, j], z3.Implies(z3.And(lst, 0 <= j, j < g["llen"][p]), _origin(E, g, p, e)), patterns=[e])]


def _sbo_clause(E, g):
    sb = E["sbase"].t
    return z3.Implies(SBOSET(sb), z3.And(g["dom"][id_lit("sbo")], held(g, id_lit("sbo"), SBOTERM(sb))))


def _collected(g, u):
    return z3.Implies(RE_M(u), z3.And(g["dom"][prov_t(u)], held(g, prov_t(u), ident_t(u))))


def _all_upto(E, g, upto):
    """nothing dropped: every resource of the CV terms 0 .. upto-1 that the pattern matches is held under its provider"""
    sb, c, k = E["sbase"].t, qv("ac"), qv("ak")
    u = URI(cvS(sb, c), k)
    return FA([c, k], z3.Implies(z3.And(0 <= c, c < upto, 0 <= k, k < nRES(cvS(sb, c))), _collected(g, u)), patterns=[u])


def _an_inv_outer(E, Lc):
    g = ann(Lc.st)
    return z3.And(_all_upto(E, g, Lc.i), _sbo_clause(E, g), *_ann_wf(E, g))


def _an_inv_inner(E, Lc):
    g, g0 = ann(Lc.st), ann(Lc.entry)
    cv = Lc.var("cvterm").t
    k, p, j = qv("ik"), qv("ip", Id), qv("ij")
    u = URI(cv, k)
    e0 = g0["lelem"][p][j]
    return z3.And(
        FA([k], z3.Implies(z3.And(0 <= k, k < Lc.i), _collected(g, u)), patterns=[u]),
        # monotone: whatever was held when this CV term was started is still held
        FA([p], z3.Implies(g0["dom"][p], g["dom"][p]), patterns=[g0["dom"][p]]),
        FA([p], z3.Implies(z3.And(g0["dom"][p], g0["isstr"][p]), held(g, p, g0["sval"][p])), patterns=[g0["sval"][p]]),
        FA([p, j], z3.Implies(z3.And(g0["dom"][p], z3.Not(g0["isstr"][p]), 0 <= j, j < g0["llen"][p]), held(g, p, e0)), patterns=[e0]),
        *_ann_wf(E, g))


def _an_post(shape_min):
    def post(E):
        if not _is_ann_dict(E.res):
            return z3.BoolVal(False)
        g, sb = ann(E.s1), E["sbase"].t
        full = z3.If(CVNONE(sb), z3.BoolVal(True), _all_upto(E, g, nCV(sb)))
        return z3.And(full, _sbo_clause(E, g), *_ann_wf(E, g, shape_min))
    return post


_AN_LOOPS = lambda: {0: LoopSpec(_an_inv_outer, lambda E, Lc: [("ghost", "c10_ann", _ann_fresh), ("ghost", "c10_cur_uri", lambda st: fresh("cur_uri", Id))]),  # noqa
                     1: LoopSpec(_an_inv_inner, lambda E, Lc: [("ghost", "c10_ann", _ann_fresh), ("ghost", "c10_cur_uri", lambda st: fresh("cur_uri", Id))])}
_AN_MOD = lambda E: [("ghost", "c10_ann", _ann_fresh), ("ghost", "c10_cur_uri", lambda st: fresh("cur_uri", Id))]  # noqa
# wired: a provider present holds >= 1 identifier (string, or list without duplicates), nothing dropped, nothing invented
REG.add(Contract(MS, "_parse_annotations", "C10", [("sbase", TRef("SBase"))], [Case("any", ensures=_an_post(1))],
                 key="_parse_annotations", loops=_AN_LOOPS(), modifies=_AN_MOD))
# NOT wired: "a single string for one identifier, a list for several" - a list always has >= 2 elements
REG.add(Contract(MS, "_parse_annotations", "C10", [("sbase", TRef("SBase"))], [Case("any", ensures=_an_post(2))],
                 key="_parse_annotations@single-string-for-one", loops=_AN_LOOPS(), modifies=_AN_MOD))
AN_KEYS = ["_parse_annotation_info", "_parse_annotations"]
FINDING_KEYS.append("_parse_annotations@single-string-for-one")
ANN_HOOKS = chain_hooks(AN_HOOKS, PI_HOOKS)


MUTANTS = """
 M1  process_association: BoolOp(Or(), ...) -> BoolOp(And(), ...)                       case FbcOr/*: post.2 (sem) and post.5 (operator) unknown
 M2  process_association: Name(id=f_replace[F_GENE](g_id)) -> Name(id=g_id)             case GeneProductRef,with-F_GENE: post.2, post.4
 M3  _check_required: `or (value == "")` dropped                                        case value='': expected-CobraSBMLError sat
 M4  _check_required: " with id '{sbase.getName()}'"                                    case value='': raise#1/post sat
 M5  _check: `value == LIBSBML_OPERATION_SUCCESS` -> `!=`                               case int:failure: post sat
 M6  _create_parameter: `if sbo:` -> `if not sbo:`                                      case sbo=str: post.7 sat
 M7  _create_parameter: setValue(value) -> setConstant(value)                           post.1 (table) sat
 M8  _model_to_sbml: ZERO_BOUND_ID created with value 1                                 post.6 sat
 M9  _model_to_sbml: LOWER_BOUND_ID created with max_value                              post.1 sat
 M10 _model_to_sbml: BOUND_MINUS_INF created with +inf                                  post.7 sat
 Ma  _parse_annotations: `identifier not in annotation[provider]` tested BEFORE the string is wrapped in a list (substring test
     on a str: the seeded mutant)                                                       loop#1/inv-preserve.1 sat (an identifier dropped)
 Mc  _parse_annotations: duplicate test dropped (`if True:`)                            loop#1/inv-preserve.6 sat (duplicates in the list)
 Md  _parse_annotations: range(1, n)                                                    loop#1/inv-preserve.1 sat
 Me  _parse_annotations: annotation[identifier] = provider                              loop#1/inv-preserve.1/.3/.4 unknown
 Mh  _parse_annotations: getResourceURI(0) instead of (k) [key @order]                 see the run: log / nothing-dropped clauses
 Mf  _parse_annotation_info: isupper test inverted                                      case match: post.1 sat
 Mg  _parse_annotation_info: provider not lowered                                       case match: post.1 sat
"""
