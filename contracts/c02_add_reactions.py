"""C02 / C01 - Model.add_reactions(reaction_list), NO context open: what joins the model and what the cross-references look like
afterwards.

Documented: "Add reactions to the model.  Reactions with identifiers identical to a reaction already in the model are ignored."
The invariant it has to establish for the added reactions (C02): a reaction lists a metabolite / gene iff that object lists the
reaction; every listed object belongs to the model and is the one found by looking up its identifier.
Contract key: `Model.add_reactions` (KEYS); hook table: HOOKS (this module); cases `no_context`, `repeated_new_identifier`.

SHAPE.  The model `self` is MATERIALISED (reactions / metabolites / genes: DictLists with the C15 contracts, `_contexts`); reactions,
metabolites, genes are symbolic references whose fields live in the heap: `_id`, `_model`, `_reaction` (set, of metabolites AND
genes), `_genes` (set), `_gpr` (reference), and the stoichiometry dictionary `reaction._metabolites` as the heap field `_metabolites`
(its KEY SET, as in c02_remove_reactions) plus the ghost map `ar_stoich`[r][m] (the coefficient stored under key m): `reaction.metabolites`
(the copying getter), `reaction._metabolites.pop(m)` and `reaction._metabolites[m] = c` read / write them (hooks).  `isinstance`-style
typing is the uninterpreted class tag of c02_groups (`class_tag`).  Ghost inverse map KEYOF[r][identifier] (see PRECONDITIONS).
With  pruned = the listed reactions whose identifier is not in model.reactions at entry, in the order of the argument (the local
DictList `pruned`, recorded in the ghost `ar_pruned`; ghost index maps of the filter), PROVED for argument lists, models and
stoichiometries of ANY size (two nested loops under hand invariants, case `no_context`):
  (1) reactions: listed reactions whose identifier is already in the model are ignored - their own fields (`_model`, stoichiometry,
      gene set, identifier) are untouched (frame) and they do not join;
      model.reactions keeps its old members in place, its new tail is exactly pruned, in order, and it is a well-formed DictList
      again; every reaction of pruned points at the model; every other changed model pointer belongs to a metabolite that joined
      model.metabolites or to a gene that is a member of model.genes afterwards;
  (2) metabolites, for every reaction r of pruned: y is a key of r._metabolites afterwards  <=>  y is THE member of model.metabolites
      found under the identifier of an entry key K of r (y == metabolites[id K]); its coefficient is the one K had (re-pointing
      with the same coefficient); every entry key has its identifier in the model afterwards and the model's object for it is a
      key; model.metabolites keeps its old members (and their index positions) in place, stays well formed, every member is a
      metabolite that points at the model (so: an entry key whose identifier was unknown has joined - it or an object with the same
      identifier that joined earlier in the same call - and a known identifier is served by the model's own object);
  (3) back references of metabolites, for every r of pruned: every key y of r afterwards lists r (`r in y._reaction`); conversely
      whoever lists r afterwards is a key of r, a gene of r, or an ENTRY key of r that is not the model's object for its identifier
      (OBSERVATION, reproduced natively: the foreign copy the reaction was re-pointed away from keeps its back reference
      `r in copy._reaction` although r no longer lists it - an object outside the model; old gene objects ARE dissociated);
      hence for the members y of model.metabolites:  y in r._metabolites <=> r in y._reaction;
  (4) genes, for every r of pruned (Reaction.update_genes_from_gpr by its PROVED contract, see CALL SITES): every gene g of r._genes
      afterwards is the member of model.genes found under its identifier, points at the model, lists r, and its identifier is a
      name of r's rule; for every name of the rule the model has a gene and that gene is in r._genes; with (3): for members g of
      model.genes  g in r._genes <=> r in g._reaction; model.genes keeps its old members (and index positions) in place, stays well
      formed, its members are genes; the rule itself (`_gpr`, the rule tree) is not written (frame); identifiers change only for
      objects tagged Gene (the genes created by the callee);
  (5) `self._populate_solver(pruned)` is called exactly ONCE, with the very DictList `pruned` (unchanged since it was built), in the
      EXIT state (term-identical heap and lists: after every reaction has been linked and appended).  It is a RECORDED abstract
      call, not executed and its contract is not applied; what is proved about the state of the call is the cobra-side part of its
      precondition (c01_populate): model.reactions well formed, every reaction of pruned belongs to the model and is the member found
      under its identifier.  The solver-side part (valid bounds, containers keyed by names, fresh constraint names ...) is outside
      this contract's view;
  (6) nothing else changes (frame): other reactions' stoichiometries, coefficients and gene sets are untouched (the only reactions
      whose `_metabolites` / `ar_stoich` / `_genes` differ from entry are those of pruned); an entry (y, x) of a reaction set that
      differs from entry has x in pruned, or y joined model.metabolites / model.genes during the call and no longer lists x (Model.
      add_metabolites drops the back references to reactions outside the model, repair f52a176; a created gene lists only r);
      reaction sets hold only reactions; groups (`_members`, model.groups), the context stack, the argument list: engine frame.
  Case `repeated_new_identifier`: two listed reactions with the same identifier that is not in the model: ValueError (raised by
  DictList(...)) before anything is changed, `_populate_solver` not called.

PRECONDITIONS (stated, `pre=` / case `requires`): no context is open; the three DictLists of the model are well formed, their
members carry their class tag, members of model.metabolites point at the model, reaction sets hold reactions (C02 invariant /
typing).  The listed objects are reactions, not None, not the model object.  For every listed reaction r whose identifier is not in
the model: r belongs to no model (`_model` None); the keys of its stoichiometry are metabolites, not None, with non-empty
identifiers that are pairwise different WITHIN r (ghost KEYOF[r][id m] == m: a foreign copy and the model's own object with the same
identifier as two keys of one reaction are NOT covered); its genes are genes; r is listed only by its own keys and genes (one half
of the cross-reference invariant: nobody else's `_reaction` set contains it).  Case no_context: the new identifiers are pairwise
different.  NOT required: that the keys are detached - a key may belong to this model, to no model or to another one (the code
does not copy it: it joins this model too).
CALL SITES / ASSUMED:
  * `self.add_metabolites(metabolite)` (ONE metabolite whose identifier is unknown): the contract Model.add_metabolites PROVED in
    c02_add_metabolites for a list argument, applied to the one-element list the callee wraps its argument into (that wrapping step
    and "no ValueError for a one-element list" - the callee's contract allows DictList.__iadd__'s ValueError without a condition -
    are ASSUMED); its precondition and the condition of its case `joining` are OBLIGED, four call-site lemmas (new tail, index,
    model pointers, reaction sets) are obliged before they are used.  The add_cons_vars call it makes is not looked at here;
  * `reaction.update_genes_from_gpr()`: the contract PROVED in c02_update_genes (case in_model:no_context) for a MATERIALISED
    reaction, applied to a temporary materialisation of the receiver (identity = the reference, `_model` = the model, `_gpr` = heap
    field); obliged: receiver not None and not the model, its precondition (model.genes well formed, the reaction points at the
    model); ASSUMED in addition (allocation, not exported by that contract's post-condition): the Gene objects it created carry the
    class tag Gene; lemma `index` (old keys of model.genes keep their position) obliged before use;
  * `filter(existing_filter, reaction_list)` = the filtered comprehension of pyvc.comprehension (c02_groups._filter_call; the
    predicate is executed from its real source), `DictList(<list>)` = C15's DictList.__init__ contract; `self.reactions += pruned`,
    `x in self.metabolites`, `get_by_id` = C15 contracts; get_context by its C03 contract; logger.warning is opaque.
NOT covered: an open context (the undo registrations), a reaction that belongs to another model / reaction_list given as another
iterable than a list.
Engine: NO change of pyvc.
MUTANTS (tools/mutate_and_run.sh on cobra/core/model.py; each is NOT discharged, the obligation that breaks is named):
  M1 re-pointing keeps the foreign object (`reaction._metabolites[metabolite] = stoichiometry`) -> loop#1/inv-preserve.26~3 / .28~3 /
     .30~3 (key set of the reaction being handled; handled keys are the model's objects and list the reaction);
  M2 `model_metabolite._reaction.add(reaction)` skipped -> loop#1/inv-preserve.28~3 (the model's object lists the reaction);
  M3 `reaction._model = self` skipped -> loop#1/inv-init.13 (model pointer of the reaction being handled);
  M4 `reaction.update_genes_from_gpr()` skipped -> loop#0/inv-preserve.37 / .38 (genes of a handled reaction are members that
     list it; a gene for every name of the rule);
  M5 pruning dropped (`pruned = DictList(reaction_list)`) -> loop#0/inv-init.5-.8, .25 (elements of pruned have unknown identifiers,
     no model, ...), exit post.1 (sat), unexpected ValueError from `self.reactions += pruned`;
  M6 `self._populate_solver(reaction_list)` -> exit post (the argument of the recorded call is not `pruned`);
  M7 `metabolite._reaction.add(reaction)` skipped for a metabolite that joined -> loop#1/inv-preserve.28 (path of the joining branch);
  M8 `self.reactions += pruned` skipped -> exit post.9 / post.11 (length and new tail of model.reactions).
"""
import z3
import cobra  # noqa
from .common import *  # noqa
from . import c03_context as C3
from . import c15_dictlist as C15  # noqa
from . import c02_add_metabolites as AM
from . import c02_update_genes as U
from . import c02_groups as GR
from pyvc import builtins as _B
from pyvc.loops import havoc_locations
from pyvc.state import alloc_dict, alloc_obj
from pyvc.values import ident_of

MM = "cobra/core/model.py"
KEY = "Model.add_reactions"
REG.fields.update({"_reaction": "set:ref:Reaction", "_model": "ref:Model", "_metabolites": "set:ref:Metabolite",
                   "_genes": "set:ref:Gene", "_gpr": "ref:GPR"})
I_ = z3.IntSort()
RefSet = z3.ArraySort(Ref, z3.BoolSort())
CoefMap = z3.ArraySort(Ref, z3.ArraySort(Ref, z3.RealSort()))
SV_ENTRY = z3.Const("ar_stoich_entry", CoefMap)
# ghost inverse of every listed reaction's stoichiometry: KEYOF[r][identifier] = the key of r._metabolites (at entry) that carries this
# identifier.  The precondition `KEYOF[r][id(m)] == m for every key m` says that such a map exists, i.e. that the keys of one
# reaction have pairwise different identifiers.
KEYOF = z3.Const("ar_keyof", z3.ArraySort(Ref, z3.ArraySort(Id, Ref)))
tag = GR.class_tag
MET, RXN, GENE = GR.TAGS["Metabolite"], GR.TAGS["Reaction"], GR.TAGS["Gene"]
idlen = AM.idlen


def Hh(E, st, f):
    return E.eng.heap_arr(st, f)


def sval(st):
    """ghost: stoich[r][m] = the coefficient stored under key m in r._metabolites (meaningful where `_metabolites`[r][m] holds)"""
    return st.ghost.get("ar_stoich", SV_ENTRY)


ME_KEYS = {KEY}            # contract keys for which this module's hooks are active (c02_add_reactions_ctx adds its own)


def _is_me(eng):
    return getattr(eng.cur_contract, "key", None) in ME_KEYS


def _model(eng):
    m = (getattr(eng, "entry_args", None) or {}).get("self")
    return m if isinstance(m, VObj) and m.cls == "Model" else None


def _model_t():
    return TObj("Model", {"_contexts": TList("ref:HistoryManager"), "reactions": TDictList("Reaction"),
                          "metabolites": TDictList("Metabolite"), "genes": TDictList("Gene")})


# ---------------------------------------------------------------- hooks
def global_hook(eng, name):
    if _is_me(eng) and name in ("filter", "DictList"):
        return VFunc("abstract", "ar:" + name)
    return None


def call_abstract_hook(eng, st, f, pos, kw):
    if f.a == "ar:filter" and len(pos) == 2 and not kw:
        return GR._filter_call(eng, st, pos[0], pos[1])
    if f.a == "ar:DictList":
        outs = eng.construct(st, "DictList", pos, kw)
        if len(pos) == 1 and isinstance(pos[0], VObj) and pos[0].kind == "list" and str(st.objs[pos[0].oid].get("ekind", "")).startswith("ref:"):
            ek = st.objs[pos[0].oid]["ekind"]
            outs = [(k, s.updobj(v.oid, ekind=ek) if k == "ok" and isinstance(v, VObj) else s, v) for k, s, v in outs]
        # ghost: the DictList built here is the local `pruned` (the post-condition refers to it)
        return [(k, s.setghost("ar_pruned", v) if k == "ok" and isinstance(v, VObj) else s, v) for k, s, v in outs]
    return None


def getattr_hook(eng, st, v, name):
    if not _is_me(eng):
        return None
    if isinstance(v, VRef) and v.cls == "Reaction" and name in ("metabolites", "_metabolites"):
        r = v.t
        dom, val = z3.Select(eng.heap_arr(st, "_metabolites"), r), z3.Select(sval(st), r)
        st2, d = alloc_dict(st, "ref:Metabolite", "real", dom=dom, val=val)
        if name == "_metabolites":
            # the dictionary itself: writes go through to the heap view (hooks `setitem`, `call_method` pop)
            return [("ok", st2.updobj(d.oid, stoich_of=r), d)]
        # the getter `metabolites` returns a copy; its ghost enumeration is kept for the invariants
        order, pos, card = fresh("ar_order", z3.ArraySort(I_, Ref)), fresh("ar_pos", z3.ArraySort(Ref, I_)), fresh("ar_card", I_)
        i, k = qv("ei"), qv("ek", Ref)
        st2 = st2.assume(card >= 0,
                         FA([i], z3.Implies(z3.And(0 <= i, i < card), z3.And(z3.Select(dom, order[i]), pos[order[i]] == i)), patterns=[order[i]]),
                         FA([k], z3.Implies(z3.Select(dom, k), z3.And(0 <= pos[k], pos[k] < card, order[pos[k]] == k)), patterns=[pos[k]]))
        st2 = st2.setghost(("order", d.oid, dom.get_id()), (order, pos, card)).setghost("ar_enum", (order, pos, card, dom, r))
        return [("ok", st2, d)]
    return None


def _stoich_rec(st, v):
    if isinstance(v, VObj) and v.kind == "dict" and "stoich_of" in st.objs[v.oid]:
        return st.objs[v.oid]["stoich_of"]
    return None


def setitem_hook(eng, st, obj, idx, val):
    r = _stoich_rec(st, obj)
    if r is not None and isinstance(idx, VRef):
        x = eng.to_real(val)
        Mt, SV = eng.heap_arr(st, "_metabolites"), sval(st)
        st2 = st.setheap("_metabolites", z3.Store(Mt, r, z3.Store(Mt[r], idx.t, z3.BoolVal(True))))
        return [("ok", st2.setghost("ar_stoich", z3.Store(SV, r, z3.Store(SV[r], idx.t, x.v))), NONE)]
    return None


def call_method_hook(eng, st, recv, name, pos, kw):
    if not _is_me(eng):
        return None
    model = _model(eng)
    r = _stoich_rec(st, recv)
    if r is not None and name == "pop" and len(pos) == 1 and isinstance(pos[0], VRef) and not kw:
        Mt, SV = eng.heap_arr(st, "_metabolites"), sval(st)
        m = pos[0].t
        out = []
        for has, s2 in eng.branch(st, Mt[r][m]):
            if has:
                out.append(("ok", s2.setheap("_metabolites", z3.Store(Mt, r, z3.Store(Mt[r], m, z3.BoolVal(False)))),
                            VReal(z3.IntVal(0), SV[r][m])))
            else:
                out.append(eng.raise_(s2, "KeyError"))
        return out
    if isinstance(recv, VObj) and model is not None and recv.oid == model.oid and name == "add_metabolites" and len(pos) == 1 \
            and isinstance(pos[0], VRef) and not kw:
        return _apply_add_metabolites(eng, st, recv, pos[0])
    if isinstance(recv, VRef) and recv.cls == "Reaction" and name == "update_genes_from_gpr" and not pos and not kw:
        return _apply_update_genes(eng, st, recv)
    if isinstance(recv, VObj) and model is not None and recv.oid == model.oid and name == "_populate_solver" and len(pos) == 1 and not kw:
        # RECORDED call (not executed): the argument object, a snapshot of its content and the state of the call
        l = pos[0]
        rec = st.objs[l.oid]
        tr = st.ghost.get("ar_calls", ())
        return [("ok", st.setghost("ar_calls", tr + (("_populate_solver", l, (rec["len"], rec["elem"]), st),)), NONE)]
    return None


def _apply_add_metabolites(eng, st, model, met, pre=None):
    """self.add_metabolites(metabolite) for ONE metabolite whose identifier is not in the model: the contract `Model.add_metabolites`
    (proved in c02_add_metabolites for a list argument) applied to the one-element list the function wraps the metabolite into
    (`if not hasattr(metabolite_list, "__iter__"): metabolite_list = [metabolite_list]`: ASSUMED step).  Its precondition and the
    condition of its case `joining` are obliged, its frame is havocked, the part of its post-condition that speaks about
    model.metabolites, model pointers and reaction sets is assumed (the recorded add_cons_vars call is not looked at).  The ValueError
    the callee's contract allows without a condition (DictList.__iadd__ on a repeated NEW identifier) cannot happen for a list of one
    element: ASSUMED not to be raised (as in c02_rxn_add_metabolites)."""
    _, st1, lst = _B.list_from_values(eng, st, [met])
    con = eng.reg.get("Model.add_metabolites")
    a = {"self": model, "metabolite_list": lst}
    E0 = Env(a, st1, eng=eng)
    # `pre`: a variant of the callee's precondition (c02_add_reactions_ctx: the same without `no context open`); default: the callee's own
    pre_f = con.pre(E0) if pre is None else pre(con, E0)
    eng.oblige_split(st1, pre_f, "call:Model.add_metabolites/pre", kind="callpre")
    st1 = st1.assume(pre_f)
    eng.oblige(st1, z3.Not(AM._some_bad(E0)), "call:Model.add_metabolites/case-joining", kind="callpre")
    st1 = st1.assume(z3.Not(AM._some_bad(E0)))
    s2 = havoc_locations(eng, st1, [loc for loc in con.modifies(E0) if loc[0] != "attr"])
    E1 = Env(a, st1, s2, eng=eng)
    mets = AM._mets(E1, st1)
    n0, e0 = L(st1, mets)
    n1, e1 = L(s2, mets)
    j = qv("aj")
    s2 = s2.assume(WF(E1, s2, mets), n1 >= n0,
                   FA([j], z3.Implies(z3.And(0 <= j, j < n0), e1[j] == e0[j]), patterns=[e1[j]]),
                   AM._is_filtered(E1, e1, n0, n1), AM._pointers(E1, s2, e1, n0, n1))
    # call-site lemmas: consequences of the assumed post-condition in this contract's vocabulary, each OBLIGED before it is used
    dm0, vl0 = Dv(st1, mets)
    dm1, vl1 = Dv(s2, mets)
    ids = eng.heap_arr(st1, "_id")
    x = met.t
    k = qv("ak", Id)
    me = ident_of(model.oid)
    mo0, mo1 = eng.heap_arr(st1, "_model"), eng.heap_arr(s2, "_model")
    R0, R1 = eng.heap_arr(st1, "_reaction"), eng.heap_arr(s2, "_reaction")
    y, z = qv("ay", Ref), qv("az", Ref)
    # exact INSTANCES of the assumed (universally quantified) post-condition, taken from the quantifier objects themselves with
    # substitute_vars - pure logic, hence assumed without an obligation: `every tail element joins` at the positions n0 and n0 + 1,
    # `every joining metabolite is in the tail` at x (that clause has no trigger: left to the solver it was found on some runs only)
    filt = AM._is_filtered(E1, e1, n0, n1)
    fa_elem, fa_member = filt.arg(1), filt.arg(2)
    assert z3.is_quantifier(fa_elem) and fa_elem.is_forall() and fa_elem.num_vars() == 1
    assert z3.is_quantifier(fa_member) and fa_member.is_forall() and fa_member.num_vars() == 1
    i_n0, i_n1, i_x = (z3.substitute_vars(fa_elem.body(), n0), z3.substitute_vars(fa_elem.body(), n0 + 1),
                       z3.substitute_vars(fa_member.body(), x))
    assert z3.is_implies(i_n0) and z3.is_implies(i_n1) and z3.is_implies(i_x)
    s2 = s2.assume(i_n0, i_n1, i_x)
    # the sub-terms of the instances are used AS THEY ARE below (an Exists built a second time has another bound-variable name and
    # is a different term for the solver, which then has to re-derive the equivalence through a concrete Store(...) list)
    joins_x, holds_x, joins_a, joins_b = i_x.arg(0), i_x.arg(1), i_n0.arg(1), i_n1.arg(1)
    k2 = qv("ak2", Id)
    lemmas = [
        # small steps towards `the new tail is exactly [x]` and `the index gained exactly the key of x`, each obliged and then
        # assumed (the one-shot forms took 8 - 200 s and flipped to unknown under load)
        ("x-joins", joins_x),
        ("tail-holds-x", holds_x),
        ("joining-is-x", z3.And(z3.Implies(joins_a, e1[n0] == x), z3.Implies(joins_b, e1[n0 + 1] == x))),
        ("tail-nonempty", z3.And(n1 > n0, e1[n0] == x)),
        ("tail-second", z3.Implies(n1 >= n0 + 2, e1[n0 + 1] == x)),
        ("tail-is-the-metabolite", z3.And(n1 == n0 + 1, e1[n0] == x)),
        ("index:new-key", z3.And(z3.Select(dm1, ids[x]), vl1[ids[x]] == n0)),
        ("index:old-positions", FA([k], z3.Implies(z3.Select(dm0, k), z3.And(0 <= vl0[k], vl0[k] < n0, e1[vl0[k]] == e0[vl0[k]],
                                                                              ids[e1[vl0[k]]] == k)), patterns=[z3.Select(dm0, k)])),
        ("index:old-keys-kept", FA([k], z3.Implies(z3.Select(dm0, k), z3.And(z3.Select(dm1, k), vl1[k] == vl0[k])),
                                   patterns=[z3.Select(dm0, k)])),
        ("index:new-positions", FA([k2], z3.Implies(z3.Select(dm1, k2), z3.And(0 <= vl1[k2], vl1[k2] <= n0, ids[e1[vl1[k2]]] == k2,
                                                                                z3.Implies(vl1[k2] < n0, e1[vl1[k2]] == e0[vl1[k2]]))),
                                   patterns=[z3.Select(dm1, k2)])),
        ("index:no-other-key", FA([k2], z3.Implies(z3.Select(dm1, k2), z3.Or(z3.Select(dm0, k2), k2 == ids[x])), patterns=[z3.Select(dm1, k2)])),
        ("index", z3.And(z3.Select(dm1, ids[x]), vl1[ids[x]] == n0,
                         FA([k], z3.Implies(z3.Select(dm0, k), z3.And(z3.Select(dm1, k), vl1[k] == vl0[k])), patterns=[z3.Select(dm0, k)]),
                         FA([k], z3.Implies(z3.Select(dm1, k), z3.Or(z3.Select(dm0, k), k == ids[x])), patterns=[z3.Select(dm1, k)]))),
        ("model-pointers", FA([y], mo1[y] == z3.If(y == x, me, mo0[y]), patterns=[mo1[y]])),
        ("reaction-sets", FA([y, z], R1[y][z] == z3.If(y == x, z3.And(R0[y][z], mo0[z] == me), R0[y][z]), patterns=[R1[y][z]])),
    ]
    if z3.is_quantifier(joins_x) and joins_x.is_exists() and joins_x.num_vars() == 1:
        # the witness of `x joins` (position 0 of the one-element list) as a ground step first: under load the existential alone took
        # 50 s in the larger context of c02_add_reactions_ctx
        lemmas.insert(0, ("x-joins:witness", z3.substitute_vars(joins_x.body(), z3.IntVal(0))))
        witnessed = True
    else:
        witnessed = False
    for nm_, f in lemmas:
        if nm_ == "x-joins" and witnessed:
            # `exists j. body(j)` follows from the obliged ground instance body(0) by exists-introduction (pure logic): assumed without a
            # second query (left to the solver it took 36 s on a retry seed in the in-context state)
            s2 = s2.assume(f)
            continue
        eng.oblige(s2, f, f"call:Model.add_metabolites/lemma:{nm_}", kind="side")
        s2 = s2.assume(f)
    return [("ok", s2, NONE)]


def _apply_update_genes(eng, st, recv):
    """reaction.update_genes_from_gpr() by its PROVED contract (c02_update_genes, case in_model:no_context).  That contract is stated
    for a MATERIALISED reaction whose cross-reference fields live in the heap at its identity: it is applied to a temporary
    materialisation of the receiver (identity = the reaction reference, `_model` = the model, `_gpr` = the heap field `_gpr`)."""
    model = _model(eng)
    con = eng.reg.get("Reaction.update_genes_from_gpr")
    r = recv.t
    eng.oblige(st, z3.And(r != NULL, r != ident_of(model.oid)), "call:Reaction.update_genes_from_gpr/receiver", kind="callpre")
    st1, tmp = alloc_obj(st, "Reaction", {"attr:_model": model, "attr:_gpr": VRef(z3.Select(eng.heap_arr(st, "_gpr"), r), "GPR")})
    st1 = st1.assume(ident_of(tmp.oid) == r)
    if not eng.feasible(st1):
        raise Unsupported("materialising the receiver of update_genes_from_gpr contradicts what is known")
    outs = []
    for k, s2, v in eng.apply_contract(st1, con, [tmp], {}):
        if k == "ok":
            # ASSUMED (allocation, see the module docstring): the Gene objects the callee created carry the class tag Gene
            E = Env({"self": tmp}, st1, s2, eng=eng)
            g = qv("cg", Ref)
            G1 = eng.heap_arr(s2, "_genes")
            s2 = s2.assume(FA([g], z3.Implies(U.new_here(E, G1[r], g), tag(g) == GENE), patterns=[G1[r][g]]))
            # call-site lemma (OBLIGED, then used): the index of model.genes keeps every old key at its position
            mg = st1.objs[model.oid]["attr:genes"]
            dg0, vg0 = Dv(st1, mg)
            dg1, vg1 = Dv(s2, mg)
            kk = qv("uk", Id)
            lem = FA([kk], z3.Implies(z3.Select(dg0, kk), z3.And(z3.Select(dg1, kk), vg1[kk] == vg0[kk])), patterns=[z3.Select(dg0, kk)])
            eng.oblige(s2, lem, "call:Reaction.update_genes_from_gpr/lemma:index", kind="side")
            s2 = s2.assume(lem)
        outs.append((k, s2, v))
    return outs


HOOKS = chain_hooks({"global": global_hook, "call_abstract": call_abstract_hook, "getattr": getattr_hook, "setitem": setitem_hook,
                     "call_method": call_method_hook}, AM.HOOKS)


# ---------------------------------------------------------------- specification
def _me(E):
    return ident_of(E["self"].oid)


def _arg(E):
    return L(E.s0, E["reaction_list"])


def _dl(E, st, attr):
    return st.objs[E["self"].oid]["attr:" + attr]


def _absent0(E, x):
    """the identifier of x is not in model.reactions at entry"""
    dom, _ = Dv(E.s0, _dl(E, E.s0, "reactions"))
    return z3.Not(z3.Select(dom, Hh(E, E.s0, "_id")[x]))


def _new_ids_distinct(E):
    n, e = _arg(E)
    ids = Hh(E, E.s0, "_id")
    j1, j2 = qv("d1"), qv("d2")
    a, b = z3.Select(e, j1), z3.Select(e, j2)
    return FA([j1, j2], z3.Implies(z3.And(0 <= j1, j1 < j2, j2 < n, _absent0(E, a), _absent0(E, b)), ids[a] != ids[b]),
              patterns=[z3.MultiPattern(a, b)])


def _pre(E):
    n, e = _arg(E)
    s0 = E.s0
    j, y, x = qv("pj"), qv("py", Ref), qv("px", Ref)
    r = z3.Select(e, j)
    ids, mo0, R0 = Hh(E, s0, "_id"), Hh(E, s0, "_model"), Hh(E, s0, "_reaction")
    Mt0, G0 = Hh(E, s0, "_metabolites"), Hh(E, s0, "_genes")
    new = z3.And(0 <= j, j < n, _absent0(E, r))
    cs = [WF(E, s0, _dl(E, s0, a)) for a in ("reactions", "metabolites", "genes")]
    cs.append(C3._ctxs(s0, E["self"])[0] == 0)                                   # no context open
    # the listed objects are reactions, none is None
    cs.append(FA([j], z3.Implies(z3.And(0 <= j, j < n), z3.And(r != NULL, r != _me(E), tag(r) == RXN)), patterns=[r]))
    # a listed reaction that is going to be added belongs to no model ...
    cs.append(FA([j], z3.Implies(new, mo0[r] == NULL), patterns=[r]))
    # ... its stoichiometry: keys are metabolites, not None, with non-empty and (within the reaction) pairwise different identifiers
    cs.append(FA([j, y], z3.Implies(z3.And(new, Mt0[r][y]),
                                    z3.And(y != NULL, tag(y) == MET, KEYOF[r][ids[y]] == y, idlen(ids[y]) >= 1)), patterns=[Mt0[r][y]]))
    # ... its genes are genes
    cs.append(FA([j, y], z3.Implies(z3.And(new, G0[r][y]), tag(y) == GENE), patterns=[G0[r][y]]))
    # ... and it is listed only by its own metabolites and genes (one half of the C02 cross-reference invariant)
    cs.append(FA([j, y], z3.Implies(z3.And(new, R0[y][r]), z3.Or(Mt0[r][y], G0[r][y])), patterns=[R0[y][r]]))
    # the model (C02 invariant / typing): members of the three lists have their class, metabolites point at the model, reaction
    # sets hold reactions
    for a, t in (("reactions", RXN), ("metabolites", MET), ("genes", GENE)):
        ln, el = L(s0, _dl(E, s0, a))
        body = tag(el[j]) == t
        if a == "metabolites":
            body = z3.And(body, mo0[el[j]] == _me(E))
        cs.append(FA([j], z3.Implies(z3.And(0 <= j, j < ln), body), patterns=[el[j]]))
    cs.append(FA([y, x], z3.Implies(R0[y][x], tag(x) == RXN), patterns=[R0[y][x]]))
    return z3.And(*cs)


class P:
    """the local DictList `pruned` (never modified after its construction): elements, index"""

    def __init__(self, st, v):
        self.v = v
        self.m, self.e = L(st, v)
        self.dom, self.val = Dv(st, v)


def _pruned(Lc):
    return P(Lc.st, Lc.var("pruned"))


class W:
    """the heap views of one state"""

    def __init__(self, E, st):
        self.st = st
        self.id, self.mo, self.R = Hh(E, st, "_id"), Hh(E, st, "_model"), Hh(E, st, "_reaction")
        self.Mt, self.G, self.SV = Hh(E, st, "_metabolites"), Hh(E, st, "_genes"), sval(st)
        self.nm, self.em = L(st, _dl(E, st, "metabolites"))
        self.dm, self.vm = Dv(st, _dl(E, st, "metabolites"))
        self.ng, self.eg = L(st, _dl(E, st, "genes"))
        self.dg, self.vg = Dv(st, _dl(E, st, "genes"))

    def memM(self, y):
        return z3.And(z3.Select(self.dm, self.id[y]), self.em[self.vm[self.id[y]]] == y)

    def memG(self, y):
        return z3.And(z3.Select(self.dg, self.id[y]), self.eg[self.vg[self.id[y]]] == y)

    def newM(self, y, w0):
        """y joined model.metabolites during this call (it sits behind the entry members)"""
        return z3.And(self.memM(y), self.vm[self.id[y]] >= w0.nm)

    def newG(self, y, w0):
        return z3.And(self.memG(y), self.vg[self.id[y]] >= w0.ng)


def in_p(E, p, x, lo, hi):
    """x is one of the elements lo <= k < hi of `pruned` (through its index: no existential)"""
    w = p.val[Hh(E, E.s0, "_id")[x]]
    return z3.And(z3.Select(p.dom, Hh(E, E.s0, "_id")[x]), p.e[w] == x, lo <= w, w < hi)


def _filter_maps(st):
    src = [v for k, v in st.ghost.items() if isinstance(k, tuple) and k[0] == "filter"]
    return src[-1] if src else None


def pruned_is_filtered(E, st, p):
    n, e = _arg(E)
    fm = _filter_maps(st)
    if fm is None:
        return [z3.BoolVal(False)]
    src, dst, _ = fm
    j, i = qv("fj"), qv("fi")
    return [p.m >= 0, p.m <= n,
            # every element of pruned is a listed reaction whose identifier is not in the model ...
            FA([j], z3.Implies(z3.And(0 <= j, j < p.m), z3.And(0 <= src[j], src[j] < n, p.e[j] == e[src[j]], _absent0(E, e[src[j]]))),
               patterns=[p.e[j]]),
            # ... in the order of the argument ...
            FA([j], z3.Implies(z3.And(0 <= j, j + 1 < p.m), src[j] < src[j + 1]), patterns=[src[j + 1]]),
            # ... and every such reaction is an element
            FA([i], z3.Implies(z3.And(0 <= i, i < n, _absent0(E, e[i])), z3.And(0 <= dst[i], dst[i] < p.m, src[dst[i]] == i)),
               patterns=[dst[i]])]


def p_elements(E, p):
    """helper facts about the elements of pruned (consequences of the precondition, stated per element so that later obligations
    need not go through the filter maps)"""
    s0 = E.s0
    ids, mo0, R0 = Hh(E, s0, "_id"), Hh(E, s0, "_model"), Hh(E, s0, "_reaction")
    Mt0, G0 = Hh(E, s0, "_metabolites"), Hh(E, s0, "_genes")
    k, y = qv("ek"), qv("ey", Ref)
    r = p.e[k]
    rng = z3.And(0 <= k, k < p.m)
    return [FA([k], z3.Implies(rng, z3.And(r != NULL, r != _me(E), tag(r) == RXN, mo0[r] == NULL, _absent0(E, r),
                                           z3.Select(p.dom, ids[r]), p.val[ids[r]] == k)), patterns=[r]),
            FA([k, y], z3.Implies(z3.And(rng, Mt0[r][y]), z3.And(y != NULL, tag(y) == MET, KEYOF[r][ids[y]] == y, idlen(ids[y]) >= 1)),
               patterns=[Mt0[r][y]]),
            FA([k, y], z3.Implies(z3.And(rng, G0[r][y]), tag(y) == GENE), patterns=[G0[r][y]]),
            FA([k, y], z3.Implies(z3.And(rng, R0[y][r]), z3.Or(Mt0[r][y], G0[r][y])), patterns=[R0[y][r]])]


def done_form(E, w, r, y):
    """y is a key of the stoichiometry of the handled reaction r: the member of model.metabolites whose identifier is that of an
    entry key of r"""
    id0, Mt0 = Hh(E, E.s0, "_id"), Hh(E, E.s0, "_metabolites")
    K = KEYOF[r][id0[y]]
    return z3.And(Mt0[r][K], id0[K] == id0[y], z3.Select(w.dm, id0[y]), y == w.em[w.vm[id0[y]]])


def facts(E, st, p, io, cur=None, genes=True):
    """what holds when the reactions pruned[0..io) have been handled completely and the reactions from io (from io + 1 when the
    reaction at io is being handled: `cur` = (r, j, pos)) on have not been touched"""
    s0 = E.s0
    w0, w = W(E, s0), W(E, st)
    me = _me(E)
    hi = io + 1 if cur is not None else io
    k, j, x, y, g, key = qv("sk"), qv("sj"), qv("sx", Ref), qv("sy", Ref), qv("sg", Ref), qv("skey", Id)
    pk = p.e[k]
    done, pend = z3.And(0 <= k, k < io), z3.And(hi <= k, k < p.m)
    cs = []
    # identifiers change only for Gene objects
    cs.append(FA([x], z3.Implies(w.id[x] != w0.id[x], tag(x) == GENE), patterns=[w.id[x]]))
    # model.metabolites: well formed, old members in place (index too), members are metabolites that point at the model
    cs += [WF(E, st, _dl(E, st, "metabolites")), w.nm >= w0.nm,
           FA([j], z3.Implies(z3.And(0 <= j, j < w0.nm), w.em[j] == w0.em[j]), patterns=[w.em[j]]),
           FA([key], z3.Implies(z3.Select(w0.dm, key), z3.And(z3.Select(w.dm, key), w.vm[key] == w0.vm[key])), patterns=[z3.Select(w0.dm, key)]),
           FA([j], z3.Implies(z3.And(0 <= j, j < w.nm), z3.And(tag(w.em[j]) == MET, w.mo[w.em[j]] == me)), patterns=[w.em[j]])]
    if genes:
        cs += [WF(E, st, _dl(E, st, "genes")), w.ng >= w0.ng,
               FA([j], z3.Implies(z3.And(0 <= j, j < w0.ng), w.eg[j] == w0.eg[j]), patterns=[w.eg[j]]),
               FA([key], z3.Implies(z3.Select(w0.dg, key), z3.And(z3.Select(w.dg, key), w.vg[key] == w0.vg[key])), patterns=[z3.Select(w0.dg, key)]),
               FA([j], z3.Implies(z3.And(0 <= j, j < w.ng), tag(w.eg[j]) == GENE), patterns=[w.eg[j]])]
    # model pointers of the reactions of pruned
    cs += [FA([k], z3.Implies(z3.And(0 <= k, k < hi), w.mo[pk] == me), patterns=[pk]),
           FA([k], z3.Implies(pend, w.mo[pk] == NULL), patterns=[pk]),
           # frame: the only other model pointers that changed are those of the metabolites that joined and of genes of the model
           FA([x], z3.Implies(w.mo[x] != w0.mo[x], z3.Or(in_p(E, p, x, 0, hi), z3.And(tag(x) == MET, w.newM(x, w0)),
                                                         z3.And(tag(x) == GENE, w.memG(x)))), patterns=[w.mo[x]])]
    # stoichiometry: handled reactions are re-pointed to the model's objects, the others are untouched
    cs += [FA([k, y], z3.Implies(done, w.Mt[pk][y] == done_form(E, w, pk, y)), patterns=[w.Mt[pk][y]]),
           FA([k, y], z3.Implies(z3.And(done, w.Mt[pk][y]), w.SV[pk][y] == w0.SV[pk][KEYOF[pk][w0.id[y]]]), patterns=[w.SV[pk][y]]),
           FA([k, y], z3.Implies(z3.And(done, w0.Mt[pk][y]),
                                 z3.And(z3.Select(w.dm, w0.id[y]), w.Mt[pk][w.em[w.vm[w0.id[y]]]])), patterns=[w0.Mt[pk][y]]),
           FA([k], z3.Implies(pend, z3.And(w.Mt[pk] == w0.Mt[pk], w.SV[pk] == w0.SV[pk])), patterns=[pk]),
           FA([x], z3.Implies(z3.Or(w.Mt[x] != w0.Mt[x], w.SV[x] != w0.SV[x]), in_p(E, p, x, 0, hi)), patterns=[w.Mt[x], w.SV[x]])]
    # back references of the handled reactions
    cs += [FA([k, y], z3.Implies(z3.And(done, w.Mt[pk][y]), w.R[y][pk]), patterns=[w.Mt[pk][y]]),
           FA([y, x], z3.Implies(w.R[y][x], tag(x) == RXN), patterns=[w.R[y][x]]),
           # ... and conversely: whoever lists a handled reaction is one of its metabolites or genes - or a key it had at entry that is
           # NOT the model's object for its identifier (the foreign copy the reaction was re-pointed away from keeps its back reference)
           FA([k, y], z3.Implies(z3.And(done, w.R[y][pk]), z3.Or(w.Mt[pk][y], w.G[pk][y], z3.And(w0.Mt[pk][y], z3.Not(w.memM(y))))),
              patterns=[w.R[y][pk]]),
           # a reaction that is still to come has gained no back reference
           FA([k, y], z3.Implies(z3.And(pend, w.R[y][pk]), w0.R[y][pk]), patterns=[w.R[y][pk]]),
           # frame: any other entry of a reaction set that differs from entry is a reaction OUTSIDE the model that an object which
           # joined the model (metabolite / gene) no longer lists
           FA([y, x], z3.Implies(w.R[y][x] != w0.R[y][x],
                                 z3.Or(in_p(E, p, x, 0, p.m), z3.And(z3.Not(w.R[y][x]), z3.Or(w.newM(y, w0), w.newG(y, w0))))),
              patterns=[w.R[y][x]])]
    if genes:
        gpr, body = Hh(E, s0, "_gpr"), Hh(E, s0, "body")
        names = lambda r, kk: z3.And(body[gpr[r]] != NULL, z3.Select(U.rule_names(gpr[r]), kk))  # noqa
        cs += [FA([k, g], z3.Implies(z3.And(done, w.G[pk][g]), z3.And(w.memG(g), w.mo[g] == me, w.R[g][pk], names(pk, w.id[g]))),
                  patterns=[w.G[pk][g]]),
               # the gene set of a handled reaction holds the model's gene for every name of its rule
               FA([k, key], z3.Implies(z3.And(done, names(pk, key)), z3.And(z3.Select(w.dg, key), w.G[pk][w.eg[w.vg[key]]])),
                  patterns=[z3.Select(U.rule_names(gpr[pk]), key)]),
               FA([x], z3.Implies(w.G[x] != w0.G[x], in_p(E, p, x, 0, io)), patterns=[w.G[x]])]
    return cs


def _inv_outer(E, Lc):
    p = _pruned(Lc)
    return z3.And(*([Lc.n == p.m, WF(E, Lc.st, p.v)] + p_elements(E, p) + facts(E, Lc.st, p, Lc.i)))


def _inv_inner(E, Lc):
    p = _pruned(Lc)
    st = Lc.st
    en = st.ghost.get("ar_enum")
    rv = Lc.var("reaction")
    if en is None or not isinstance(rv, VRef):
        return z3.BoolVal(False)
    order, pos, card, dom, r_ = en
    r = rv.t
    w0, w = W(E, E.s0), W(E, st)
    io = p.val[w0.id[r]]
    jj = Lc.i
    y = qv("iy", Ref)
    K = KEYOF[r][w0.id[y]]
    mm = w.em[w.vm[w0.id[y]]]
    cs = [Lc.n == card, p.e[io] == r, 0 <= io, io < p.m]
    cs += facts(E, st, p, io, cur=(r, jj, pos), genes=False)
    # the reaction being handled: the keys enumerated so far are re-pointed / have joined, the others are as at entry
    cs += [FA([y], w.Mt[r][y] == z3.And(w0.Mt[r][K], w0.id[K] == w0.id[y],
                                        z3.If(pos[K] < jj, z3.And(z3.Select(w.dm, w0.id[y]), y == mm), y == K)), patterns=[w.Mt[r][y]]),
           FA([y], z3.Implies(w.Mt[r][y], w.SV[r][y] == w0.SV[r][K]), patterns=[w.SV[r][y]]),
           FA([y], z3.Implies(z3.And(w0.Mt[r][y], pos[y] < jj), z3.And(z3.Select(w.dm, w0.id[y]), w.Mt[r][mm], w.R[mm][r])), patterns=[pos[y]])]
    # the genes' side is not touched by this loop; what the outer invariant says about it and the fields written here
    k, g = qv("ik"), qv("ig", Ref)
    pk = p.e[k]
    cs.append(FA([k, g], z3.Implies(z3.And(0 <= k, k < io, w.G[pk][g]), z3.And(w.mo[g] == _me(E), w.R[g][pk])), patterns=[w.G[pk][g]]))
    # whoever lists the reaction being handled did so at entry or is one of its keys now
    cs.append(FA([y], z3.Implies(w.R[y][r], z3.Or(w0.R[y][r], z3.And(w.Mt[r][y], pos[K] < jj))), patterns=[w.R[y][r]]))
    return z3.And(*cs)


def _loop_locs(E, st, genes):
    locs = []
    for a in ("metabolites",) + (("genes",) if genes else ()):
        dl = _dl(E, st, a)
        locs += [("list", dl), ("dict", dict_of(st, dl))]
    locs += [("heap", "_model"), ("heap", "_reaction"), ("heap", "_metabolites"),
             ("ghost", "ar_stoich", lambda st: fresh("ar_stoich", CoefMap)), ("ghost", "am_trace", lambda st: ())]
    if genes:
        locs += [("heap", "_genes"), ("heap", "_id"), ("ghost", "utrace", U.havoc_utrace)]
    return locs


def _mod(E):
    locs = _loop_locs(E, E.s0, True)
    dl = _dl(E, E.s0, "reactions")
    locs += [("list", dl), ("dict", dict_of(E.s0, dl)), ("ghost", "ar_calls", lambda st: ())]
    for a in ("reactions", "metabolites", "genes"):
        d = _dl(E, E.s0, a)
        locs.append(("attr", E["self"], a, (lambda d_: lambda st: (st, d_))(d)))
    return locs


def _post(E):
    s0, s1 = E.s0, E.s1
    calls = s1.ghost.get("ar_calls", ())
    # exactly one call self._populate_solver(pruned), made in the exit state (after everything has been linked)
    if len(calls) != 1 or calls[0][0] != "_populate_solver":
        return z3.BoolVal(False)
    _, pv, (pl, pe_), st_call = calls[0]
    pr = s1.ghost.get("ar_pruned")
    if not (isinstance(pr, VObj) and isinstance(pv, VObj) and pv.oid == pr.oid):
        return z3.BoolVal(False)            # the argument of the call is not the DictList `pruned`
    same_state = all(_same_term(E.eng.heap_arr(st_call, f), E.eng.heap_arr(s1, f)) for f in ("_model", "_reaction", "_metabolites", "_genes", "_id")) \
        and _same_term(sval(st_call), sval(s1)) \
        and all(st_call.objs[_dl(E, s1, a).oid] is s1.objs[_dl(E, s1, a).oid] or
                (_same_term(L(st_call, _dl(E, s1, a))[0], L(s1, _dl(E, s1, a))[0]) and _same_term(L(st_call, _dl(E, s1, a))[1], L(s1, _dl(E, s1, a))[1]))
                for a in ("reactions", "metabolites", "genes"))
    p = P(s1, pv)
    cs = [z3.BoolVal(bool(same_state)), z3.BoolVal(_same_term(pl, p.m) and _same_term(pe_, p.e))]
    cs += pruned_is_filtered(E, s1, p)
    # model.reactions: the old members in place, then the reactions of pruned in their order; well formed
    rl = _dl(E, s1, "reactions")
    n0, e0 = L(s0, rl)
    n1, e1 = L(s1, rl)
    j = qv("oj")
    cs += [WF(E, s1, rl), n1 == n0 + p.m,
           FA([j], z3.Implies(z3.And(0 <= j, j < n0), e1[j] == e0[j]), patterns=[e1[j]]),
           FA([j], z3.Implies(z3.And(0 <= j, j < p.m), e1[n0 + j] == p.e[j]), patterns=[p.e[j]])]
    cs += facts(E, s1, p, p.m)
    # the C02 clause itself, for the added reactions and the model's objects (a consequence of the facts above, proved here so
    # that it need not be re-derived): a member of model.metabolites / model.genes is listed by the reaction iff it lists the reaction
    w = W(E, s1)
    k, y = qv("xk"), qv("xy", Ref)
    pk = p.e[k]
    rng = z3.And(0 <= k, k < p.m)
    cs += [FA([k, y], z3.Implies(z3.And(rng, w.memM(y)), w.Mt[pk][y] == w.R[y][pk]), patterns=[w.Mt[pk][y], w.R[y][pk]]),
           FA([k, y], z3.Implies(z3.And(rng, w.memG(y)), w.G[pk][y] == w.R[y][pk]), patterns=[w.G[pk][y], w.R[y][pk]])]
    return z3.And(*cs)


def _same_term(a, b):
    if isinstance(a, tuple):
        return all(x.eq(y) for x, y in zip(a, b))
    return a.eq(b)


REG.add(Contract(MM, "Model.add_reactions", "C02", [("self", _model_t()), ("reaction_list", TList("ref:Reaction"))],
                 [Case("no_context", requires=_new_ids_distinct, ensures=_post),
                  Case("repeated_new_identifier", requires=lambda E: z3.Not(_new_ids_distinct(E)), raises="ValueError",
                       ensures=lambda E: z3.BoolVal(len(E.s1.ghost.get("ar_calls", ())) == 0))], pre=_pre, modifies=_mod, key=KEY,
                 loops={0: LoopSpec(_inv_outer, lambda E, Lc: _loop_locs(E, Lc.st, True)),
                        1: LoopSpec(_inv_inner, lambda E, Lc: _loop_locs(E, Lc.st, False))},
                 note="no context open"))
KEYS = [KEY]
