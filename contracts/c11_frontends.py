"""C11 - the thin FRONT ENDS of the JSON and YAML formats (cobra/io/json.py, cobra/io/yaml.py) over their real sources, as
RECORDED-CALL contracts: which calls are made, in which order, with which argument objects, and what is returned.

The two ends that do the work - model_to_dict / model_from_dict - are proved in contracts/c11_model.py; the codecs (json.dumps / loads /
dump / load, ruamel's YAML.dump / load, open / io.open, StringIO) are ASSUMED and appear here only as recorded abstract calls.  Every
call is appended to the ghost trace `fe_trace` as (name, positional values, keyword values, state at the call, value returned).

PROVED (each function: 1 path per case; the trace is compared by python-level identity of the argument objects)
  to_json(model, sort, **kwargs) [cases: no keyword / `indent`, `sort_keys` given]: exactly the calls
        d = model_to_dict(model, sort=sort)            - the caller's model object, the caller's `sort` value, nothing else
        json.dumps(d, allow_nan=False, **kwargs)       - the very dictionary model_to_dict returned, whose entries at that moment are
                                                         the ones model_to_dict returned plus ONE more, "version" = JSON_SPEC ("1"),
                                                         appended last; allow_nan is the constant False; the caller's keywords passed
                                                         through unchanged, no other keyword
      and the value returned is what json.dumps returned.
  from_json(document): json.loads(document) then model_from_dict(<what loads returned>); its result is returned.
  load_json_model(filename) [cases: str, Path, an open handle]: for a str / Path exactly open(filename, "r"), __enter__,
      json.load(<the handle __enter__ returned>), model_from_dict(<what load returned>), __exit__ (the file is closed AFTER the
      document has been read and the model built); for a handle json.load(filename), model_from_dict(...) and no open / close;
      the value returned is what model_from_dict returned.
  save_json_model(model, filename, sort, pretty, **kwargs) [12 cases: pretty False / True x str / Path / handle x no keyword /
      `indent`, `allow_nan` given]: one model_to_dict(model, sort=sort) call; "version" = "1" appended; for a str / Path
      open(filename, "w"), __enter__, json.dump(d, <handle>, **opts), __exit__, for a handle json.dump(d, filename, **opts); opts is
      EXACTLY the keyword table for the value of `pretty` - indent 4 / separators (",", ": ") / sort_keys True resp. indent 0 /
      separators (",", ":") / sort_keys False: the two tables differ in these FORMATTING keywords only and BOTH hold allow_nan=False -
      with the caller's keywords overriding / extending it (documented: "can be partially overwritten by the **kwargs"; a caller who
      passes allow_nan=True gets what he asked for), and no other keyword; None is returned.
  to_yaml(model, sort, **kwargs): model_to_dict(model, sort=sort), then yaml.dump(d, **kwargs) on the module's CobraYAML instance with
      the very dictionary, extended by "version" = YAML_SPEC ("1.2"); the value returned is what dump returned.
  from_yaml(document): StringIO(document), yaml.load(<that stream>), model_from_dict(<what load returned>).
  save_yaml_model(model, filename, sort, **kwargs) [cases: str, handle]: model_to_dict(model, sort=sort); "version" appended; for a
      str io.open(filename, "w"), __enter__, yaml.dump(d, <handle>, **kwargs), __exit__; else yaml.dump(d, filename, **kwargs).
  load_yaml_model(filename) [cases: str, Path, handle]: as load_json_model with io.open / yaml.load.
  CobraYAML.dump(self, data, stream=None, **kwargs) [cases: no stream / a stream]: without a stream a StringIO() is created,
      YAML.dump(self, data, <it>, **kwargs) is called once and <it>.getvalue() is returned; with a stream YAML.dump(self, data, stream,
      **kwargs) is called once and None is returned (no getvalue).

WHAT THIS GIVES WITH THE OTHER CONTRACTS.  to_json o from_json = model_from_dict(loads(dumps(model_to_dict(m) + version))).  The key
"version" is not in model_from_dict's attribute table (its proved contract: a key outside the table is ignored - the cases there
carry exactly such a key).  The record model_to_dict returns consists, by the PROVED writer contracts (contracts/c10_c11_io.py,
c11_model.py), of: str (identifiers, names, formulas, compartments, gene rules, subsystems, the direction, and a bound that is
infinite or NaN - written as a string EXACTLY then), float / int (coefficients, charges and FINITE bounds - a bound is written as the
float itself exactly when it is finite), bool, lists of records, and dictionaries with str keys (notes / annotation / compartments:
`_fix_type` copies their keys and value objects - the VALUES of user supplied notes / annotations are not constrained by any contract:
a NaN or a non-JSON object stored there by the user makes json.dumps RAISE because of allow_nan=False, it is never written as the
non-standard token NaN).  ASSUMED about the codec: loads(dumps(x)) == x for values built from these kinds.  allow_nan=False is what
turns a writer slip (an infinite bound left as a float) into an exception instead of a document other parsers reject: the
clause `bound is a string exactly when not finite` of _reaction_to_dict is therefore the precondition of `to_json never raises on a
model that has only str / finite numbers in its notes`.

ENGINE (additive, both turn a former `Unsupported` into a supported construct): pyvc/builtins.dict_from_pairs - a dictionary display
with literal keys whose values are of different kinds (`{"indent": 4, "separators": (",", ": "), ...}`) is a record; pyvc/engine.e_Call -
`f(**d)` with d such a record (literal string keys, unconditional entries) passes its entries as keywords.

MUTATION TRIALS (tools/mutate_and_run.sh; every one fails with the exit post-condition `sat`):
  json.py  to_json: `sort=sort` -> `sort=False`; `allow_nan=False` -> `allow_nan=True`; `obj["version"] = JSON_SPEC` dropped; `**kwargs`
           dropped from dumps (case with_keywords); `json.dumps(dict(obj), ...)` (another dictionary: undecided, dict(...) unsupported)
           from_json: `json.loads(document)` -> `json.load(document)`
           load_json_model: `json.load(file_handle)` -> `json.load(filename)` inside the with block (cases str, Path)
           save_json_model: pretty table `"allow_nan": True` (cases pretty:True); `dump_opts.update(**kwargs)` dropped (cases
           with_keywords); `json.dump(obj, file_handle)` without the options; `if not pretty:`; open(filename, "a"); version dropped
  yaml.py  save_yaml_model: `yaml.dump(obj, filename, **kwargs)` inside the with block (cases str); to_yaml: `obj["version"] = "1"`;
           load_yaml_model: `isinstance(filename, str)` only (case Path); CobraYAML.dump: `if not inefficient:` (cases no_stream sat,
           cases stream undecided: IO.getvalue unknown)
"""
import z3
from .common import *  # noqa
from pyvc.state import alloc_obj

MJ, MY = "cobra/io/json.py", "cobra/io/yaml.py"
for _c in ("Model", "Path", "IO", "File", "StringIO", "Document", "CobraYAML"):
    REG.classes.setdefault(_c, [])
_MINE = ("to_json", "from_json", "load_json_model", "save_json_model", "to_yaml", "from_yaml", "save_yaml_model", "load_yaml_model", "CobraYAML.dump")
_ABSTRACT_GLOBALS = ("model_to_dict", "model_from_dict", "json", "yaml", "open", "io", "StringIO", "YAML")


def _cur(eng):
    return getattr(getattr(eng, "cur_contract", None), "key", None)


def trace(st):
    return st.ghost.get("fe_trace", ())


def _event(st, name, pos, kw, res):
    return st.setghost("fe_trace", trace(st) + ((name, tuple(pos), tuple(sorted(kw.items())), st, res),))


def _used(key):
    from pyvc.apply import ASSUMED_USED
    ASSUMED_USED[key] = REG.get(key).note


# ---------------------------------------------------------------- hooks
def global_hook(eng, name):
    if _cur(eng) in _MINE and name in _ABSTRACT_GLOBALS:
        return VFunc("abstract", "fe:" + name)
    if _cur(eng) in _MINE and name == "Path":
        return VClass("Path")
    return None


def getattr_hook(eng, st, v, name):
    if _cur(eng) not in _MINE:
        return None
    if isinstance(v, VFunc) and v.kind == "abstract" and v.a in ("fe:json", "fe:yaml", "fe:io", "fe:YAML"):
        return [("ok", st, VFunc("abstract", v.a + "." + name))]
    if isinstance(v, VObj) and v.cls in ("StringIO", "File") and name in ("getvalue", "__enter__", "__exit__"):
        return [("ok", st, VFunc("bound", v, name))]
    return None


def _new_text(name):
    return VStr(fresh(name, Id))


def call_abstract_hook(eng, st, f, pos, kw):
    if not (isinstance(f.a, str) and f.a.startswith("fe:")):
        return None
    name = f.a[3:]
    if name == "model_to_dict":
        _used("model_to_dict@recorded")
        items = (("metabolites", VRef(fresh("d_metabolites", Ref), "list")), ("reactions", VRef(fresh("d_reactions", Ref), "list")),
                 ("genes", VRef(fresh("d_genes", Ref), "list")), ("id", VStr(fresh("d_id", Id))))
        st, o = alloc_obj(st, "dict", {"pure": True, "pyitems": items})
        d = VObj(o.oid, "dict", "dict")
        st = st.setghost("fe_written", (d, items))
        return [("ok", _event(st, name, pos, kw, d), d)]
    if name == "model_from_dict":
        _used("model_from_dict@recorded")
        r = VRef(fresh("model_read", Ref), "Model")
        return [("ok", _event(st, name, pos, kw, r), r)]
    if name in ("json.dumps", "json.loads", "json.load", "json.dump", "yaml.dump", "yaml.load", "YAML.dump"):
        _used("codec@recorded")
        if name == "json.dumps":
            r = _new_text("json_text")
        elif name in ("json.loads", "json.load", "yaml.load"):
            r = VRef(fresh("document", Ref), "Document")
        elif name == "yaml.dump":
            r = VRef(fresh("yaml_dump_result", Ref), "Any")          # a str (no stream) or None (a stream): CobraYAML.dump
        else:
            r = NONE
        return [("ok", _event(st, name, pos, kw, r), r)]
    if name in ("open", "io.open"):
        _used("codec@recorded")
        st, o = alloc_obj(st, "File", {})
        return [("ok", _event(st, name, pos, kw, o), o)]
    if name == "StringIO":
        _used("codec@recorded")
        st, o = alloc_obj(st, "StringIO", {})
        return [("ok", _event(st, name, pos, kw, o), o)]
    return None


def call_method_hook(eng, st, recv, name, pos, kw):
    if _cur(eng) not in _MINE:
        return None
    if isinstance(recv, VObj) and recv.cls == "File" and name in ("__enter__", "__exit__"):
        if name == "__enter__":
            st, h = alloc_obj(st, "IO", {})
            return [("ok", _event(st, "__enter__", [recv], {}, h), h)]
        return [("ok", _event(st, "__exit__", [recv], {}, NONE), NONE)]       # returns None: an exception is not swallowed
    if isinstance(recv, VObj) and recv.kind == "dict" and st.objs[recv.oid].get("pure") and name == "update" and not pos:
        # <keyword table>.update(**kwargs): the given keywords replace / extend the entries (dict.update with keywords only)
        items = st.objs[recv.oid]["pyitems"]
        for k, v in kw.items():
            items = tuple((a, v if a == k else b) for a, b in items) if k in dict(items) else items + ((k, v),)
        return [("ok", st.updobj(recv.oid, pyitems=items), NONE)]
    if isinstance(recv, VObj) and recv.cls == "StringIO" and name == "getvalue" and not pos and not kw:
        r = _new_text("stream_value")
        return [("ok", _event(st, "getvalue", [recv], {}, r), r)]
    return None


def isinstance_hook(eng, st, v, clsname):
    if _cur(eng) not in _MINE or clsname not in ("str", "Path"):
        return None
    if isinstance(v, (VStr, VConc)):
        return clsname == "str"
    if isinstance(v, VRef) and v.cls == "Path":
        return clsname == "Path"
    if isinstance(v, (VRef, VObj)) and v.cls == "IO":
        return False
    return None


HOOKS = {"global": global_hook, "getattr": getattr_hook, "call_abstract": call_abstract_hook, "call_method": call_method_hook,
         "isinstance": isinstance_hook}

for _k, _n in (("model_to_dict@recorded", "recorded abstract call of cobra.io.dict.model_to_dict (PROVED under its own key in contracts/c11_model.py): "
                                           "returns a NEW record dictionary with the keys metabolites / reactions / genes / id [...]; here only "
                                           "its arguments and what happens to the dictionary it returned are claimed"),
               ("model_from_dict@recorded", "recorded abstract call of cobra.io.dict.model_from_dict (PROVED under its own key in "
                                            "contracts/c11_model.py): returns a model; here only its argument and that its result is returned"),
               ("codec@recorded", "json.dumps / loads / dump / load, ruamel YAML.dump / load (the module's CobraYAML instance), open / "
                                  "io.open as context managers whose __exit__ does not swallow exceptions, StringIO / getvalue: recorded "
                                  "abstract calls that modify none of the objects of the caller; loads(dumps(x)) == x for str / finite "
                                  "float / int / bool / None / list / dict-with-str-keys is the codec assumption of C11")):
    REG.add(Contract(MJ, _k.split("@")[0], "C11", [], [Case("any")], assumed=True, key=_k, note=_n))
ASSUMED_KEYS = ["model_to_dict@recorded", "model_from_dict@recorded", "codec@recorded"]


# ---------------------------------------------------------------- post-condition helpers (python-level comparison of the trace)
def _is(a, b):
    """the SAME value: object identity for objects, term identity for symbolic scalars, equality for literals"""
    if a is b:
        return True
    if isinstance(a, VConc) and isinstance(b, VConc):
        return type(a.py) is type(b.py) and a.py == b.py
    if isinstance(a, VObj) and isinstance(b, VObj):
        return a.oid == b.oid
    if isinstance(a, VNone) and isinstance(b, VNone):
        return True
    ta, tb = getattr(a, "t", None), getattr(b, "t", None)
    if type(a) is type(b) and z3.is_expr(ta) and z3.is_expr(tb):
        return ta.eq(tb)
    if isinstance(a, VBool) and isinstance(b, VConc) and isinstance(b.py, bool):
        return z3.is_true(z3.simplify(a.t)) == b.py and (z3.is_true(z3.simplify(a.t)) or z3.is_false(z3.simplify(a.t)))
    if isinstance(b, VBool) and isinstance(a, VConc):
        return _is(b, a)
    return False


def _call_is(ev, name, pos, kw):
    return (ev[0] == name and len(ev[1]) == len(pos) and all(_is(x, y) for x, y in zip(ev[1], pos))
            and [k for k, _ in ev[2]] == sorted(kw) and all(_is(v, kw[k]) for k, v in ev[2]))


def _kwargs(E):
    return {k: v for k, v in E["kwargs"].py.items() if k != "__kwargs__"}


def _dict_with_version(E, ev_write, ev_dump, spec):
    """the dictionary handed to the codec IS the one model_to_dict returned and holds, at that moment, exactly the entries it was
    returned with plus "version" = spec, appended last"""
    d = ev_write[4]
    got = E.s1.ghost.get("fe_written")
    if got is None or not _is(got[0], d) or not (ev_dump[1] and _is(ev_dump[1][0], d)):
        return False
    now = ev_dump[3].objs[d.oid]
    if not now.get("pure"):
        return False
    items = now["pyitems"]
    return (len(items) == len(got[1]) + 1 and all(a[0] == b[0] and a[1] is b[1] for a, b in zip(items, got[1]))
            and items[-1][0] == "version" and isinstance(items[-1][1], VConc) and items[-1][1].py == spec)


def _post(fn):
    return lambda E: z3.BoolVal(bool(fn(E, trace(E.s1))))


def _kw_cases(post, names=("indent", "sort_keys"), over=None):
    """the same post-condition for a call without keywords and one with some"""
    out = []
    for tag, ks in (("no_keywords", ()), ("with_keywords", names)):
        def kwt(st, name, ks=ks):
            d = {"__kwargs__": True}
            for k in ks:
                st, v = TInt().make(st, "kw_" + k)
                d[k] = v
            return st, VConc(d)
        for tag2, o in (over or [("", {})]):
            c = Case(tag + tag2, ensures=_post(post))
            c.params_override = dict(o, kwargs=TCustom(kwt))
            out.append(c)
    return out


_SORT = TBool()
_SORT.default = VBool(False)
_KW = ("**kwargs", TConc({"__kwargs__": True}))


# ---------------------------------------------------------------- json
def _to_json(E, tr):
    return (len(tr) == 2 and _call_is(tr[0], "model_to_dict", [E["model"]], {"sort": E["sort"]})
            and _call_is(tr[1], "json.dumps", [tr[0][4]], dict(_kwargs(E), allow_nan=VConc(False)))
            and _dict_with_version(E, tr[0], tr[1], "1") and _is(E.res, tr[1][4]))


REG.add(Contract(MJ, "to_json", "C11", [("model", TRef("Model")), ("sort", _SORT), _KW], _kw_cases(_to_json), key="to_json",
                 modifies=lambda E: [("ghost", "fe_trace", lambda st: ()), ("ghost", "fe_written", lambda st: None)]))


def _from_json(E, tr):
    return (len(tr) == 2 and _call_is(tr[0], "json.loads", [E["document"]], {}) and _call_is(tr[1], "model_from_dict", [tr[0][4]], {})
            and _is(E.res, tr[1][4]))


_GH = lambda E: [("ghost", "fe_trace", lambda st: ()), ("ghost", "fe_written", lambda st: None)]  # noqa
REG.add(Contract(MJ, "from_json", "C11", [("document", TStr())], [Case("any", ensures=_post(_from_json))], key="from_json", modifies=_GH))


def _load(codec_load, open_name):
    def post(E, tr):
        fn = E["filename"]
        if isinstance(fn, (VRef, VObj)) and fn.cls == "IO":
            return (len(tr) == 2 and _call_is(tr[0], codec_load, [fn], {}) and _call_is(tr[1], "model_from_dict", [tr[0][4]], {})
                    and _is(E.res, tr[1][4]))
        return (len(tr) == 5 and _call_is(tr[0], open_name, [fn, VConc("r")], {}) and _call_is(tr[1], "__enter__", [tr[0][4]], {})
                and _call_is(tr[2], codec_load, [tr[1][4]], {}) and _call_is(tr[3], "model_from_dict", [tr[2][4]], {})
                and _call_is(tr[4], "__exit__", [tr[0][4]], {}) and _is(E.res, tr[3][4]))
    return post


def _file_cases(post, kinds=("str", "Path", "handle")):
    out = []
    for k in kinds:
        c = Case("filename:" + k, ensures=_post(post))
        c.params_override = {"filename": {"str": TStr(), "Path": TRef("Path"), "handle": TRef("IO")}[k]}
        out.append(c)
    return out


REG.add(Contract(MJ, "load_json_model", "C11", [("filename", TStr())], _file_cases(_load("json.load", "open")), key="load_json_model",
                 modifies=_GH))


_PRETTY = {True: {"indent": 4, "separators": (",", ": "), "sort_keys": True, "allow_nan": False},
           False: {"indent": 0, "separators": (",", ":"), "sort_keys": False, "allow_nan": False}}


def _lit(v):
    if isinstance(v, VConc):
        return v.py
    if isinstance(v, VTuple):
        return tuple(_lit(x) for x in v.items)
    if isinstance(v, (VBool, VInt)) and z3.is_expr(v.t):
        t = z3.simplify(v.t)
        if z3.is_true(t) or z3.is_false(t):
            return z3.is_true(t)
        if z3.is_int_value(t):
            return t.as_long()
    return v


def _save_json(E, tr):
    """the keywords json.dump receives: the documented table for the value of `pretty` (the two tables differ in indent / separators /
    sort_keys ONLY and both hold allow_nan=False), overridden / extended by the caller's own keywords, and nothing else"""
    fn = E["filename"]
    if not (len(tr) >= 2 and _call_is(tr[0], "model_to_dict", [E["model"]], {"sort": E["sort"]}) and isinstance(E.res, VNone)):
        return False
    pretty = _lit(E["pretty"])
    if pretty not in (True, False):
        return False
    d = tr[0][4]

    def dump_ok(ev, handle):
        if not (ev[0] == "json.dump" and len(ev[1]) == 2 and _is(ev[1][0], d) and _is(ev[1][1], handle)):
            return False
        got, own = dict(ev[2]), _kwargs(E)
        want = dict(_PRETTY[bool(pretty)])
        if set(got) != set(want) | set(own):
            return False
        for k, v in got.items():
            if k in own:
                if not _is(v, own[k]):
                    return False
            elif _lit(v) != want[k] or type(_lit(v)) is not type(want[k]):
                return False
        return _dict_with_version(E, tr[0], ev, "1")
    if isinstance(fn, (VRef, VObj)) and fn.cls == "IO":
        return len(tr) == 2 and dump_ok(tr[1], fn)
    return (len(tr) == 5 and _call_is(tr[1], "open", [fn, VConc("w")], {}) and _call_is(tr[2], "__enter__", [tr[1][4]], {})
            and dump_ok(tr[3], tr[2][4]) and _call_is(tr[4], "__exit__", [tr[1][4]], {}))


def _sj_cases():
    out = []
    for pv in (False, True):
        for fk, ft in (("str", TStr), ("Path", lambda: TRef("Path")), ("handle", lambda: TRef("IO"))):
            out += _kw_cases(_save_json, names=("indent", "allow_nan"),
                             over=[(f"/pretty:{pv}/filename:{fk}", {"pretty": TConc(pv), "filename": ft()})])
    return out


_PRETTY_T = TConc(False)
_PRETTY_T.default = VConc(False)
REG.add(Contract(MJ, "save_json_model", "C11", [("model", TRef("Model")), ("filename", TStr()), ("sort", _SORT), ("pretty", _PRETTY_T), _KW],
                 _sj_cases(), key="save_json_model", modifies=_GH))


# ---------------------------------------------------------------- yaml
def _to_yaml(E, tr):
    return (len(tr) == 2 and _call_is(tr[0], "model_to_dict", [E["model"]], {"sort": E["sort"]})
            and _call_is(tr[1], "yaml.dump", [tr[0][4]], _kwargs(E)) and _dict_with_version(E, tr[0], tr[1], "1.2")
            and _is(E.res, tr[1][4]))


REG.add(Contract(MY, "to_yaml", "C11", [("model", TRef("Model")), ("sort", _SORT), _KW], _kw_cases(_to_yaml, names=("default_flow_style",)),
                 key="to_yaml", modifies=_GH))


def _from_yaml(E, tr):
    return (len(tr) == 3 and _call_is(tr[0], "StringIO", [E["document"]], {}) and _call_is(tr[1], "yaml.load", [tr[0][4]], {})
            and _call_is(tr[2], "model_from_dict", [tr[1][4]], {}) and _is(E.res, tr[2][4]))


REG.add(Contract(MY, "from_yaml", "C11", [("document", TStr())], [Case("any", ensures=_post(_from_yaml))], key="from_yaml", modifies=_GH))
REG.add(Contract(MY, "load_yaml_model", "C11", [("filename", TStr())], _file_cases(_load("yaml.load", "io.open")), key="load_yaml_model",
                 modifies=_GH))


def _save_yaml(E, tr):
    fn = E["filename"]
    if not (len(tr) >= 2 and _call_is(tr[0], "model_to_dict", [E["model"]], {"sort": E["sort"]}) and isinstance(E.res, VNone)):
        return False
    d = tr[0][4]
    if isinstance(fn, (VRef, VObj)) and fn.cls == "IO":
        return len(tr) == 2 and _call_is(tr[1], "yaml.dump", [d, fn], _kwargs(E)) and _dict_with_version(E, tr[0], tr[1], "1.2")
    return (len(tr) == 5 and _call_is(tr[1], "io.open", [fn, VConc("w")], {}) and _call_is(tr[2], "__enter__", [tr[1][4]], {})
            and _call_is(tr[3], "yaml.dump", [d, tr[2][4]], _kwargs(E)) and _dict_with_version(E, tr[0], tr[3], "1.2")
            and _call_is(tr[4], "__exit__", [tr[1][4]], {}))


REG.add(Contract(MY, "save_yaml_model", "C11", [("model", TRef("Model")), ("filename", TStr()), ("sort", _SORT), _KW],
                 _kw_cases(_save_yaml, names=("default_flow_style",),
                           over=[("/filename:str", {"filename": TStr()}), ("/filename:handle", {"filename": TRef("IO")})]),
                 key="save_yaml_model", modifies=_GH))


def _cy_dump(E, tr):
    s = E["stream"]
    if isinstance(s, VNone):
        return (len(tr) == 3 and tr[0][0] == "StringIO" and tr[0][1] == () and tr[0][2] == ()
                and _call_is(tr[1], "YAML.dump", [E["self"], E["data"], tr[0][4]], _kwargs(E))
                and _call_is(tr[2], "getvalue", [tr[0][4]], {}) and _is(E.res, tr[2][4]))
    return len(tr) == 1 and _call_is(tr[0], "YAML.dump", [E["self"], E["data"], s], _kwargs(E)) and isinstance(E.res, VNone)


_STREAM = TNone()
_STREAM.default = NONE
REG.modules.append(MY) if MY not in REG.modules else None
REG.add(Contract(MY, "CobraYAML.dump", "C11", [("self", TRef("CobraYAML")), ("data", TRef("dict")), ("stream", _STREAM), _KW],
                 _kw_cases(_cy_dump, names=("transform",), over=[("/no_stream", {"stream": TNone()}), ("/stream", {"stream": TRef("IO")})]),
                 key="CobraYAML.dump", modifies=_GH))

KEYS = ["to_json", "from_json", "load_json_model", "save_json_model", "to_yaml", "from_yaml", "save_yaml_model", "load_yaml_model", "CobraYAML.dump"]
