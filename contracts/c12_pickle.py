"""C11 / C12 - the pickle / deepcopy PROTOCOL methods of the core classes, proved over their real sources:

    Model.__getstate__          cobra/core/model.py
    Object.__getstate__         cobra/core/object.py     (inherited by Group, and by everything that does not override it)
    Species.__getstate__        cobra/core/species.py    (Metabolite, Gene)
    Reaction.__getstate__       cobra/core/reaction.py
    Reaction.__setstate__       cobra/core/reaction.py

pickle / copy.deepcopy call `x.__getstate__()`, copy the dictionary it returns STRUCTURALLY (assumed: the codec) and hand the copy to
`y.__setstate__(state)` of a new object (or update `y.__dict__` with it when the class has no `__setstate__`).  What is proved here is
what the two ends do, with `obj.__dict__` given the meaning RECORD over the attributes of the (materialised) receiver - the attribute
names are the ones contracts/c12_model_copy.py derives mechanically from the `self.<name> = ...` assignments of the __init__ methods
(ATTRS; ASSUMPTION as there: instances have no other attributes).

PROVED
  Model.__getstate__ (1 path): the value returned is a NEW dictionary (not an object that existed at entry, in particular not
      `self.__dict__` itself) with exactly the model's attribute names, in order; every entry but `_contexts` holds the very object /
      value the attribute holds; `_contexts` holds a NEW EMPTY list (not the model's context stack).  Frame (engine): NOTHING is
      modified - the model still holds every attribute, its own context stack is NOT emptied (it is the same list object with the same
      content), no heap field changes.
  Object.__getstate__ (cases: an object with a `_model` attribute - Group, Metabolite, Gene - and one without - a bare Object): a NEW
      dictionary with exactly the attribute names; `_model` holds None when the attribute exists (and no `_model` entry appears
      when it does not); every other entry holds the attribute's value; nothing is modified (the object still points at its model).
  Species.__getstate__ (Metabolite and Gene attribute lists): as Object.__getstate__ (applied BY ITS CONTRACT at the call site) and
      in addition `_reaction` holds a NEW EMPTY set - not the species' own set, which is untouched (frame).
      WHY the restored model is consistent although `_model` and `_reaction` are dropped: `_model` of every member of the four lists
      is re-pointed by Model.__setstate__ (proved in contracts/misc_small.py: `members point here`), `_reaction` is refilled by
      Reaction.__setstate__ (below) for every reaction that is restored.
  Reaction.__getstate__ (1 path): a NEW dictionary with exactly the reaction's attribute names; `_gpr` holds the TEXT of the rule
      (`str(self._gpr)`: the term rule_text(g), GPR.__str__ assumed to return to_string()); every other entry - `_model`,
      `_metabolites`, `_genes` INCLUDED: the reaction keeps its model pointer and its members, this is how the graph is traversed -
      holds the attribute's value; nothing is modified (the reaction keeps its rule OBJECT).
  Reaction.__setstate__ (cases: a state as written by __getstate__ with the rule as text; the same with a rule OBJECT; an OLD pickle
      with the keys `reaction`, `gene_reaction_rule`, `lower_bound`, `upper_bound` and without `_gpr` / `_lower_bound` /
      `_upper_bound` / `_gene_reaction_rule`; an old pickle that has `_gene_reaction_rule` only; each with a model pointer that is
      None or a model): on return
        - the attributes of the receiver are the entries of the state under their MODERN names (`lower_bound` -> `_lower_bound`,
          `upper_bound` -> `_upper_bound`, `gene_reaction_rule` -> `_gene_reaction_rule`, `reaction` dropped);
        - `_gpr` is a rule OBJECT: the state's object when one was given, else GPR.from_string(text) for the text given under
          `_gpr` resp. the legacy rule text (exactly one call, recorded; parsed_from(g) == text);
        - every key x of the stoichiometry and every gene x: the receiver IS in `x._reaction` afterwards and x._model is the
          receiver's `_model`; everything that was in `x._reaction` is still there; for every other object `_reaction` and `_model`
          are as found (two loop invariants over the dictionary keys / the gene set in any enumeration order).
  lemmas(): getstate o (structural copy) o setstate at the record level - see lemmas().

ASSUMED (trusted): GPR.__str__ returns the text to_string() prints (rule_text, uninterpreted); GPR.from_string(text) returns a NEW
rule object g with parsed_from(g) == text and writes nothing else (that from_string parses what to_string printed back to an
equivalent rule is the bounded text round trip of C08 / C11, not claimed here); the pickle / deepcopy codec (structural copy, memo).

FINDING (reported, NOT absorbed; it marks the boundary of the codec assumption of lemmas(): `a reaction's members, and the reactions
of a model, are restored before the owner's __setstate__ runs`).  Reaction.__getstate__ keeps `_model` (proved above: every entry
but `_gpr` is passed on).  Pickling a REACTION THAT BELONGS TO A MODEL on its own - or any structure that reaches the reaction
before its model, e.g. [reaction] or (reaction, model) - therefore serialises the model INSIDE the reaction's state; on loading,
Model.__setstate__ runs while the reaction is still an object without attributes (its own __setstate__ comes last), i.e. OUTSIDE the
stated precondition of the proved Model.__setstate__ contract (`the reactions that come with the state have valid bounds`).  Native
reproduction (/venv/bin/python against /repo):
    m = cobra.Model("m"); a = cobra.Metabolite("a_c", compartment="c")
    r = cobra.Reaction("R1", lower_bound=-10, upper_bound=10); r.add_metabolites({a: -1}); m.add_reactions([r])
    pickle.loads(pickle.dumps(r))        ->  AttributeError: 'Reaction' object has no attribute '_lower_bound'
                                             (model.py Model.__setstate__: reaction.update_variable_bounds())
    same for pickle.dumps([r]) and pickle.dumps((r, m)); pickle.dumps((m, r)), pickle.dumps(m), pickle.dumps(m.reactions), a detached
    reaction, copy.deepcopy(r) and r.copy() work.
The AttributeError comes from the loop the repair fdf97f9 added to Model.__setstate__; WITHOUT that loop (scratch copy of the source)
the load "succeeds" but the restored model's reactions DictList has indexed the half-built reaction under the identifier None
(`r2.model.reactions.R1` raises) - the defect is the protocol (the reaction's state reaches its model), older than that repair.
C11 / C12 speak about pickling MODELS (which works, and is what the lemmas cover); the documented purpose of Reaction.__getstate__
("This serializes the reaction object") is not met for a reaction in a model.

MUTATION TRIALS (tools/mutate_and_run.sh; every one fails):
  model.py     `odict["_contexts"] = self._contexts` -> Model.__getstate__ exit post.6 sat; `odict["_context"] = []` -> post sat;
               `self._tolerance = None` inserted (the ORIGINAL written) -> post.9 sat; `self._contexts.clear()` inserted -> undecided
               (list.clear unsupported), `self._contexts = []` inserted -> checker error (not discharged)
  object.py    `if "_model" not in state:` -> Object.__getstate__ post.5 / post.6 sat (cases with a model pointer)
  species.py   `state["_reaction"] = self._reaction` -> Species.__getstate__ post.5 sat
  reaction.py  __getstate__: `state["_gpr"] = self._gpr` -> post.5 sat; `state["_genes"] = set()` inserted -> post.7 sat
               __setstate__: first `x._reaction.add(self)` dropped -> loop#0/inv-preserve.1 unknown; `x._model = None` ->
               loop#0/inv-preserve.2 unknown; `state["_upper_bound"] = state.pop("lower_bound")` -> post sat (old_pickle:public_names);
               `if "_gpr" in state:` -> unexpected KeyError sat; second loop's add dropped -> loop#1/inv-preserve.1 unknown;
               `state["_gpr"] = state["name"]` -> post.3 / post.4 sat (old_pickle:private_rule_text); `state.pop("reaction")` -> `pass`
               -> post sat; `type(...) is not str` -> post unknown / undecided; genes loop `x._model = self` -> loop#1/inv-preserve.2 unknown
  lemmas       heap_clauses with `done` replaced by False -> both step lemmas sat
"""
import z3
from .common import *  # noqa
from . import c12_model_copy as MC
from pyvc import builtins as B
from pyvc.state import alloc_obj, alloc_list, alloc_set
from pyvc.values import ident_of

ATTRS = MC.ATTRS
KEY_MODEL_GET = "Model.__getstate__"
KEY_OBJECT_GET = "Object.__getstate__"
KEY_SPECIES_GET = "Species.__getstate__"
KEY_RXN_GET = "Reaction.__getstate__"
KEY_RXN_SET = "Reaction.__setstate__"
_MINE = (KEY_MODEL_GET, KEY_OBJECT_GET, KEY_SPECIES_GET, KEY_RXN_GET, KEY_RXN_SET)

rule_text = z3.Function("pk_rule_text", Ref, Id)          # str(g) of a rule object (GPR.__str__ = to_string())
parsed_from = z3.Function("pk_parsed_from", Ref, Id)      # the text a rule object was parsed from (GPR.from_string)


def _cur(eng):
    return getattr(getattr(eng, "cur_contract", None), "key", None)


def _b(c):
    return z3.BoolVal(c) if isinstance(c, bool) else c


# ---------------------------------------------------------------- hooks
def _attr_items(st, v):
    rec = st.objs[v.oid]
    return tuple((k[5:], x) for k, x in rec.items() if isinstance(k, str) and k.startswith("attr:"))


def call_method_hook(eng, st, recv, name, pos, kw):
    if _cur(eng) not in _MINE:
        return None
    if isinstance(recv, VFunc) and recv.kind == "objdict" and name == "copy" and not pos and not kw:
        # obj.__dict__.copy(): a NEW dictionary with the instance attributes, in order (a record: literal keys, any values)
        st2, o = alloc_obj(st, "dict", {"pure": True, "pyitems": _attr_items(st, recv.a)})
        return [("ok", st2, VObj(o.oid, "dict", "dict"))]
    if isinstance(recv, VObj) and recv.kind == "dict" and st.objs[recv.oid].get("pure") and name == "pop" and len(pos) == 1 \
            and not kw and isinstance(pos[0], VConc):
        items = st.objs[recv.oid]["pyitems"]
        d = dict(items)
        if pos[0].py not in d:
            return [eng.raise_(st, "KeyError")]
        if isinstance(d[pos[0].py], tuple):
            raise Unsupported("pop of a conditional record entry")
        return [("ok", st.updobj(recv.oid, pyitems=tuple((k, x) for k, x in items if k != pos[0].py)), d[pos[0].py])]
    return None


def str_hook(eng, st, v):
    if _cur(eng) in _MINE and isinstance(v, VRef) and v.cls == "GPR":
        from pyvc.apply import ASSUMED_USED
        ASSUMED_USED["GPR.__str__"] = REG.get("GPR.__str__").note
        return [("ok", st, VStr(rule_text(v.t)))]
    return None


HOOKS = chain_hooks({"call_method": call_method_hook, "str": str_hook}, MC.HOOKS)

REG.add(Contract("cobra/core/gene.py", "GPR.__str__", "C12", [("self", TRef("GPR"))], [Case("any")], assumed=True, key="GPR.__str__",
                 result="id", note="str(rule object) is the text GPR.to_string() prints (uninterpreted rule_text(g)); nothing is modified"))


# ---------------------------------------------------------------- the receivers: materialised objects with exactly ATTRS[cls]
_ATTR_T = {"_id": TStr, "name": TStr, "notes": lambda: TRef("dict"), "_annotation": lambda: TRef("dict"), "_model": lambda: TRef("Model"),
           "_reaction": lambda: TSet("ref:Reaction"), "formula": lambda: TRef("Any"), "compartment": TStr, "charge": lambda: TRef("Any"),
           "_bound": lambda: TRef("Any"), "_functional": TBool, "_members": lambda: TSet("ref:Object"), "_kind": lambda: TRef("Any"),
           "_gpr": lambda: TRef("GPR"), "subsystem": lambda: TRef("Any"), "_genes": lambda: TSet("ref:Gene"),
           "_metabolites": lambda: TDict("ref:Metabolite", "real"), "_lower_bound": TReal, "_upper_bound": TReal}


def _obj_t(cls, names=None, over=None):
    names = ATTRS[cls] if names is None else names
    t = {}
    for a in names:
        t[a] = (over or {}).get(a, _ATTR_T[a])()
    return TObj(cls, t)


def _same(E, w, v):
    """the entry w IS the attribute value v (python identity for objects, equality of terms for scalars)"""
    if isinstance(w, tuple):
        return z3.BoolVal(False)
    if isinstance(v, VObj) or isinstance(w, VObj):
        return z3.BoolVal(isinstance(v, VObj) and isinstance(w, VObj) and v.oid == w.oid)
    if isinstance(v, VNone) or isinstance(w, VNone):
        return z3.BoolVal(isinstance(v, VNone) and isinstance(w, VNone))
    return _b(E.eng.eq(E.s1, w, v))


def _new_record(E):
    res = E.res
    if not (isinstance(res, VObj) and res.kind == "dict" and res.oid not in E.s0.objs):
        return None
    try:
        st1 = B.to_record(E.s1, res)
    except Unsupported:
        return None
    return list(st1.objs[res.oid]["pyitems"])


def _getstate_post(special):
    """special: {name: fn(E, entry, attribute value) -> clause} for the entries that do NOT hold the attribute's value"""
    def post(E):
        items = _new_record(E)
        if items is None:
            return z3.BoolVal(False)
        rec0 = E.s0.objs[E["self"].oid]
        attrs = [(k[5:], v) for k, v in rec0.items() if isinstance(k, str) and k.startswith("attr:")]
        cs = [z3.BoolVal([k for k, _ in items] == [k for k, _ in attrs])]          # exactly the attribute names, in order
        if not z3.is_true(cs[0]):
            return cs[0]
        d = dict(items)
        for k, v in attrs:
            cs.append(special[k](E, d[k], v) if k in special else _same(E, d[k], v))
        # the receiver still holds every attribute (python-level identity; the containers' content: engine frame)
        rec1 = E.s1.objs[E["self"].oid]
        cs.append(z3.BoolVal(all(rec1.get("attr:" + k) is v for k, v in attrs) and
                             sum(1 for k in rec1 if isinstance(k, str) and k.startswith("attr:")) == len(attrs)))
        return z3.And(*cs)
    return post


def _new_empty(kind):
    def f(E, w, v):
        if not (isinstance(w, VObj) and w.kind == kind and w.oid not in E.s0.objs):
            return z3.BoolVal(False)
        r = E.s1.objs[w.oid]
        if r.get("lazy"):
            return z3.BoolVal(True)                    # a container display without elements
        if kind == "list":
            return r["len"] == 0
        k = qv("ne", r["dom"].sort().domain())
        return FA([k], z3.Not(z3.Select(r["dom"], k)), patterns=[z3.Select(r["dom"], k)])
    return f


def _is_none(E, w, v):
    return z3.BoolVal(isinstance(w, VNone))


# ---------------------------------------------------------------- Model.__getstate__
_MODEL_T = MC._model_t()
REG.add(Contract(MC.MM, "Model.__getstate__", "C12", [("self", _MODEL_T)],
                 [Case("any", ensures=_getstate_post({"_contexts": _new_empty("list")}))], key=KEY_MODEL_GET,
                 note="obj.__dict__ = record over the attribute names derived from the __init__ sources (ASSUMPTION: no other instance "
                      "attributes, see contracts/c12_model_copy.py)"))

# ---------------------------------------------------------------- Object.__getstate__
_og_cases = []
for _tag, _cls, _names in (("with_model_pointer:Group", "Group", None), ("with_model_pointer:Metabolite", "Metabolite", None),
                           ("with_model_pointer:Gene", "Gene", None),
                           ("without_model_pointer:Object", "Object", ("_id", "name", "notes", "_annotation"))):
    _c = Case(_tag, ensures=_getstate_post({"_model": _is_none}))
    _c.params_override = {"self": _obj_t(_cls, _names)}
    _c.applies = (lambda cls: lambda a, st: getattr(a["self"], "cls", None) == cls)(_cls)
    _og_cases.append(_c)


def _og_result(eng, st, E):
    """at a call site: the new record the proved cases describe"""
    v = E["self"]
    items = tuple((k, NONE if k == "_model" else x) for k, x in _attr_items(st, v))
    st2, o = alloc_obj(st, "dict", {"pure": True, "pyitems": items})
    return st2, VObj(o.oid, "dict", "dict")


REG.add(Contract("cobra/core/object.py", "Object.__getstate__", "C12", [("self", _obj_t("Group"))], _og_cases, key=KEY_OBJECT_GET,
                 result=_og_result))

# ---------------------------------------------------------------- Species.__getstate__
_sg_cases = []
for _cls in ("Metabolite", "Gene"):
    _c = Case(_cls, ensures=_getstate_post({"_model": _is_none, "_reaction": _new_empty("set")}))
    _c.params_override = {"self": _obj_t(_cls)}
    _c.applies = (lambda cls: lambda a, st: getattr(a["self"], "cls", None) == cls)(_cls)
    _sg_cases.append(_c)


def _sg_result(eng, st, E):
    """at a call site (contracts/c12_species_copy.py): the new record the proved cases describe - `_model` None, `_reaction` a NEW EMPTY set"""
    items = []
    for k, x in _attr_items(st, E["self"]):
        if k == "_reaction":
            st, x = alloc_set(st, "ref:Reaction", dom=z3.K(Ref, z3.BoolVal(False)))
        items.append((k, NONE if k == "_model" else x))
    st2, o = alloc_obj(st, "dict", {"pure": True, "pyitems": tuple(items)})
    return st2, VObj(o.oid, "dict", "dict")


REG.add(Contract("cobra/core/species.py", "Species.__getstate__", "C12", [("self", _obj_t("Metabolite"))], _sg_cases, key=KEY_SPECIES_GET,
                 result=_sg_result))


# ---------------------------------------------------------------- Reaction.__getstate__
def _is_rule_text(E, w, v):
    return _b(E.eng.eq(E.s1, w, VStr(rule_text(v.t)))) if isinstance(w, (VStr, VConc)) else z3.BoolVal(False)


REG.add(Contract("cobra/core/reaction.py", "Reaction.__getstate__", "C12", [("self", _obj_t("Reaction"))],
                 [Case("any", ensures=_getstate_post({"_gpr": _is_rule_text}))], key=KEY_RXN_GET))

KEYS = [KEY_MODEL_GET, KEY_OBJECT_GET, KEY_SPECIES_GET, KEY_RXN_GET]
ASSUMED_KEYS = ["GPR.__str__"]


# ================================================================ Reaction.__setstate__
def calls(st):
    return st.ghost.get("pk_calls", ())


def global_hook(eng, name):
    if _cur(eng) == KEY_RXN_SET and name == "GPR":
        return VFunc("abstract", "pk:GPR")
    return None


def getattr_hook(eng, st, v, name):
    if _cur(eng) == KEY_RXN_SET and isinstance(v, VFunc) and v.kind == "abstract" and v.a == "pk:GPR" and name == "from_string":
        return [("ok", st, VFunc("abstract", "pk:GPR.from_string"))]
    return None


def call_abstract_hook(eng, st, f, pos, kw):
    if f.a == "pk:GPR.from_string":
        if kw or len(pos) != 1 or not isinstance(pos[0], (VStr, VConc)):
            raise Unsupported("GPR.from_string with something else than one string")
        from pyvc.apply import ASSUMED_USED
        ASSUMED_USED["GPR.from_string"] = REG.get("GPR.from_string").note
        g = fresh("parsed_rule", Ref)
        st = st.assume(g != NULL, parsed_from(g) == unwrap(pos[0], "id"))
        return [("ok", st.setghost("pk_calls", calls(st) + (("GPR.from_string", pos[0], g),)), VRef(g, "GPR"))]
    return None


REG.add(Contract("cobra/core/gene.py", "GPR.from_string", "C12", [("string_gpr", TStr())], [Case("any")], assumed=True, key="GPR.from_string",
                 note="recorded abstract call: GPR.from_string(text) returns a rule object g (not None) with parsed_from(g) == text and "
                      "modifies no existing object; that it parses what to_string printed back to an equivalent rule is the bounded text "
                      "round trip (C08 / C11 driver), not claimed here"))

HOOKS = chain_hooks({"call_method": call_method_hook, "str": str_hook, "global": global_hook, "getattr": getattr_hook,
                     "call_abstract": call_abstract_hook}, MC.HOOKS)

_RENAMED = {"gene_reaction_rule": "_gene_reaction_rule", "lower_bound": "_lower_bound", "upper_bound": "_upper_bound"}
_SHAPES = {
    # the state Reaction.__getstate__ writes: the rule as text
    "as_written:rule_text": tuple((a, TStr if a == "_gpr" else _ATTR_T[a]) for a in ATTRS["Reaction"]),
    # a state that carries the rule OBJECT (e.g. an intermediate cobrapy version): kept
    "rule_object": tuple((a, _ATTR_T[a]) for a in ATTRS["Reaction"]),
    # an old pickle: attributes that have since been superseded by properties
    "old_pickle:public_names": tuple((a, _ATTR_T[a]) for a in ATTRS["Reaction"] if a not in ("_gpr", "_lower_bound", "_upper_bound"))
                               + (("reaction", TStr), ("gene_reaction_rule", TStr), ("lower_bound", TReal), ("upper_bound", TReal)),
    # an old pickle with the private rule text and without a rule object
    "old_pickle:private_rule_text": tuple((a, _ATTR_T[a]) for a in ATTRS["Reaction"] if a != "_gpr") + (("_gene_reaction_rule", TStr),),
}


def _state_t(shape):
    def mk(st, name):
        items = []
        for a, t in _SHAPES[shape]:
            st, v = t().make(st, f"{name}_{a}")
            items.append((a, v))
        st, o = alloc_obj(st, "dict", {"pure": True, "pyitems": tuple(items)})
        return st, VObj(o.oid, "dict", "dict")
    return mk


def _st_items(E):
    return dict(E.s0.objs[E["state"].oid]["pyitems"])


def _me(E):
    return ident_of(E["self"].oid)


def _rs_maps(E, st):
    it = _st_items(E)
    dm = E.s0.objs[it["_metabolites"].oid]["dom"]
    dg = E.s0.objs[it["_genes"].oid]["dom"]
    mdl = it["_model"].t
    return dm, dg, mdl


def heap_clauses(RX0, RX, MO0, MO, me, mdl, done):
    """what Reaction.__setstate__ does to `_reaction` / `_model` of every object x: the members handled (`done(x)`) list the
    receiver `me` in addition to what they listed before and point at the receiver's model `mdl`; everything else is as found"""
    x = qv("px", Ref)
    return [FA([x], RX[x] == z3.If(done(x), z3.Store(RX0[x], me, z3.BoolVal(True)), RX0[x]), patterns=[RX[x]]),
            FA([x], MO[x] == z3.If(done(x), mdl, MO0[x]), patterns=[MO[x]])]


def _rs_heap(E, st, done_m, done_g):
    _, _, mdl = _rs_maps(E, st)
    return heap_clauses(E.eng.heap_arr(E.s0, "_reaction"), E.eng.heap_arr(st, "_reaction"), E.eng.heap_arr(E.s0, "_model"),
                        E.eng.heap_arr(st, "_model"), _me(E), mdl, lambda x: z3.Or(done_m(x), done_g(x)))


def _rs_inv_mets(E, Lc):
    dm, dg, _ = _rs_maps(E, Lc.st)
    pos = Lc.seq.src[2]
    return z3.And(*_rs_heap(E, Lc.st, lambda x: z3.And(z3.Select(dm, x), pos[x] < Lc.i), lambda x: z3.BoolVal(False)))


def _rs_inv_genes(E, Lc):
    dm, dg, _ = _rs_maps(E, Lc.st)
    pos = Lc.seq.src[2]
    return z3.And(*_rs_heap(E, Lc.st, lambda x: z3.Select(dm, x), lambda x: z3.And(z3.Select(dg, x), pos[x] < Lc.i)))


def _rs_post(E):
    it0 = E.s0.objs[E["state"].oid]["pyitems"]
    d0 = dict(it0)
    rec1 = E.s1.objs[E["self"].oid]
    got = {k[5:]: v for k, v in rec1.items() if isinstance(k, str) and k.startswith("attr:")}
    want = {}
    for k, v in it0:
        if k == "reaction":
            continue
        want[_RENAMED.get(k, k)] = v
    cs = []
    tr = calls(E.s1)
    # ---- the rule
    g1 = got.get("_gpr")
    if "_gpr" in d0 and isinstance(d0["_gpr"], VRef):
        cs.append(z3.BoolVal(tr == ()))
        want["_gpr"] = d0["_gpr"]
    else:
        text = d0["_gpr"] if "_gpr" in d0 else want.get("_gene_reaction_rule")
        ok = len(tr) == 1 and tr[0][0] == "GPR.from_string" and isinstance(g1, VRef) and g1.cls == "GPR" and text is not None
        cs.append(z3.BoolVal(bool(ok)))
        if not ok:
            return z3.BoolVal(False)
        cs += [g1.t == tr[0][2], g1.t != NULL, parsed_from(g1.t) == unwrap(text, "id"), _b(E.eng.eq(E.s1, tr[0][1], text))]
        want["_gpr"] = g1
    # ---- the attributes: the entries of the state under their modern names, nothing else
    cs.append(z3.BoolVal(set(got) == set(want)))
    if set(got) != set(want):
        return z3.BoolVal(False)
    for k, v in want.items():
        cs.append(z3.BoolVal(got[k] is v) if isinstance(v, (VObj, VNone)) or isinstance(got[k], (VObj, VNone)) else _b(E.eng.eq(E.s1, got[k], v)))
    # ---- the back references
    dm, dg, _ = _rs_maps(E, E.s1)
    cs += _rs_heap(E, E.s1, lambda x: z3.Select(dm, x), lambda x: z3.Select(dg, x))
    # the stoichiometry dictionary and the gene set themselves are as found
    for k in ("_metabolites", "_genes"):
        r0, r1 = E.s0.objs[d0[k].oid], E.s1.objs[d0[k].oid]
        cs.append(z3.BoolVal(all(r0.get(f) is r1.get(f) for f in ("dom", "val") if f in r0)))
    return z3.And(*cs)


_rs_cases = []
for _shape in _SHAPES:
    _c = Case(_shape, ensures=_rs_post)
    _c.params_override = {"state": TCustom(_state_t(_shape))}
    _rs_cases.append(_c)

_RS_HEAP = lambda E, Lc: [("heap", "_reaction"), ("heap", "_model")]  # noqa
REG.add(Contract("cobra/core/reaction.py", "Reaction.__setstate__", "C12", [("self", TObj("Reaction", {})), ("state", TRef("dict"))], _rs_cases,
                 key=KEY_RXN_SET,
                 modifies=lambda E: [("heap", "_reaction"), ("heap", "_model"), ("obj", E["self"]), ("obj", E["state"]),
                                     ("ghost", "pk_calls", lambda st: ())],
                 loops={0: LoopSpec(_rs_inv_mets, _RS_HEAP), 1: LoopSpec(_rs_inv_genes, _RS_HEAP)},
                 note="the receiver is a new object without attributes (cls.__new__), the state a record over the attribute names; "
                      "`_model` of the state may be None (NULL) or a model"))

KEYS = [KEY_MODEL_GET, KEY_OBJECT_GET, KEY_SPECIES_GET, KEY_RXN_GET, KEY_RXN_SET]
ASSUMED_KEYS = ["GPR.__str__", "GPR.from_string"]


# ================================================================ glue lemmas: __getstate__, structural copy, __setstate__
def lemmas():
    """What the two ends give TOGETHER, relative to the assumed codec (pickle / deepcopy copy the state dictionaries structurally,
    call every restored object's __setstate__ / __dict__.update exactly once, and restore the keys of a reaction's stoichiometry
    and its genes BEFORE the reaction's own __setstate__ runs - possible because, by the proved __getstate__ contracts, a species'
    state holds no reference back to a reaction or to the model: this is WHY `_reaction` / `_model` are dropped):

      rule-text: the `_gpr` entry Reaction.__getstate__ writes is rule_text(g) (its post-condition); a string is copied to an equal
        string; Reaction.__setstate__ (case as_written:rule_text) leaves a rule object g2 with parsed_from(g2) == that entry; hence
        parsed_from(g2) == rule_text(g): the restored rule is GPR.from_string(str(original rule)) - nothing else touches it.
      cross-references (the C02 invariant on the species side), by induction over the restored reactions r_0 .. r_(n-1) (pairwise
        different objects: ghost index idx / rx):  INV(k):  for every object x and y:  y in x._reaction  <=>  y is r_j for some
        j < k and x is a key of r_j's stoichiometry or one of its genes.
          base: a restored species starts from the EMPTY set Species.__getstate__ wrote (its post-condition) -> INV(0);
          step: INV(k) and the post-condition of Reaction.__setstate__ for r_k (heap_clauses, the very builder of the contract)
                give INV(k + 1).
        With INV(n) and Model.__setstate__'s proved `every member of the four lists points at the restored model`
        (contracts/misc_small.py) the restored model satisfies: x._reaction = {restored reactions that use x}, member._model = model."""
    from pyvc.engine import Obl
    from .c11_reader import _check_hyps
    out = []
    # ---- rule text
    g, g2 = z3.Const("lk_rule", Ref), z3.Const("lk_rule_restored", Ref)
    written, copied = z3.Const("lk_written_entry", Id), z3.Const("lk_copied_entry", Id)
    hyps = [written == rule_text(g), copied == written, g2 != NULL, parsed_from(g2) == copied]
    _check_hyps("C12/lemma/pickle/rule-text", hyps)
    out.append(Obl("C12/lemma/pickle/restored-rule-is-parsed-from-the-text-of-the-original-rule", hyps,
                   z3.And(g2 != NULL, parsed_from(g2) == rule_text(g)), "lemma"))
    # ---- cross references: induction over the restored reactions
    SetMap = z3.ArraySort(Ref, z3.ArraySort(Ref, z3.BoolSort()))
    RXk, RXk1 = z3.Const("lk_reaction_sets_before", SetMap), z3.Const("lk_reaction_sets_after", SetMap)
    MOk, MOk1 = z3.Const("lk_model_before", z3.ArraySort(Ref, Ref)), z3.Const("lk_model_after", z3.ArraySort(Ref, Ref))
    idx = z3.Function("lk_index_of_restored_reaction", Ref, z3.IntSort())
    rx = z3.Function("lk_restored_reaction", z3.IntSort(), Ref)
    uses = z3.Function("lk_uses", z3.IntSort(), Ref, z3.BoolSort())        # x is a key / a gene of the j-th restored reaction
    k, mdl = z3.Int("lk_k"), z3.Const("lk_model", Ref)
    x, y = z3.Const("lk_x", Ref), z3.Const("lk_y", Ref)

    def inv(RX, upto, xx, yy):
        return RX[xx][yy] == z3.And(0 <= idx(yy), idx(yy) < upto, rx(idx(yy)) == yy, uses(idx(yy), xx))
    qx, qy = qv("lx", Ref), qv("ly", Ref)
    empty = FA([qx], RXk[qx] == z3.K(Ref, z3.BoolVal(False)), patterns=[RXk[qx]])
    hyps0 = [empty]
    _check_hyps("C12/lemma/pickle/xref-base", hyps0)
    out.append(Obl("C12/lemma/pickle/cross-references/base-restored-species-start-from-the-empty-set", hyps0, inv(RXk, 0, x, y), "lemma"))
    hyps = [k >= 0, idx(rx(k)) == k,
            FA([qx, qy], inv(RXk, k, qx, qy), patterns=[z3.Select(z3.Select(RXk, qx), qy)])] + \
        heap_clauses(RXk, RXk1, MOk, MOk1, rx(k), mdl, lambda v: uses(k, v))
    _check_hyps("C12/lemma/pickle/xref-step", hyps)
    out.append(Obl("C12/lemma/pickle/cross-references/step-restoring-one-more-reaction", hyps, inv(RXk1, k + 1, x, y), "lemma"))
    out.append(Obl("C12/lemma/pickle/cross-references/step-members-point-at-the-reaction's-model", hyps,
                   z3.Implies(uses(k, x), MOk1[x] == mdl), "lemma"))
    return out
