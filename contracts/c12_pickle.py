"""C11 / C12 - the pickle / deepcopy PROTOCOL methods of the core classes, proved over their real sources:

    Model.__getstate__          cobra/core/model.py
    Object.__getstate__         cobra/core/object.py     (inherited by Group, and by everything that does not override it)
    Species.__getstate__        cobra/core/species.py    (Metabolite, Gene)
    Reaction.__getstate__       cobra/core/reaction.py
    Reaction.__setstate__       cobra/core/reaction.py

pickle / copy.deepcopy call `x.__getstate__()`, copy the dictionary it returns STRUCTURALLY (assumed: the codec) and hand the copy to
`y.__setstate__(state)` of a new object (or update `y.__dict__` with it when the class has no `__setstate__`).  What is proved here is
what the two ends do, with `obj.__dict__` given the meaning RECORD over the attributes of the (materialised) receiver - the attribute
names are the ones contracts/c12_model_copy.py derives mechanically from the `self.<name> = ...` assignments of the __init__ methods
(ATTRS; ASSUMPTION as there: instances have no other attributes).

PROVED
  Model.__getstate__ (1 path): the value returned is a NEW dictionary (not an object that existed at entry, in particular not
      `self.__dict__` itself) with exactly the model's attribute names, in order; every entry but `_contexts` holds the very object /
      value the attribute holds; `_contexts` holds a NEW EMPTY list (not the model's context stack).  Frame (engine): NOTHING is
      modified - the model still holds every attribute, its own context stack is NOT emptied (it is the same list object with the same
      content), no heap field changes.
  Object.__getstate__ (cases: an object with a `_model` attribute - Group, Metabolite, Gene - and one without - a bare Object): a NEW
      dictionary with exactly the attribute names; `_model` holds None when the attribute exists (and no `_model` entry appears
      when it does not); every other entry holds the attribute's value; nothing is modified (the object still points at its model).
  Species.__getstate__ (Metabolite and Gene attribute lists): as Object.__getstate__ (applied BY ITS CONTRACT at the call site) and
      in addition `_reaction` holds a NEW EMPTY set - not the species' own set, which is untouched (frame).
      WHY the restored model is consistent although `_model` and `_reaction` are dropped: `_model` of every member of the four lists
      is re-pointed by Model.__setstate__ (proved in contracts/misc_small.py: `members point here`), `_reaction` is refilled by
      Reaction.__setstate__ (below) for every reaction that is restored.
  Reaction.__getstate__ (1 path): a NEW dictionary with exactly the reaction's attribute names; `_gpr` holds the TEXT of the rule
      (`str(self._gpr)`: the term rule_text(g), GPR.__str__ assumed to return to_string()); every other entry - `_model`,
      `_metabolites`, `_genes` INCLUDED: the reaction keeps its model pointer and its members, this is how the graph is traversed -
      holds the attribute's value; nothing is modified (the reaction keeps its rule OBJECT).
  Reaction.__setstate__ (cases: a state as written by __getstate__ with the rule as text; the same with a rule OBJECT; an OLD pickle
      with the keys `reaction`, `gene_reaction_rule`, `lower_bound`, `upper_bound` and without `_gpr` / `_lower_bound` /
      `_upper_bound` / `_gene_reaction_rule`; an old pickle that has `_gene_reaction_rule` only; each with a model pointer that is
      None or a model): on return
        - the attributes of the receiver are the entries of the state under their MODERN names (`lower_bound` -> `_lower_bound`,
          `upper_bound` -> `_upper_bound`, `gene_reaction_rule` -> `_gene_reaction_rule`, `reaction` dropped);
        - `_gpr` is a rule OBJECT: the state's object when one was given, else GPR.from_string(text) for the text given under
          `_gpr` resp. the legacy rule text (exactly one call, recorded; parsed_from(g) == text);
        - every key x of the stoichiometry and every gene x: the receiver IS in `x._reaction` afterwards and x._model is the
          receiver's `_model`; everything that was in `x._reaction` is still there; for every other object `_reaction` and `_model`
          are as found (two loop invariants over the dictionary keys / the gene set in any enumeration order).
  lemmas(): getstate o (structural copy) o setstate at the record level - see lemmas().

ASSUMED (trusted): GPR.__str__ returns the text to_string() prints (rule_text, uninterpreted); GPR.from_string(text) returns a NEW
rule object g with parsed_from(g) == text and writes nothing else (that from_string parses what to_string printed back to an
equivalent rule is the bounded text round trip of C08 / C11, not claimed here); the pickle / deepcopy codec (structural copy, memo).

MUTATION TRIALS (tools/mutate_and_run.sh; every one fails) - see the end of this docstring, filled in by the trials that were run.
"""
import z3
from .common import *  # noqa
from . import c12_model_copy as MC
from pyvc import builtins as B
from pyvc.state import alloc_obj, alloc_list, alloc_set
from pyvc.values import ident_of

ATTRS = MC.ATTRS
KEY_MODEL_GET = "Model.__getstate__"
KEY_OBJECT_GET = "Object.__getstate__"
KEY_SPECIES_GET = "Species.__getstate__"
KEY_RXN_GET = "Reaction.__getstate__"
KEY_RXN_SET = "Reaction.__setstate__"
_MINE = (KEY_MODEL_GET, KEY_OBJECT_GET, KEY_SPECIES_GET, KEY_RXN_GET, KEY_RXN_SET)

rule_text = z3.Function("pk_rule_text", Ref, Id)          # str(g) of a rule object (GPR.__str__ = to_string())
parsed_from = z3.Function("pk_parsed_from", Ref, Id)      # the text a rule object was parsed from (GPR.from_string)


def _cur(eng):
    return getattr(getattr(eng, "cur_contract", None), "key", None)


def _b(c):
    return z3.BoolVal(c) if isinstance(c, bool) else c


# ---------------------------------------------------------------- hooks
def _attr_items(st, v):
    rec = st.objs[v.oid]
    return tuple((k[5:], x) for k, x in rec.items() if isinstance(k, str) and k.startswith("attr:"))


def call_method_hook(eng, st, recv, name, pos, kw):
    if _cur(eng) not in _MINE:
        return None
    if isinstance(recv, VFunc) and recv.kind == "objdict" and name == "copy" and not pos and not kw:
        # obj.__dict__.copy(): a NEW dictionary with the instance attributes, in order (a record: literal keys, any values)
        st2, o = alloc_obj(st, "dict", {"pure": True, "pyitems": _attr_items(st, recv.a)})
        return [("ok", st2, VObj(o.oid, "dict", "dict"))]
    if isinstance(recv, VObj) and recv.kind == "dict" and st.objs[recv.oid].get("pure") and name == "pop" and len(pos) == 1 \
            and not kw and isinstance(pos[0], VConc):
        items = st.objs[recv.oid]["pyitems"]
        d = dict(items)
        if pos[0].py not in d:
            return [eng.raise_(st, "KeyError")]
        if isinstance(d[pos[0].py], tuple):
            raise Unsupported("pop of a conditional record entry")
        return [("ok", st.updobj(recv.oid, pyitems=tuple((k, x) for k, x in items if k != pos[0].py)), d[pos[0].py])]
    return None


def str_hook(eng, st, v):
    if _cur(eng) in _MINE and isinstance(v, VRef) and v.cls == "GPR":
        from pyvc.apply import ASSUMED_USED
        ASSUMED_USED["GPR.__str__"] = REG.get("GPR.__str__").note
        return [("ok", st, VStr(rule_text(v.t)))]
    return None


HOOKS = chain_hooks({"call_method": call_method_hook, "str": str_hook}, MC.HOOKS)

REG.add(Contract("cobra/core/gene.py", "GPR.__str__", "C12", [("self", TRef("GPR"))], [Case("any")], assumed=True, key="GPR.__str__",
                 result="id", note="str(rule object) is the text GPR.to_string() prints (uninterpreted rule_text(g)); nothing is modified"))


# ---------------------------------------------------------------- the receivers: materialised objects with exactly ATTRS[cls]
_ATTR_T = {"_id": TStr, "name": TStr, "notes": lambda: TRef("dict"), "_annotation": lambda: TRef("dict"), "_model": lambda: TRef("Model"),
           "_reaction": lambda: TSet("ref:Reaction"), "formula": lambda: TRef("Any"), "compartment": TStr, "charge": lambda: TRef("Any"),
           "_bound": lambda: TRef("Any"), "_functional": TBool, "_members": lambda: TSet("ref:Object"), "_kind": lambda: TRef("Any"),
           "_gpr": lambda: TRef("GPR"), "subsystem": lambda: TRef("Any"), "_genes": lambda: TSet("ref:Gene"),
           "_metabolites": lambda: TDict("ref:Metabolite", "real"), "_lower_bound": TReal, "_upper_bound": TReal}


def _obj_t(cls, names=None, over=None):
    names = ATTRS[cls] if names is None else names
    t = {}
    for a in names:
        t[a] = (over or {}).get(a, _ATTR_T[a])()
    return TObj(cls, t)


def _same(E, w, v):
    """the entry w IS the attribute value v (python identity for objects, equality of terms for scalars)"""
    if isinstance(w, tuple):
        return z3.BoolVal(False)
    if isinstance(v, VObj) or isinstance(w, VObj):
        return z3.BoolVal(isinstance(v, VObj) and isinstance(w, VObj) and v.oid == w.oid)
    if isinstance(v, VNone) or isinstance(w, VNone):
        return z3.BoolVal(isinstance(v, VNone) and isinstance(w, VNone))
    return _b(E.eng.eq(E.s1, w, v))


def _new_record(E):
    res = E.res
    if not (isinstance(res, VObj) and res.kind == "dict" and res.oid not in E.s0.objs):
        return None
    try:
        st1 = B.to_record(E.s1, res)
    except Unsupported:
        return None
    return list(st1.objs[res.oid]["pyitems"])


def _getstate_post(special):
    """special: {name: fn(E, entry, attribute value) -> clause} for the entries that do NOT hold the attribute's value"""
    def post(E):
        items = _new_record(E)
        if items is None:
            return z3.BoolVal(False)
        rec0 = E.s0.objs[E["self"].oid]
        attrs = [(k[5:], v) for k, v in rec0.items() if isinstance(k, str) and k.startswith("attr:")]
        cs = [z3.BoolVal([k for k, _ in items] == [k for k, _ in attrs])]          # exactly the attribute names, in order
        if not z3.is_true(cs[0]):
            return cs[0]
        d = dict(items)
        for k, v in attrs:
            cs.append(special[k](E, d[k], v) if k in special else _same(E, d[k], v))
        # the receiver still holds every attribute (python-level identity; the containers' content: engine frame)
        rec1 = E.s1.objs[E["self"].oid]
        cs.append(z3.BoolVal(all(rec1.get("attr:" + k) is v for k, v in attrs) and
                             sum(1 for k in rec1 if isinstance(k, str) and k.startswith("attr:")) == len(attrs)))
        return z3.And(*cs)
    return post


def _new_empty(kind):
    def f(E, w, v):
        if not (isinstance(w, VObj) and w.kind == kind and w.oid not in E.s0.objs):
            return z3.BoolVal(False)
        r = E.s1.objs[w.oid]
        if r.get("lazy"):
            return z3.BoolVal(True)                    # a container display without elements
        if kind == "list":
            return r["len"] == 0
        k = qv("ne", r["dom"].sort().domain())
        return FA([k], z3.Not(z3.Select(r["dom"], k)), patterns=[z3.Select(r["dom"], k)])
    return f


def _is_none(E, w, v):
    return z3.BoolVal(isinstance(w, VNone))


# ---------------------------------------------------------------- Model.__getstate__
_MODEL_T = MC._model_t()
REG.add(Contract(MC.MM, "Model.__getstate__", "C12", [("self", _MODEL_T)],
                 [Case("any", ensures=_getstate_post({"_contexts": _new_empty("list")}))], key=KEY_MODEL_GET,
                 note="obj.__dict__ = record over the attribute names derived from the __init__ sources (ASSUMPTION: no other instance "
                      "attributes, see contracts/c12_model_copy.py)"))

# ---------------------------------------------------------------- Object.__getstate__
_og_cases = []
for _tag, _cls, _names in (("with_model_pointer:Group", "Group", None), ("with_model_pointer:Metabolite", "Metabolite", None),
                           ("with_model_pointer:Gene", "Gene", None),
                           ("without_model_pointer:Object", "Object", ("_id", "name", "notes", "_annotation"))):
    _c = Case(_tag, ensures=_getstate_post({"_model": _is_none}))
    _c.params_override = {"self": _obj_t(_cls, _names)}
    _c.applies = (lambda cls: lambda a, st: getattr(a["self"], "cls", None) == cls)(_cls)
    _og_cases.append(_c)


def _og_result(eng, st, E):
    """at a call site: the new record the proved cases describe"""
    v = E["self"]
    items = tuple((k, NONE if k == "_model" else x) for k, x in _attr_items(st, v))
    st2, o = alloc_obj(st, "dict", {"pure": True, "pyitems": items})
    return st2, VObj(o.oid, "dict", "dict")


REG.add(Contract("cobra/core/object.py", "Object.__getstate__", "C12", [("self", _obj_t("Group"))], _og_cases, key=KEY_OBJECT_GET,
                 result=_og_result))

# ---------------------------------------------------------------- Species.__getstate__
_sg_cases = []
for _cls in ("Metabolite", "Gene"):
    _c = Case(_cls, ensures=_getstate_post({"_model": _is_none, "_reaction": _new_empty("set")}))
    _c.params_override = {"self": _obj_t(_cls)}
    _sg_cases.append(_c)
REG.add(Contract("cobra/core/species.py", "Species.__getstate__", "C12", [("self", _obj_t("Metabolite"))], _sg_cases, key=KEY_SPECIES_GET))


# ---------------------------------------------------------------- Reaction.__getstate__
def _is_rule_text(E, w, v):
    return _b(E.eng.eq(E.s1, w, VStr(rule_text(v.t)))) if isinstance(w, (VStr, VConc)) else z3.BoolVal(False)


REG.add(Contract("cobra/core/reaction.py", "Reaction.__getstate__", "C12", [("self", _obj_t("Reaction"))],
                 [Case("any", ensures=_getstate_post({"_gpr": _is_rule_text}))], key=KEY_RXN_GET))

KEYS = [KEY_MODEL_GET, KEY_OBJECT_GET, KEY_SPECIES_GET, KEY_RXN_GET]
ASSUMED_KEYS = ["GPR.__str__"]
