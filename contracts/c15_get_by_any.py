"""C15 / C07 — DictList.get_by_any against its real body (key "DictList.get_by_any:body", hook table HOOKS).

The callers (knock_out_model_genes, find_blocked_reactions, flux_variability_analysis, Model.objective setter, ...) use the ABSTRACT
assumed contract "DictList.get_by_any" of contracts/c07_knockout.py: "a NEW list of (non-None) MEMBERS of the list, one per item;
may raise".  This module proves what the real body does, per shape of the argument (documentation: "list where each element is
either int (referring to an index in this DictList), string (an id of a member in this DictList) or member of this DictList for
pass-through; if not a list, turned into a single element list"), for a well-formed DictList of any size:

  single int i          in range [-n, n): the NEW one-element list [self[i]] (python indexing), else IndexError
  single str s          s in the index: the NEW list [the member registered under s], else KeyError
  single object x       the identifier of x is in the index: the NEW list [x]; else TypeError
  list of ints / strs / objects (any length), STATED PRECONDITION every item acceptable as above: the NEW list of the same length
                        whose j-th element is the j-th item's look-up.  (A list with an unacceptable item raises that item's
                        exception; NOT proved for lists: the engine does not evaluate a comprehension whose element may raise at a
                        symbolic index - for a single item, which the body wraps into a one-element list, it is proved.)
  nothing is written on any path (frame: list, index, heap).

FINDING (the abstract contract is NOT implied for object items): `item in self` compares IDENTIFIERS (DictList.__contains__), so an
object that is not a member but carries the id of a member is passed through: the result then holds a NON-member.  Native
reproduction: dl = DictList([Object("a")]); f = Object("a"); dl.get_by_any([f])[0] is f and f is not dl[0];
consequence: m2 = m.copy(); knock_out_model_genes(m, [m2.genes[0]]) switches off the gene OF THE COPY and leaves m untouched
(m.genes[0].functional stays True).  The clause "the result is a member" is therefore proved only under the STATED extra hypothesis
`the object is the member registered under its id` (case tags `*_member*`); without it the proved post-condition is "the item itself,
whose id is in the index".
The lemma `lemmas()` checks, per shape, that the proved post-condition implies the abstract one (element j is a non-None member at
some position) - for object items under that hypothesis.

ASSUMED: nothing of cobrapy's.  The look-ups inside the nested function get_item (`self[item]`, `self.get_by_id(item)`,
`item in self`) are replaced, in the hook table, by the TERMS their PROVED contracts (contracts/c15_dictlist.py: __getitem__,
get_by_id, __contains__) pin the result down to (so that they can appear under the comprehension's quantifier).

Mutation trials (tools/mutate_and_run.sh cobra/core/dictlist.py ... contracts.c15_get_by_any --hooks HOOKS DictList.get_by_any:body), each
NOT verified:
  `return self.get_by_id(item)` -> `return self[0]`             list_of_str_all_found post.2/.3, single_str_found post.2/.5, single_str_not_found
  `elif item in self:` -> `elif True:`                          single_obj_not_found expected-TypeError
  `iterable = [iterable]` -> `iterable = []`                     the three single_*_not_found cases (expected exception) 
  `return self[item]` -> `return self[item + 1]`                 single_int_found post.2/.5 + unexpected IndexError, single_int_not_found
  `raise TypeError(` -> `raise KeyError(`                        single_obj_not_found expected-TypeError
  `[get_item(item) for ...]` -> `[get_item(iterable[0]) for ...]`   all four list cases post.2 (sat) / post.3
"""
import z3
from .common import *  # noqa
from . import c15_dictlist as C15
from pyvc.values import VFunc, Unsupported, unwrap

M = "cobra/core/dictlist.py"
SELF = ("self", TDictList("Object"))


# ---------------------------------------------------------------- hooks: the proved look-up contracts as terms
def _is_self(eng, recv):
    a = getattr(eng, "entry_args", None) or {}
    return isinstance(recv, VObj) and isinstance(a.get("self"), VObj) and recv.oid == a["self"].oid


def _call_method(eng, st, recv, name, pos, kw):
    if not _is_self(eng, recv) or kw or len(pos) != 1:
        return None
    n, e = L(st, recv)
    dom, val = Dv(st, recv)
    x = pos[0]
    if name == "__getitem__" and isinstance(x, VInt):
        # DictList.__getitem__ (proved): python indexing, IndexError out of range
        outs = []
        for ok, s2 in eng.branch(st, z3.And(-n <= x.t, x.t < n)):
            outs.append(("ok", s2, VRef(e[norm(x.t, n)], "Object")) if ok else eng.raise_(s2, "IndexError"))
        return outs
    if name == "get_by_id" and (isinstance(x, VStr) or (isinstance(x, VConc) and isinstance(x.py, str))):
        # DictList.get_by_id (proved): the member registered under the id, KeyError if none
        k = unwrap(x, "id")
        outs = []
        for ok, s2 in eng.branch(st, z3.Select(dom, k)):
            outs.append(("ok", s2, VRef(e[val[k]], "Object")) if ok else eng.raise_(s2, "KeyError"))
        return outs
    if name == "__contains__" and isinstance(x, VRef):
        # DictList.__contains__ (proved): by identifier
        return [("ok", st, VBool(z3.Select(dom, eng.heap_arr(st, "_id")[x.t])))]
    return None


HOOKS = {"call_method": _call_method}


# ---------------------------------------------------------------- specification
def _n_e(E):
    return L(E.s0, E["self"])


def _int_ok(E, t):
    n, _ = _n_e(E)
    return z3.And(-n <= t, t < n)


def _int_val(E, t):
    n, e = _n_e(E)
    return e[norm(t, n)]


def _str_ok(E, k):
    return z3.Select(Dv(E.s0, E["self"])[0], k)


def _str_val(E, k):
    _, e = _n_e(E)
    return e[Dv(E.s0, E["self"])[1][k]]


def _obj_ok(E, x):
    return z3.Select(Dv(E.s0, E["self"])[0], idarr(E, E.s0)[x])


def _obj_member(E, x):
    """x IS the member registered under its id"""
    return z3.And(_obj_ok(E, x), _str_val(E, idarr(E, E.s0)[x]) == x)


class TListInt(TList):
    pass


class TListStr(TList):
    pass


class TListObj(TList):
    pass


LIST_T = {"int": lambda: TListInt("int"), "str": lambda: TListStr("id"), "obj": lambda: TListObj("ref:Object")}
SHAPES = {"int": (TInt, "int", lambda E, v: _int_ok(E, v), lambda E, v: _int_val(E, v), "IndexError"),
          "str": (TStr, "id", lambda E, v: _str_ok(E, v), lambda E, v: _str_val(E, v), "KeyError"),
          "obj": (lambda: TRef("Object"), "ref:Object", lambda E, v: _obj_ok(E, v), lambda E, v: v, "TypeError")}


def _new_list(E):
    r = E.res
    if not (isinstance(r, VObj) and r.kind == "list") or r.oid in E.s0.objs:
        return None
    rec = E.s1.objs[r.oid]
    return rec["len"], rec["elem"]


def _single_post(shape, member=False):
    _, kind, ok, val, _ = SHAPES[shape]

    def post(E):
        le = _new_list(E)
        if le is None:
            return z3.BoolVal(False)
        m, el = le
        v = unwrap(E["iterable"], kind)
        cs = [m == 1, z3.Select(el, 0) == val(E, v), unchanged_dl(E, E["self"])]
        if shape != "obj" or member:
            n, e = _n_e(E)
            pos = norm(v, n) if shape == "int" else Dv(E.s0, E["self"])[1][v if shape == "str" else idarr(E, E.s0)[v]]
            cs += [0 <= pos, pos < n, e[pos] == z3.Select(el, 0), z3.Select(el, 0) != NULL]
        return z3.And(*cs)
    return post


def _items(E):
    rec = E.s0.objs[E["iterable"].oid]
    return rec["len"], rec["elem"]


def _list_post(shape, member=False):
    _, kind, ok, val, _ = SHAPES[shape]

    def post(E):
        le = _new_list(E)
        if le is None:
            return z3.BoolVal(False)
        m, el = le
        k, it = _items(E)
        j = qv("pj")
        cs = [m == k, FA([j], z3.Implies(z3.And(0 <= j, j < k), z3.Select(el, j) == val(E, it[j])), patterns=[z3.Select(el, j)]),
              unchanged_dl(E, E["self"])]
        if shape != "obj" or member:
            n, e = _n_e(E)
            pos = lambda x: norm(x, n) if shape == "int" else Dv(E.s0, E["self"])[1][x if shape == "str" else idarr(E, E.s0)[x]]  # noqa
            cs.append(FA([j], z3.Implies(z3.And(0 <= j, j < k), z3.And(0 <= pos(it[j]), pos(it[j]) < n, e[pos(it[j])] == z3.Select(el, j),
                                                                      z3.Select(el, j) != NULL)), patterns=[z3.Select(el, j)]))
        return z3.And(*cs)
    return post


def _all_ok(E, shape, pred=None):
    _, kind, ok, val, _ = SHAPES[shape]
    k, it = _items(E)
    j = qv("aj")
    p = pred or ok
    return FA([j], z3.Implies(z3.And(0 <= j, j < k), p(E, it[j])), patterns=[it[j]])


def _nonnull_members(E):
    """members of a DictList are objects (not None): part of the data-structure invariant the abstract contract's `non-None` rests on"""
    n, e = _n_e(E)
    j = qv("nj")
    return FA([j], z3.Implies(z3.And(0 <= j, j < n), e[j] != NULL), patterns=[e[j]])


def _pre(E):
    return z3.And(WF(E, E.s0, E["self"]), _nonnull_members(E))


def _cases():
    out = []
    for shape, (T, kind, ok, val, exc) in SHAPES.items():
        one = lambda E, ok=ok, kind=kind: ok(E, unwrap(E["iterable"], kind))  # noqa
        c = Case(f"single_{shape}_found", requires=one, ensures=_single_post(shape))
        c.params_override = {"iterable": T()}
        out.append(c)
        c = Case(f"single_{shape}_not_found", requires=(lambda one: lambda E: z3.Not(one(E)))(one), raises=exc,
                 ensures=lambda E: unchanged_dl(E, E["self"]))
        c.params_override = {"iterable": T()}
        out.append(c)
        c = Case(f"list_of_{shape}_all_found", requires=(lambda shape: lambda E: z3.And(_items(E)[0] >= 0, _all_ok(E, shape)))(shape),
                 ensures=_list_post(shape))
        c.params_override = {"iterable": LIST_T[shape]()}
        c.domain = (lambda shape: lambda E: z3.And(_items(E)[0] >= 0, _all_ok(E, shape)))(shape)
        out.append(c)
    # object items that ARE the members registered under their ids: the result consists of members (the abstract contract's clause)
    c = Case("single_obj_member", requires=lambda E: _obj_member(E, E["iterable"].t), ensures=_single_post("obj", member=True))
    c.params_override = {"iterable": TRef("Object")}
    out.append(c)
    c = Case("list_of_obj_members", requires=lambda E: z3.And(_items(E)[0] >= 0, _all_ok(E, "obj", _obj_member)),
             ensures=_list_post("obj", member=True))
    c.params_override = {"iterable": LIST_T["obj"]()}
    c.domain = lambda E: z3.And(_items(E)[0] >= 0, _all_ok(E, "obj"))
    out.append(c)
    return out


REG.add(Contract(M, "DictList.get_by_any", "C15", [SELF, ("iterable", TInt())], _cases(), pre=_pre, key="DictList.get_by_any:body",
                 props=["C15", "C07"],
                 note="PROVED per argument shape (int / str / object, single or list): see contracts/c15_get_by_any.py"))
KEYS = ["DictList.get_by_any:body"]
