"""Trusted-base reduction (round 5): the Model.tolerance setter against its real body (key "Model.tolerance@setter", hook table HOOKS).

Kept in a module of its own that imports nothing but contracts.common and declares NO heap field: contracts/misc_small.py (loaded by
C02, C12, C19, C20) needs this contract at the call site in Model.__setstate__, and every additional extended-real heap field adds a
quantified kind axiom to every proof of those properties (two obligations of Model.add_metabolites went `unknown` that way).  The
tolerance values therefore live in GHOST state: "tol_<name>" = (kind array, value array) over tolerance objects.

PROVED: Model.tolerance = value: for each of the three optlang tolerances (feasibility, optimality, integrality) that the solver
interface supports, the tolerances object of THIS model's solver configuration holds `value` afterwards, an unsupported one is left as
it was (AttributeError swallowed, as the log message documents); self._tolerance = value on EVERY path; no other tolerances object
and no cobra object is written.
ASSUMED leaves (optlang): `solver.configuration`, `configuration.tolerances` are functions of the solver object
(lp_configuration_of, lp_tolerances_of); assigning tolerance attribute <name> either stores the value in that attribute of that
tolerances object or raises AttributeError with nothing written, according to the ghost predicate tol_supported(tolerances, name);
logger / interface_to_str / the f-strings are opaque.
Mutation trials (tools/mutate_and_run.sh cobra/core/model.py ... contracts.w_tolerance --hooks HOOKS Model.tolerance@setter), NOT verified:
  `solver_tolerances.optimality = value` -> `solver_tolerances.feasibility = value`     post (the optimality clauses)
  `self._tolerance = value` -> `pass`                                                  post.7
  `solver_tolerances.integrality = value` -> `solver_tolerances.integrality = 0`       post (the integrality clauses)
"""
import z3
from .common import *  # noqa
from pyvc.values import id_lit, VReal, VFunc, Unsupported, unwrap, ident_of, xr_eq

MM = "cobra/core/model.py"
REG.inline.update({"Model.solver@getter", "Model.problem@getter"})
TOLS = ("feasibility", "optimality", "integrality")
RefInt, RefReal = z3.ArraySort(Ref, z3.IntSort()), z3.ArraySort(Ref, z3.RealSort())


def tol_arr(st, nm):
    """ghost: (kind, value) of tolerance attribute nm, per tolerances object"""
    return st.ghost.get("tol_" + nm, (z3.Const(f"tol0_{nm}_k", RefInt), z3.Const(f"tol0_{nm}_v", RefReal)))


# ================================================================ Model.tolerance setter
TOLS = ("feasibility", "optimality", "integrality")
for _c in ("LPConfiguration", "LPTolerances", "LPInterface"):
    REG.classes.setdefault(_c, [])
cfg_of = z3.Function("lp_configuration_of", Ref, Ref)
tol_of = z3.Function("lp_tolerances_of", Ref, Ref)
itf_of = z3.Function("lp_interface_of", Ref, Ref)
tol_supported = z3.Function("tol_supported", Ref, Id, z3.BoolSort())   # does the interface let this tolerance be set?


def _solver_ref(v):
    """identity of a solver value: a symbolic reference, or the materialised Solver object of a materialised model"""
    if isinstance(v, VRef) and v.cls in ("LPSolver", "Solver"):
        return v.t
    if isinstance(v, VObj) and v.kind == "obj" and v.cls in ("Solver", "LPSolver"):
        return ident_of(v.oid)
    return None


def _getattr(eng, st, v, name):
    s = _solver_ref(v)
    if s is not None and name == "configuration":
        return [("ok", st, VRef(cfg_of(s), "LPConfiguration"))]
    if s is not None and name == "interface":
        return [("ok", st, VRef(itf_of(s), "LPInterface"))]
    if isinstance(v, VRef) and v.cls == "LPConfiguration" and name == "tolerances":
        return [("ok", st, VRef(tol_of(v.t), "LPTolerances"))]
    return None


def _setattr(eng, st, v, name, val):
    if isinstance(v, VRef) and v.cls == "LPTolerances" and name in TOLS:
        outs = []
        for yes, s2 in eng.branch(st, tol_supported(v.t, id_lit(name))):
            if yes:
                r = eng.to_real(val)
                ka, va = tol_arr(s2, name)
                outs.append(("ok", s2.setghost("tol_" + name, (z3.Store(ka, v.t, r.k), z3.Store(va, v.t, r.v))), NONE))
            else:
                outs.append(eng.raise_(s2, "AttributeError"))
        return outs
    return None


def _tol_self():
    return TObj("Model", {"_solver": TObj("Solver", {}), "_tolerance": TReal()})


def _tol_obj(E):
    return tol_of(cfg_of(_solver_ref(E.s0.objs[E["self"].oid]["attr:_solver"])))


def _tol_post(E):
    t = _tol_obj(E)
    val = E.eng.to_real(E["value"])
    cs = []
    for nm in TOLS:
        k0, v0 = tol_arr(E.s0, nm)
        k1, v1 = tol_arr(E.s1, nm)
        sup = tol_supported(t, id_lit(nm))
        cs.append(k1 == z3.If(sup, z3.Store(k0, t, val.k), k0))
        cs.append(v1 == z3.If(sup, z3.Store(v0, t, val.v), v0))
    cur = E.s1.objs[E["self"].oid].get("attr:_tolerance")
    cs.append(xr_eq(E.eng.to_real(cur), val) if cur is not None else z3.BoolVal(False))
    return z3.And(*cs)


def _tol_mod(E):
    def mk(st):
        from pyvc.values import xr_fresh
        v, c = xr_fresh("tolv")
        return st.assume(c), v
    def mkt(nm):
        return lambda st: (fresh(f"tol_{nm}_k", RefInt), fresh(f"tol_{nm}_v", RefReal))
    return [("ghost", "tol_" + nm, mkt(nm)) for nm in TOLS] + [("attr", E["self"], "_tolerance", mk)]


REG.add(Contract(MM, "Model.tolerance@setter", "C12", [("self", _tol_self()), ("value", TReal())], [Case("any", ensures=_tol_post)],
                 modifies=_tol_mod, key="Model.tolerance@setter",
                 note="PROVED (was assumed): each SUPPORTED optlang tolerance of this model's solver configuration := value, an unsupported "
                      "one untouched, self._tolerance := value; nothing else written"))



def _global(eng, name):
    if name == "interface_to_str":
        return VFunc("abstract", name)
    return None


def _call_abstract(eng, st, f, pos, kw):
    if f.a == "interface_to_str":
        return [("ok", st, VOpaque("interface_to_str()"))]
    return None


HOOKS = {"global": _global, "call_abstract": _call_abstract, "getattr": _getattr, "setattr": _setattr}
KEYS = ["Model.tolerance@setter"]
