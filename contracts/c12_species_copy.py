"""C12 - Species.copy (cobra/core/species.py; inherited by Metabolite and Gene: `Metabolite.copy` / `Gene.copy` ARE this function).

STATEMENT (C12: "Reaction.copy / Metabolite.copy ... return detached objects and leave their operands unchanged").  The body is
`return deepcopy(self)`; what makes the result detached is NOT the body but the pickle protocol: Species defines `__getstate__`
(PROVED in contracts/c12_pickle.py: `_model` None, `_reaction` a NEW EMPTY set, everything else as held, the species untouched) and
neither `__deepcopy__` nor `__setstate__`.  So the proof runs through that PROVED contract, applied at the call site, and an
ASSUMED contract of the CODEC only:

ASSUMED  copy.deepcopy(x) for an instance x of a class with `__getstate__` and without `__deepcopy__` / `__setstate__` / `__reduce__`
  overrides (copy._reconstruct over object.__reduce_ex__(4)): calls `x.__getstate__()` exactly once, allocates ONE new instance y of
  x's class (birth stamp >= the clock at entry, not None) and gives y exactly the entries of the state as attributes, each a
  STRUCTURAL deep copy: None / str / float / bool entries are themselves; a mutable object reference w becomes a NEW reference r
  (allocated during the call) with DC(r) == w (vocabulary of contracts/c12_model_copy.py); an EMPTY set becomes a NEW EMPTY set
  (a non-empty container is outside this contract: Unsupported, the case would be undecided).  No existing object is written.
  Not covered: a memo dictionary passed by an enclosing deepcopy (the species reached as part of a larger graph - that is
  Model.copy / the codec lemmas of c12_pickle), exceptions inside deepcopy.

PROVED (cases Metabolite and Gene: a MATERIALISED receiver whose attributes are exactly the ones derived mechanically from the
__init__ sources - ASSUMPTION as in c12_model_copy: no other instance attributes; receiver with ANY model pointer - None or a model -
and ANY reaction set), 1 path each:
  (new)       the value returned is an object that did not exist at entry (python identity AND birth stamp >= CLOCK0 while the
              receiver's is < CLOCK0), of the receiver's class, with exactly the receiver's attribute names;
  (detached)  its `_model` is None;
  (own set)   its `_reaction` is a set object that did not exist at entry - in particular NOT the receiver's set - and is EMPTY;
  (same id)   `_id`, `name` and every other scalar attribute (compartment, _functional) carry the receiver's value; `notes` and
              `_annotation` are references allocated during the call that are deep copies of the receiver's (DC); formula / charge /
              _bound (values of unknown type) are deep copies of the receiver's (DC; for an immutable value python returns the value
              itself - nothing is claimed about identity there);
  (frame)     the receiver still holds every attribute with the very value / object it held (`_model` and the `_reaction` set object
              included), the content of its `_reaction` set is as at entry, and NO heap field of any object is written (modifies = {}:
              the engine's frame obligation).

MUTATION TRIALS (tools/mutate_and_run.sh cobra/core/species.py ... contracts.c12_species_copy --hooks HOOKS Species.copy; all fail):
  `return self`                                              -> post sat (literally False: the value returned existed at entry)
  `new = deepcopy(self); new._model = self._model; return new`  -> post.4 sat (both cases)            [the copy stays attached]
  `new = deepcopy(self); new._reaction = self._reaction; return new` -> post.4 / post.5 sat           [the copy shares the set]
  `self._model = None; return deepcopy(self)`                -> post.14 (Gene) / post.17 (Metabolite) sat and `frame` sat [operand detached]
  `self._reaction = set(); return deepcopy(self)`            -> checker error, not discharged (the frame check finds the receiver's
                                                                set replaced by a set display)      [operand's set emptied]
  `new = deepcopy(self); new._id = new.name; return new`     -> post.5 sat                            [identifier not carried over]
  `deepcopy(self); return deepcopy(self)`                    -> post.14 / post.17 sat (the state is taken twice)
  and in the callee: `state["_reaction"] = self._reaction` in Species.__getstate__ -> Species.__getstate__ post.5 sat (c12_pickle)
"""
import z3
from .common import *  # noqa
from . import c12_model_copy as MC
from . import c12_pickle as PK
from pyvc.state import alloc_obj, alloc_set
from pyvc.values import ident_of

KEY = "Species.copy"
KEYS = [KEY]
BIRTH, CLOCK0, DC = MC.BIRTH, MC.CLOCK0, MC.DC
_SCALARS = (VStr, VReal, VInt, VBool, VNone, VConc)
_FRESH_REFS = ("notes", "_annotation")          # attributes that hold mutable dictionaries: their copies are new objects


def _cur(eng):
    return getattr(getattr(eng, "cur_contract", None), "key", None)


def global_hook(eng, name):
    if _cur(eng) == KEY and name == "deepcopy":
        return VFunc("abstract", "sc:deepcopy")
    return None


def _deep(eng, st, w):
    """ASSUMED codec, one entry of the state"""
    if isinstance(w, _SCALARS):
        return st, w
    if isinstance(w, VRef):
        st, r = MC.alloc_ref(st, w.cls, "deepcopy")
        return st.assume(DC(r.t) == w.t), r
    if isinstance(w, VObj) and w.kind == "set":
        rec = st.objs[w.oid]
        if rec.get("lazy") or ("dom" in rec and z3.is_false(z3.simplify(z3.Select(rec["dom"], fresh("sc_any", rec["dom"].sort().domain()))))):
            return alloc_set(st, rec.get("kkind", "ref:Reaction"), dom=z3.K(Ref, z3.BoolVal(False)))
    raise Unsupported(f"deepcopy of a state entry {w!r}: only scalars, object references and EMPTY sets are inside the assumed codec contract")


def call_abstract_hook(eng, st, f, pos, kw):
    if f.a != "sc:deepcopy":
        return None
    if kw or len(pos) != 1 or not (isinstance(pos[0], VObj) and pos[0].kind == "obj"):
        raise Unsupported("deepcopy of something else than one materialised instance")
    from pyvc.apply import ASSUMED_USED
    ASSUMED_USED["deepcopy/protocol"] = REG.get("deepcopy/protocol").note
    x = pos[0]
    res = []
    for k, s, v in eng.apply_contract(st, REG.get(PK.KEY_SPECIES_GET), [x], {}):         # x.__getstate__(): the PROVED contract
        if k != "ok":
            res.append((k, s, v))
            continue
        a = {}
        for name, w in s.objs[v.oid]["pyitems"]:
            s, a["attr:" + name] = _deep(eng, s, w)
        s, o = alloc_obj(s, x.cls, a)
        c = MC.clock(s)
        s = s.assume(ident_of(o.oid) != NULL, BIRTH(ident_of(o.oid)) == c).setghost("mc_clock", c + 1)
        res.append(("ok", s.setghost("sc_getstate_calls", s.ghost.get("sc_getstate_calls", 0) + 1), o))
    return res


HOOKS = {"global": global_hook, "call_abstract": call_abstract_hook}

REG.add(Contract("copy.py", "deepcopy", "C12", [("x", TRef("Object"))], [Case("any")], assumed=True, key="deepcopy/protocol",
                 note="copy.deepcopy(x) of an instance whose class defines __getstate__ and none of __deepcopy__ / __setstate__ / __reduce__: "
                      "x.__getstate__() once (applied by its PROVED contract), ONE new instance of x's class whose attributes are the "
                      "structural deep copies of the state's entries (scalars themselves, object references new references with DC(r) == "
                      "w, an empty set a new empty set); no existing object written; no memo from an enclosing deepcopy"))


def _attrs(st, v):
    return [(k[5:], x) for k, x in st.objs[v.oid].items() if isinstance(k, str) and k.startswith("attr:")]


def _empty_new_set(E, w):
    if not (isinstance(w, VObj) and w.kind == "set" and w.oid not in E.s0.objs):
        return z3.BoolVal(False)
    r = E.s1.objs[w.oid]
    if r.get("lazy"):
        return z3.BoolVal(True)
    k = qv("se", r["dom"].sort().domain())
    return FA([k], z3.Not(z3.Select(r["dom"], k)), patterns=[z3.Select(r["dom"], k)])


def _pre(E):
    """the receiver exists at entry"""
    return BIRTH(ident_of(E["self"].oid)) < CLOCK0


def _post(E):
    x, y = E["self"], E.res
    if not (isinstance(y, VObj) and y.kind == "obj" and y.oid not in E.s0.objs and y.oid != x.oid and y.cls == x.cls):
        return z3.BoolVal(False)                                                                       # (new), python level
    a0, a1, ay = _attrs(E.s0, x), _attrs(E.s1, x), _attrs(E.s1, y)
    if [k for k, _ in ay] != [k for k, _ in a0]:
        return z3.BoolVal(False)
    me, cp = ident_of(x.oid), ident_of(y.oid)
    cs = [z3.And(cp != NULL, BIRTH(cp) >= CLOCK0, cp != me)]                                            # (new), allocation stamps
    d0, dy = dict(a0), dict(ay)
    cs.append(z3.BoolVal(isinstance(dy["_model"], VNone)))                                             # (detached)
    own = dy["_reaction"]
    cs.append(z3.BoolVal(isinstance(own, VObj) and isinstance(d0["_reaction"], VObj) and own.oid != d0["_reaction"].oid))
    cs.append(_empty_new_set(E, own))                                                                  # (own set)
    for k, v in a0:                                                                                    # (same id) and the other entries
        w = dy[k]
        if k in ("_model", "_reaction"):
            continue
        if isinstance(v, _SCALARS):
            cs.append(PK._same(E, w, v))
        elif isinstance(v, VRef) and isinstance(w, VRef):
            cs.append(DC(w.t) == v.t)
            if k in _FRESH_REFS:
                cs.append(z3.And(w.t != NULL, BIRTH(w.t) >= CLOCK0))
        else:
            cs.append(z3.BoolVal(False))
    # (frame) the receiver: every attribute holds the very value it held; its reaction set has the content it had
    cs.append(z3.BoolVal(len(a1) == len(a0) and all(k1 == k0 and v1 is v0 for (k1, v1), (k0, v0) in zip(a1, a0))))
    r0, r1 = E.s0.objs[d0["_reaction"].oid], E.s1.objs[d0["_reaction"].oid]
    cs.append(z3.BoolVal(r1 is r0 or all(r1.get(q) is r0.get(q) for q in set(r0) | set(r1))))
    cs.append(z3.BoolVal(E.s1.ghost.get("sc_getstate_calls", 0) == 1))                                 # the state was taken exactly once
    return z3.And(*cs)


_cases = []
for _cls in ("Metabolite", "Gene"):
    _c = Case(_cls, ensures=_post)
    _c.params_override = {"self": PK._obj_t(_cls)}
    _c.applies = (lambda cls: lambda a, st: getattr(a["self"], "cls", None) == cls)(_cls)
    _cases.append(_c)
REG.add(Contract("cobra/core/species.py", "Species.copy", "C12", [("self", PK._obj_t("Metabolite"))], _cases, pre=_pre, key=KEY,
                 modifies=lambda E: []))
