"""C12 / C02 (/ C01) - reaction arithmetic in cobra/core/reaction.py: the in-place operators Reaction.__imul__, __iadd__, __isub__ and
the operators that build a new reaction, __mul__, __add__ (the class body binds `__radd__ = __add__`: the SAME function), __sub__.
Everything below is proved over the REAL source, for stoichiometries of ANY size.  Post-conditions are taken from the docstrings
("Scale coefficients in a reaction by a given value in place ... If coefficient is less than zero, the reaction is reversed and
the bounds are swapped"; "The stoichiometry will be the combined stoichiometry of the two reactions, and the gene reaction rule
will be both rules combined by an and. All other attributes (i.e. reaction bounds) will match those of the first reaction";
"Subtract metabolites of one reaction from another in place ... All other attributes including gene_reaction_rule will match those
of the first reaction"; "Does not modify in place" / "Returns a new reaction").

EXPORTS   GROUPS = [(KEYS, HOOKS), (KEYS_NEW, HOOKS_NEW), (KEYS_APPLIED, HOOKS_APPLIED)]   (for run_property(..., more=GROUPS))
          lemmas()  (one closed formula)      ALL_KEYS = every key
  KEYS         Reaction.__imul__[in_model]  Reaction.__imul__[detached]  Reaction.__iadd__[recorded_calls]  Reaction.__isub__[recorded_calls]
  KEYS_NEW     Reaction.__mul__[new_object]  Reaction.__add__[new_object]  Reaction.__sub__[new_object]
  KEYS_APPLIED Reaction.__iadd__[in_model:no_context]  Reaction.__isub__[in_model:no_context]

SHAPES.  In-place operators: `self` (and `other`) are MATERIALISED reaction objects, `_metabolites` a dictionary {Metabolite: real}
(dom, val) of any size as in c02_rxn_add_metabolites, `_model` a materialised model or None, `_gpr` an arbitrary GPR reference; the
reaction's bounds live in the heap at its identity (vocabulary of c01_lp).  New-object operators: the operands are symbolic
references (the shape Reaction.copy is proved for in misc_small).  Coefficients are finite reals, arithmetic is exact (encoding
assumption A2: the rounding of x * c * (1.0 / c) in floating point is not modelled).

PROVED
 __imul__(coefficient)   [2 paths per case: coefficient < 0 / >= 0; cases in_model:no_context, in_model:in_context, detached]
  (1) stoichiometry: the keys are the same and every coefficient is the old one times `coefficient` (also for 0: the zeros stay
      stored as keys - the docstring says "scale", nothing is dropped); self._metabolites is a NEW dictionary, the dictionary object
      held at entry is not written;
  (2) coefficient < 0: the bounds become (-upper, -lower) - through the bounds setter, whose contract proved under C01 is applied at
      the identity of `self` (its precondition: valid bounds, is implied by the stated precondition) - otherwise they are as
      before; no other reaction's bounds change; (2b) in a model and coefficient < 0 the two solver variables encode the new bounds
      (range lemma RangeOK of c01_lp) and no other variable's bounds changed; otherwise no variable bound is written;
  (3) solver: model-less: no call, the ghost matrix S is untouched.  In a model: the bounds setter (if any) first, then EXACTLY ONE
      call self._model._populate_solver([self]) - a direct solver call, NOT through add_metabolites - made when stoichiometry and
      bounds already have their final values.  Over the ghost matrix S[constraint name][variable] of c02_rxn_add_metabolites: for
      every metabolite m of the reaction S[m.id][forward] = old(m) * coefficient, S[m.id][reverse] = -(old(m) * coefficient); an
      entry that differs from its entry value belongs to the forward / reverse variable of THIS reaction and to the row named by
      one of its metabolites - RELATIVE TO THE ASSUMED EFFECT of the recorded _populate_solver call (see ASSUMED);
  (4) undo: no context / model-less: nothing is registered.  Context open: exactly TWO registrations, both in the innermost
      context of the model, in this order: partial(self._model._populate_solver, [self]), then partial(self.__imul__, x) with
      x * coefficient = 1 (so on exit the inverse scaling runs first, then the rows are written once more);
  (5) returns self.
  lemma `undo-restores` (lemmas(); closed formula over plain arrays built from the very clauses (1), (2), (3) - scale_facts,
      bounds_facts, rows_facts): the call with c != 0 followed by the call the registered inverse makes (x * c = 1; it runs with the
      contexts hidden, i.e. as the no-context case) gives back keys, coefficients and both bounds of the entry state, and the rows of
      the reaction's metabolites hold the entry coefficients again.  That the registered functions ARE run on exit is C03.
 DEFECT found with this contract (REPORTED, not absorbed: excluded by the STATED precondition `inside a context coefficient != 0`):
      `with model: reaction *= 0` - the stoichiometry is zeroed and the solver rows rewritten, _populate_solver is registered, then
      `1.0 / coefficient` raises ZeroDivisionError: the exception leaves the change in place and NOTHING is registered that restores
      the coefficients (no inverse exists); after the context exits the reaction is still all-zero.  Native reproduction
      (/venv/bin/python against /repo): m = Model(); r = Reaction("r", lower_bound=-3, upper_bound=7); m.add_reactions([r]);
      r.add_metabolites({Metabolite("a"): -1.0, Metabolite("b"): 2.0}); `with m: r *= 0` -> ZeroDivisionError, and afterwards
      r._metabolites == {a: -0.0, b: 0.0}, rows a / b of the solver empty.  Without the stated precondition the case
      in_model:in_context fails with `unexpected-exception` on the ZeroDivisionError path.
      (DESIGN.md, section on C02, lists 0 as "outside the documented domain" of __imul__; the docstring itself excludes nothing.)
      Observation (not a defect by the docstring): `r *= 0` without a context keeps the metabolites as keys with coefficient 0 and
      they keep listing the reaction, whereas add_metabolites drops zero coefficients (its glue lemmas assume none is stored).
 __iadd__(other)  [recorded_calls: 4 cases = the decision table of the rule, 1 path each; operands in a model or not - the model
      pointer is not read; with or without a context - the callees register their own undo]
  (1) EXACTLY ONE call self.add_metabolites(other._metabolites, combine=True): receiver self, the one positional argument is the very
      dictionary object of `other` (not a copy), the only keyword is combine=True (reversibly keeps its default) - RECORDED with its
      exact arguments, made first;
  (2) the rule, with rule1 = self.gene_reaction_rule.strip(), rule2 = other.gene_reaction_rule.strip() (read after (1)):
      both non-empty: exactly one assignment self.gene_reaction_rule = "(" + self.gene_reaction_rule + ") and (" +
      other.gene_reaction_rule + ")" (the text concatenation, opaque str_concat; the UNSTRIPPED texts stand inside the
      parentheses); only rule1 non-empty: exactly one assignment self.gene_reaction_rule = rule1 (the code re-assigns the
      stripped own rule: the "and" with an empty rule); only rule2 non-empty: self.gene_reaction_rule = rule2; both empty: the
      setter is not called.  The setter call is RECORDED (receiver, argument); it is never called on `other`;
  (3) `other` is NOT modified, and nothing else is written by this function: both operand objects (every attribute), both
      dictionaries and every heap field (model pointers, gene sets, back references, bounds, identifiers) are as at entry, nothing
      is registered by __iadd__ itself; (4) returns self.
 __iadd__(other)  [in_model:no_context: the same 4 cases] - reaction IN a model, NO context open, every metabolite of `other` is a
      member of that model: the call (1) is replaced BY THE CONTRACT Reaction.add_metabolites[object_keys] PROVED in
      c02_rxn_add_metabolites (its precondition is obliged at the call site, its post-condition assumed), so that the EFFECT is
      proved: final(m) = old(m) + other(m) for a common metabolite, other(m) for a new one, old(m) for one `other` does not have;
      m is a key afterwards iff it was touched and final(m) != 0, with that value; for every touched m `self in m._reaction` iff m is
      a key; no `_reaction` entry for ANOTHER reaction (in particular none for `other`) changes; solver rows S[m.id][forward] =
      final(m), S[m.id][reverse] = -final(m), no other cell written; nothing registered; self._metabolites is still the same
      dictionary object; (2), (4) as above; other's object and dictionary are untouched.
 __isub__(other)  [recorded_calls] EXACTLY ONE call self.subtract_metabolites(other._metabolites, combine=True) (recorded, exact
      arguments), no rule setter call, (3), (4) as for __iadd__.
 __isub__(other)  [in_model:no_context] same stated precondition as __iadd__[in_model:no_context]: subtract_metabolites is EXECUTED
      from its real source (one statement: a new dictionary with the negated values, flags passed on) and the add_metabolites call
      it makes is replaced by the proved contract: the effect above with final(m) = old(m) - other(m) / -other(m) / old(m).
 __mul__(coefficient) / __add__(other) / __sub__(other)   [new_object; 1 path each; __add__ also the case other == 0 of sum()]
  (1) exactly: c1 = self.copy() [and c2 = other.copy()] - each BY THE PROVED CONTRACT Reaction.copy (misc_small; relative to the
      assumed copy.deepcopy) - then EXACTLY ONE in-place operator __imul__(coefficient) / __iadd__(c2) / __isub__(c2) on the COPY c1
      (recorded call; `other` itself is never handed over, the pre-repair `new_reaction += other` fails), and the value returned
      is what that operator returned = c1 (the in-place contracts above prove `returns self`); other == 0: c1 is returned, no
      in-place call;
  (2) the result (and c2) is a different object from BOTH operands, detached (model pointer None); every model pointer that
      existed - of the operands, their metabolites, their genes, anything else - is as at entry; NO other heap field is written
      (stoichiometry sets, gene sets, back references `_reaction`, bounds, identifiers of every existing object are literally the
      entry arrays): the function itself leaves both operands unchanged, and the only objects the in-place operator is given
      are the two copies.
  NOT proved here: that the copy has the operand's content (the assumed contract of copy.deepcopy says nothing about it), hence
      neither the VALUE of the result nor that the in-place operator on the copies touches nothing the operands share (that
      the deep copies share nothing with the originals is exactly copy.deepcopy's business; the in-place call on two model-less
      copies whose metabolites are DIFFERENT objects with EQUAL identifiers is the case Reaction.add_metabolites[detached:
      object_keys] does not cover): bounded driver of C12 (reaction arithmetic operands unchanged).

STATED PRECONDITIONS.  __imul__: finite coefficient; valid bounds (lb <= ub, lb < +inf, ub > -inf: C01); the context stack holds
  managers; glue: the heap's model pointer of the materialised reaction is its model / None; inside a context coefficient != 0
  (DEFECT above).  __iadd__ / __isub__: self and other are two different objects (r += r is not covered).  [in_model:no_context]:
  additionally the precondition of Reaction.add_metabolites[object_keys] for this call (model.metabolites well formed, every
  metabolite of the reaction a member that lists it, every member has its constraint, every metabolite of `other` is a member
  of the model and points at it - metabolites of ANOTHER model, which add_metabolites copies, are not covered) and no context open
  (at a call site the add_metabolites contract cannot show its registration).  New-object operators: Reaction.copy's precondition
  for each reaction operand (type discipline: a reaction is not among its own metabolites / genes).
ASSUMED
  * GPR.to_string() (through the real getter gene_reaction_rule, executed) is a function gpr_to_string of the GPR object and only
    reads; str.strip() is an uninterpreted function str_strip; f-strings fold into the opaque concatenation str_concat (c02_boundary);
  * recorded abstract calls (their effect is THEIR contract, not re-proved here): Reaction.add_metabolites / subtract_metabolites
    (c02_rxn_add_metabolites) in the recorded_calls contracts, the gene_reaction_rule setter (GPR.from_string +
    update_genes_from_gpr, c02_update_genes; under @resettable) everywhere, the in-place operators on the copy in the new-object
    contracts (they return their receiver);
  * Model._populate_solver([self]): recorded, with the ASSUMED EFFECT on S that transcribes clause (4) of its contract proved in
    c01_populate (whose ghost model is keyed by solver objects, not names) - for every metabolite m of the reaction's stoichiometry
    at the call: S[m.id][forward] = coefficient, S[m.id][reverse] = -coefficient, nothing else written; its precondition (reaction
    listed in model.reactions, both variables present, ...) is NOT obliged here;
  * the bounds setter: the contract Reaction.bounds@setter proved under C01 is about the BODY and is applied as if the body always
    ran; the @resettable wrapper around it (C03, resettable.wrapper) is NOT modelled: the registration it makes in a context is not
    part of the trace stated in (4), and its early return for an unchanged value inside a context (symmetric bounds (-b, b) with
    a negative coefficient: the body does not run, so (2) holds trivially and (2b) holds iff it held at entry) is not a separate
    path;
  * allocation: the object a copy() returns is not None and different from the operands of the function and from earlier copies
    (Reaction.copy's contract states `different from its own operand` only); get_context by its contract proved under C03;
    HistoryManager.__call__ as a ghost trace (C03 hooks); dict comprehension / list display as axiomatised in pyvc.
OBSERVATION for c02_rxn_add_metabolites (found while mutating, not changed here): its post-conditions read the dictionary OBJECT
  the reaction held at entry (`stoich(E, st)` goes through `E.s0`), and the engine's frame check (pyvc.verify.unchanged_obj) skips an
  attribute whose entry object is listed in `modifies` (rebinding is legitimate elsewhere, e.g. DictList._generate_index); so a body
  that REBINDS self._metabolites is not caught there: the mutant `self._metabolites = {}` placed at the end of add_metabolites
  verifies against Reaction.add_metabolites[detached:object_keys].  One more conjunct `self._metabolites is still that object`
  closes it.  The contracts of this module state the attribute identity explicitly.
MUTATION TRIALS (tools/mutate_and_run.sh; obligation that fails or goes unknown):
  value * (coefficient + 1) -> __imul__ post.2 (coefficients) and post.8 / post.14 (rows), all three cases; inverse registration
  removed -> in_context post.10 / post.16 (two registrations); bounds not negated -> post.3, all three cases; _populate_solver
  before the scaling -> post.4 / post.6 (made in the final state) and the rows clause; __isub__ calling add_metabolites -> __isub__[recorded_calls] post, [in_model:no_context] post;
  combine=False -> __iadd__ post (both contracts); combined rule written to `other` -> both_rules post; "or" for "and" -> both_rules
  post; dict(other._metabolites) handed over -> post; only-other case assigns rule1 -> only_other_rule post; other._metabolites
  = {} -> [in_model:no_context] post.8 + frame; self._metabolites rebound after the call -> post.8; subtract_metabolites without
  the negation -> __isub__[in_model:no_context] post.1/2/5; `self += other.copy()` in __add__ -> __add__ post.1; __mul__ returning
  self / scaling self -> __mul__ post.1; `new_reaction += other` (pre-repair) -> __add__ post; `new += other.copy()` in __sub__ ->
  __sub__ post.1.
"""
import z3
import cobra  # noqa
from .common import *  # noqa
from . import c03_context as C3
from . import c01_lp as C1
from . import c02_rxn_add_metabolites as RAM
from . import c02_boundary as BND
from . import misc_small as MS  # noqa  (Reaction.copy, copy.deepcopy)
from pyvc.values import ident_of, id_lit, VReal, xr_eq, xr_lt, xr_le

MR = "cobra/core/reaction.py"
MET = "ref:Metabolite"
REG.fields.update({"_lower_bound": "real", "_upper_bound": "real", "_model": "ref:Model", "_reaction": "set:ref:Reaction",
                   "_metabolites": "set:ref:Metabolite", "_genes": "set:ref:Gene"})
RefReal, SMat = RAM.RefReal, RAM.SMat
gpr_text = z3.Function("gpr_to_string", Ref, Id)        # ASSUMED: GPR.to_string() is a function of the GPR object (it only reads)
str_strip = z3.Function("str_strip", Id, Id)            # str.strip() as an uninterpreted function
ROWMET0 = z3.K(Id, NULL)


def H(E, st, f):
    return E.eng.heap_arr(st, f)


# ================================================================ the in-place operators: materialised operands
def _model_t():
    return TObj("Model", {"_contexts": TList("ref:HistoryManager")})


def _rxn_t(in_model, gpr=False):
    attrs = {"_model": _model_t() if in_model else TNone(), "_metabolites": TDict(MET, "real")}
    if gpr:
        attrs["_gpr"] = TRef("GPR")
    return TObj("Reaction", attrs)


def rid(E, name="self"):
    return ident_of(E[name].oid)


def model_of(E, name="self"):
    return E.s0.objs[E[name].oid]["attr:_model"]


def in_model(E):
    return isinstance(model_of(E), VObj)


def stoich_obj(E, st=None, name="self"):
    return (st or E.s0).objs[E[name].oid]["attr:_metabolites"]


def stoich(E, st, name="self"):
    """(dom, val) of the dictionary that <name>._metabolites IS in state st"""
    rec = st.objs[stoich_obj(E, st, name).oid]
    return rec["dom"], rec["val"]


def calls(st):
    """ghost: the abstract calls made so far, in order"""
    return st.ghost.get("calls", ())


def _is_rxn(v):
    return isinstance(v, VObj) and v.kind == "obj" and v.cls == "Reaction"


def _entry_self(eng):
    s = (getattr(eng, "entry_args", None) or {}).get("self")
    return s if _is_rxn(s) else None


def _record(st, *ev):
    return st.setghost("calls", calls(st) + (tuple(ev),))


# ---------------------------------------------------------------- hooks
def getattr_hook(eng, st, v, name):
    if _is_rxn(v) and name in ("_lower_bound", "_upper_bound"):
        # the bounds of the materialised reaction live in the heap at its identity (C01 vocabulary)
        return [("ok", st, eng.heap_read(st, name, ident_of(v.oid)))]
    if isinstance(v, VRef) and v.cls == "GPR" and name == "to_string":
        return [("ok", st, VFunc("bound", v, name))]
    return None


def setattr_hook(eng, st, v, name, val):
    if _is_rxn(v) and name == "bounds":
        # self.bounds = (lo, hi): the body of the setter by its contract proved under C01, applied at the identity of `self`
        # (its own @resettable registration - C03, resettable.wrapper - is not part of that contract and not in this trace)
        outs = eng.apply_contract(st, eng.reg.get("Reaction.bounds@setter"), [VRef(ident_of(v.oid), "Reaction"), val], {})
        return [(k, _record(s2, "bounds@setter", v, (val,), {}, st) if k == "ok" else s2, NONE if k == "ok" else x) for k, s2, x in outs]
    if _is_rxn(v) and name == "gene_reaction_rule":
        # the setter (GPR.from_string + update_genes_from_gpr, under @resettable): an abstract call, recorded with its argument
        return [("ok", _record(st, "gene_reaction_rule@setter", v, (val,), {}, st), NONE)]
    return None


def _one_reaction(st, lst):
    """the materialised reaction r when lst is the list display [r], else None"""
    if isinstance(lst, VObj) and lst.kind == "pylist":
        items = st.objs[lst.oid]["items"]
        if len(items) == 1 and _is_rxn(items[0]):
            return items[0]
    return None


def rowmet(st):
    """ghost witness: the metabolite whose row was written (inverse of `identifier of`) by the latest _populate_solver call"""
    return st.ghost.get("imul_rowmet", ROWMET0)


def call_method_hook(eng, st, recv, name, pos, kw):
    if isinstance(recv, VObj) and recv.cls == "Model" and name == "_populate_solver":
        # model._populate_solver([reaction]): an abstract call, recorded with the state it happens in.  ASSUMED effect (clause (4)
        # of the contract proved in c01_populate, transcribed into the ghost matrix S of c02_rxn_add_metabolites, S[constraint
        # name][variable]): for every metabolite m of the reaction's stoichiometry AT THE CALL the row named by m's identifier
        # holds the coefficient for the forward variable and its negative for the reverse variable; no other entry is written
        st2 = _record(st, "_populate_solver", recv, tuple(pos), dict(kw), st)
        r = _one_reaction(st, pos[0]) if len(pos) == 1 and not kw else None
        if r is not None:
            drec = st.objs[st.objs[r.oid]["attr:_metabolites"].oid]
            if drec.get("lazy") or drec.get("pure"):
                raise Unsupported("_populate_solver of a reaction whose stoichiometry is not a symbolic dictionary")
            d, v = drec["dom"], drec["val"]
            ids = eng.heap_arr(st, "_id")
            f, b = C1.fwd(ident_of(r.oid)), C1.rev(ident_of(r.oid))
            S0, S1, w = RAM.smat(st), fresh("S", SMat), fresh("rowmet", ROWMET0.sort())
            m, k, u = qv("pm", Ref), qv("pk", Id), qv("pu", Ref)
            st2 = st2.assume(
                FA([m], z3.Implies(d[m], z3.And(S1[ids[m]][f] == v[m], S1[ids[m]][b] == -v[m])), patterns=[d[m]]),
                FA([k, u], z3.Implies(S1[k][u] != S0[k][u], z3.And(z3.Or(u == f, u == b), d[w[k]], ids[w[k]] == k)),
                   patterns=[S1[k][u]]))
            st2 = st2.setghost("S", S1).setghost("imul_rowmet", w)
        return [("ok", st2, NONE)]
    if isinstance(recv, VRef) and recv.cls == "GPR" and name == "to_string" and not pos and not kw:
        return [("ok", st, VStr(gpr_text(recv.t)))]
    if isinstance(recv, VStr) and name == "strip" and not pos and not kw:
        return [("ok", st, VStr(str_strip(recv.t)))]
    if _is_rxn(recv) and name in ("add_metabolites", "subtract_metabolites"):
        # an abstract call, recorded with its exact arguments (object identities) and the state it happens in
        return [("ok", _record(st, name, recv, tuple(pos), dict(kw), st), NONE)]
    return None


def _inline_getter_hook(eng, st, v, name):
    if _is_rxn(v) and name == "gene_reaction_rule":
        return RAM._inline_getter(eng, st, "Reaction", "gene_reaction_rule", v)     # the real getter: self._gpr.to_string()
    return None


HOOKS = chain_hooks({"getattr": getattr_hook, "setattr": setattr_hook, "call_method": call_method_hook},
                    {"getattr": _inline_getter_hook, "fstring": BND.fstring_hook}, C3.HOOKS)


# ================================================================ Reaction.__imul__
def _c(E):
    return E["coefficient"]


def _has_ctx(E):
    return C3._gc_has(Env({"obj": E["self"]}, E.s0, eng=E.eng))


def _valid_bounds(E):
    """the C01 invariant on the reaction's own bounds: lb <= ub, lb < +inf, ub > -inf"""
    lb, ub = C1.lbub(E, E.s0, rid(E))
    return z3.And(xr_le(lb, ub), lb.k != 1, ub.k != -1)


def _imul_pre(E):
    """coefficient finite (A2); bounds valid; glue: the heap's model pointer of the materialised reaction is its model (None for a
    model-less one); the context stack holds managers.  (Until the repair recorded in known_findings.jsonl the coefficient 0 had to
    be excluded inside a context: see DEFECT in the docstring.)"""
    c = _c(E)
    mo = H(E, E.s0, "_model")[rid(E)]
    cs = [c.k == 0, _valid_bounds(E), C3._ctx_nonnull(E, "self"),
          mo == (ident_of(model_of(E).oid) if in_model(E) else NULL)]
    return z3.And(*cs)


def scale_facts(d0, v0, d1, v1, c, extra=lambda m: z3.BoolVal(True)):
    """(1) over plain arrays (shared by the post-condition and the glue lemma): the keys are the same, every coefficient is the old
    one times c"""
    m = qv("im", Ref)
    return [FA([m], z3.Implies(d1[m], d0[m]), patterns=[d1[m]]),
            FA([m], z3.Implies(d0[m], z3.And(extra(m), d1[m], v1[m] == v0[m] * c)), patterns=[d0[m]])]


def bounds_facts(lb0, ub0, lb1, ub1, c):
    """(2) over plain extended reals: c < 0: the bounds become (-upper, -lower); otherwise they are as before"""
    return [z3.If(c < 0, z3.And(xr_eq(lb1, VReal(-ub0.k, -ub0.v)), xr_eq(ub1, VReal(-lb0.k, -lb0.v))),
                  z3.And(xr_eq(lb1, lb0), xr_eq(ub1, ub0)))]


def rows_facts(S1, ids, f, b, d0, v0, c):
    """(3b), first half, over plain arrays: the row of every metabolite of the reaction holds old coefficient x c for the forward
    variable and its negative for the reverse variable"""
    m = qv("sm", Ref)
    return [FA([m], z3.Implies(d0[m], z3.And(S1[ids[m]][f] == v0[m] * c, S1[ids[m]][b] == -(v0[m] * c))), patterns=[d0[m]])]


def _imul_stoich(E):
    """(1) every coefficient is multiplied by `coefficient`, the keys are the same.  self._metabolites is a NEW dictionary; the
    dictionary object the reaction held at entry is not written"""
    d0, v0 = stoich(E, E.s0)
    d1, v1 = stoich(E, E.s1)
    old = stoich_obj(E, E.s0)
    order, pos, card = E.s1.ghost[("order", old.oid, d0.get_id())]
    same_old = E.s1.objs[old.oid]["dom"].eq(d0) and E.s1.objs[old.oid]["val"].eq(v0)
    # (pos[m] >= 0: true for every key; names the key's place in the enumeration the comprehension ran over)
    return scale_facts(d0, v0, d1, v1, _c(E).v, lambda m: pos[m] >= 0) + [z3.BoolVal(bool(same_old))]


def _imul_bounds(E):
    """(2) coefficient < 0: the bounds become (-upper, -lower); otherwise the bound fields are as before.  No other reaction's
    bounds change"""
    r = rid(E)
    lb0, ub0 = C1.lbub(E, E.s0, r)
    lb1, ub1 = C1.lbub(E, E.s1, r)
    x = qv("bx", Ref)
    out = bounds_facts(lb0, ub0, lb1, ub1, _c(E).v)
    for f in ("_lower_bound", "_upper_bound"):
        (k0, a0), (k1, a1) = H(E, E.s0, f), H(E, E.s1, f)
        if not (k0.eq(k1) and a0.eq(a1)):
            out.append(FA([x], z3.Implies(x != r, z3.And(k1[x] == k0[x], a1[x] == a0[x])), patterns=[k1[x], a1[x]]))
    # (2b) the solver variables (C01): reaction in a model and coefficient < 0: afterwards the bounds of its forward / reverse
    # variable encode the NEW bounds (range lemma of c01_lp, by the setter's contract) and no other variable's bounds changed;
    # otherwise no variable bound is written at all
    var_same = all(H(E, E.s1, f)[i].eq(H(E, E.s0, f)[i]) for f in ("var_lb", "var_ub") for i in (0, 1))
    if not var_same:
        fv, bv = C1.fwd(r), C1.rev(r)
        cs = [_c(E).v < 0] + ([C1.range_lemma(E, E.s1, E.s1, r)] if in_model(E) else [])
        for f in ("var_lb", "var_ub"):
            (k0, a0), (k1, a1) = H(E, E.s0, f), H(E, E.s1, f)
            other = z3.And(x != fv, x != bv) if in_model(E) else z3.BoolVal(True)      # model-less: no variable at all
            cs.append(FA([x], z3.Implies(other, z3.And(k1[x] == k0[x], a1[x] == a0[x])), patterns=[k1[x], a1[x]]))
        out.append(z3.And(*cs))
    return out


def _is_populate(ev, E):
    """ev is the call self._model._populate_solver([self])"""
    return (ev[0] == "_populate_solver" and isinstance(ev[1], VObj) and in_model(E) and ev[1].oid == model_of(E).oid
            and len(ev[2]) == 1 and not ev[3] and _one_reaction(ev[4], ev[2][0]) is not None
            and _one_reaction(ev[4], ev[2][0]).oid == E["self"].oid)


def _imul_calls(E):
    """(3a) the abstract calls: the bounds setter at most once and first (exactly when coefficient < 0, checked per path through
    (2)), then - reaction in a model - exactly one self._model._populate_solver([self]), made when the stoichiometry and the bounds
    already have their final values"""
    evs = list(calls(E.s1))
    if evs and evs[0][0] == "bounds@setter":
        ev = evs.pop(0)
        if not (ev[1].oid == E["self"].oid):
            return [z3.BoolVal(False)]
    if not in_model(E):
        return [z3.BoolVal(len(evs) == 0), z3.BoolVal(RAM.smat(E.s1).eq(RAM.smat(E.s0)))]
    if not (len(evs) == 1 and _is_populate(evs[0], E)):
        return [z3.BoolVal(False)]
    at = evs[0][4]
    d1, v1 = stoich(E, E.s1)
    da, va = stoich(E, at)
    lbA, ubA = C1.lbub(E, at, rid(E))
    lb1, ub1 = C1.lbub(E, E.s1, rid(E))
    return [z3.BoolVal(bool(stoich_obj(E, at).oid == stoich_obj(E, E.s1).oid and da.eq(d1) and va.eq(v1))),
            z3.And(xr_eq(lbA, lb1), xr_eq(ubA, ub1))]


def _imul_solver(E):
    """(3b) reaction in a model, over the ghost matrix S of c02_rxn_add_metabolites (relative to the ASSUMED effect of the
    recorded _populate_solver call): the row named by the identifier of every metabolite of the reaction holds old coefficient x
    `coefficient` for the forward variable and its negative for the reverse one; an entry that differs from its entry value
    belongs to the forward or reverse variable of THIS reaction and to the row of one of its metabolites (ghost witness)"""
    if not in_model(E):
        return []
    d0, v0 = stoich(E, E.s0)
    ids = H(E, E.s0, "_id")
    f, b = C1.fwd(rid(E)), C1.rev(rid(E))
    S0, S1, w = RAM.smat(E.s0), RAM.smat(E.s1), rowmet(E.s1)
    k, u = qv("sk", Id), qv("su", Ref)
    return rows_facts(S1, ids, f, b, d0, v0, _c(E).v) + [
        FA([k, u], z3.Implies(S1[k][u] != S0[k][u], z3.And(z3.Or(u == f, u == b), d0[w[k]], ids[w[k]] == k)), patterns=[S1[k][u]])]


def _trace(E):
    return E.s1.ghost.get("trace", ())


def _imul_no_undo(E):
    return [z3.BoolVal(len(_trace(E)) == 0)]


def _imul_undo(E):
    """(4) context open: exactly THREE registrations, all in the innermost context of the model, in this order:
    partial(self._model._populate_solver, [self]), the bound method self._update_awareness, and partial(setattr, self,
    "_metabolites", D) with D THE dictionary object the reaction held at entry (which clause (1) proves unwritten) - so that on exit
    (last in, first out) the entry stoichiometry is put back first, exactly (no inverse scaling, hence also for the coefficient 0),
    then every metabolite (and gene) of the restored reaction is made aware of it again (an edit made after a scaling by zero may
    have dropped the zeroed entries together with their back references), and the solver rows are written once more at the end"""
    tr = _trace(E)
    if not (len(tr) == 3 and all(ev[0] == "push" for ev in tr)):
        return [z3.BoolVal(False)]
    (_, c1, f1), (_, c2, f2), (_, c3, f3) = tr
    ok1 = (isinstance(f1, VFunc) and f1.kind == "partial" and isinstance(f1.a, VFunc) and f1.a.kind == "bound"
           and isinstance(f1.a.a, VObj) and f1.a.a.oid == model_of(E).oid and f1.a.b == "_populate_solver" and len(f1.b) == 1
           and not f1.c and _one_reaction(E.s1, f1.b[0]) is not None and _one_reaction(E.s1, f1.b[0]).oid == E["self"].oid)
    ok2 = (isinstance(f2, VFunc) and f2.kind == "bound" and isinstance(f2.a, VObj) and f2.a.oid == E["self"].oid
           and f2.b == "_update_awareness")
    ok3 = (isinstance(f3, VFunc) and f3.kind == "partial" and isinstance(f3.a, VFunc) and f3.a.kind == "builtin"
           and f3.a.a == "setattr" and len(f3.b) == 3 and not f3.c
           and isinstance(f3.b[0], VObj) and f3.b[0].oid == E["self"].oid
           and isinstance(f3.b[1], VConc) and f3.b[1].py == "_metabolites"
           and isinstance(f3.b[2], VObj) and f3.b[2].oid == stoich_obj(E, E.s0).oid)
    if not (ok1 and ok2 and ok3):
        return [z3.BoolVal(False)]
    nc, ec = C3._ctxs(E.s0, model_of(E))
    return [c1.t == ec[nc - 1], c2.t == ec[nc - 1], c3.t == ec[nc - 1]]


def _returns_self(E):
    return [z3.BoolVal(isinstance(E.res, VObj) and E.res.oid == E["self"].oid)]


def _imul_post(undo):
    def post(E):
        return z3.And(*(_imul_stoich(E) + _imul_bounds(E) + _imul_calls(E) + _imul_solver(E)
                        + (_imul_undo(E) if undo else _imul_no_undo(E)) + _returns_self(E)))
    return post


def _imul_modifies(E):
    return [("attr", E["self"], "_metabolites", lambda st: TDict(MET, "real").make(st, "scaled")),
            ("heap", "_lower_bound"), ("heap", "_upper_bound"), ("heap", "var_lb"), ("heap", "var_ub"),
            ("ghost", "S", lambda st: fresh("S", SMat)), ("ghost", "imul_rowmet", lambda st: fresh("rowmet", ROWMET0.sort())),
            ("ghost", "trace", lambda st: ()), ("ghost", "calls", lambda st: ())]


KEY_IMUL, KEY_IMUL_DET = "Reaction.__imul__[in_model]", "Reaction.__imul__[detached]"
_IMUL_PARAMS = lambda im: [("self", _rxn_t(im)), ("coefficient", TReal())]  # noqa
REG.add(Contract(MR, "Reaction.__imul__", "C02", _IMUL_PARAMS(True), [
    Case("in_model:no_context", requires=lambda E: z3.Not(_has_ctx(E)), ensures=_imul_post(False)),
    Case("in_model:in_context", requires=_has_ctx, ensures=_imul_post(True))],
    pre=_imul_pre, modifies=_imul_modifies, key=KEY_IMUL, props=["C02", "C12", "C01"],
    note="reaction IN a model (materialised), without / with an open context; finite coefficient; valid bounds; INSIDE A CONTEXT the "
         "coefficient 0 is EXCLUDED by the stated precondition (defect: ZeroDivisionError after the change, see the module docstring); "
         "the bounds setter by its C01 contract at the identity of self; _populate_solver([self]) a recorded call with the ASSUMED "
         "effect of clause (4) of its contract on the ghost matrix S"))
REG.add(Contract(MR, "Reaction.__imul__", "C02", _IMUL_PARAMS(False), [
    Case("detached", ensures=_imul_post(False))],
    pre=_imul_pre, modifies=_imul_modifies, key=KEY_IMUL_DET, props=["C02", "C12"],
    note="model-less reaction: stoichiometry scaled, bounds swapped for a negative coefficient, no solver call, nothing registered"))

KEYS = [KEY_IMUL, KEY_IMUL_DET]


# ================================================================ Reaction.__iadd__ / __isub__
def _op_t(gpr):
    """an operand of += / -=: a materialised reaction, in a model or not (its model pointer is not read), whose stoichiometry is a
    dictionary of any size and whose rule is an arbitrary GPR object"""
    attrs = {"_metabolites": TDict(MET, "real")}
    if gpr:
        attrs["_gpr"] = TRef("GPR")
    return TObj("Reaction", attrs)


def _text(E, name):
    """what <name>.gene_reaction_rule returns at entry: gpr_to_string(<name>._gpr)"""
    return gpr_text(E.s0.objs[E[name].oid]["attr:_gpr"].t)


EMPTY = id_lit("")


def _rule1(E):
    return str_strip(_text(E, "self"))


def _rule2(E):
    return str_strip(_text(E, "other"))


def _is_true_flag(v):
    return isinstance(v, VBool) and (v.t is True or (not isinstance(v.t, bool) and z3.is_true(v.t)))


def _is_stoich_call(ev, E, name):
    """ev is the call self.<name>(other._metabolites, combine=True): the receiver is `self`, the ONE positional argument is the
    very dictionary object other._metabolites (not a copy), the only keyword is combine=True (so reversibly keeps its default)"""
    return (ev[0] == name and _is_rxn(ev[1]) and ev[1].oid == E["self"].oid and len(ev[2]) == 1 and isinstance(ev[2][0], VObj)
            and ev[2][0].oid == stoich_obj(E, E.s0, "other").oid and set(ev[3]) == {"combine"} and _is_true_flag(ev[3]["combine"]))


def _operands_untouched(E):
    """frame, explicitly: this function itself writes nothing - both dictionaries, every attribute of both operand objects and
    every heap field (model pointers, gene sets, back references, bounds, identifiers) are as at entry.  What the recorded calls do
    is THEIR contract: Reaction.add_metabolites (c02_rxn_add_metabolites) only reads its argument dictionary and writes the
    receiver's stoichiometry, the `_reaction` entries FOR THE RECEIVER and its solver rows"""
    same = all(E.s1.objs[o.oid] is E.s0.objs[o.oid] for o in (E["self"], E["other"], stoich_obj(E, E.s0, "self"), stoich_obj(E, E.s0, "other")))
    heap = all((f in E.s0.heap and E.s1.heap[f] is E.s0.heap[f]) for f in E.s1.heap)
    return [z3.BoolVal(bool(same and heap and E.s1.ghost.get("trace", ()) == () and RAM.smat(E.s1).eq(RAM.smat(E.s0))))]


def _iadd_post(kind):
    def post(E):
        evs = calls(E.s1)
        if not (len(evs) >= 1 and _is_stoich_call(evs[0], E, "add_metabolites")):
            return z3.BoolVal(False)
        rest = evs[1:]
        if kind == "none":
            rule = [z3.BoolVal(len(rest) == 0)]
        else:
            if not (len(rest) == 1 and rest[0][0] == "gene_reaction_rule@setter" and rest[0][1].oid == E["self"].oid
                    and len(rest[0][2]) == 1 and isinstance(rest[0][2][0], (VStr, VConc))):
                return z3.BoolVal(False)
            given = unwrap(rest[0][2][0], "id")
            want = {"both": unwrap(BND.sjoin(["(", VStr(_text(E, "self")), ") and (", VStr(_text(E, "other")), ")"]), "id"),
                    "self": _rule1(E), "other": _rule2(E)}[kind]
            rule = [given == want]
        return z3.And(*(rule + _operands_untouched(E) + _returns_self(E)))
    return post


_IADD_CASES = [
    Case("both_rules", requires=lambda E: z3.And(_rule1(E) != EMPTY, _rule2(E) != EMPTY), ensures=_iadd_post("both")),
    Case("only_own_rule", requires=lambda E: z3.And(_rule1(E) != EMPTY, _rule2(E) == EMPTY), ensures=_iadd_post("self")),
    Case("only_other_rule", requires=lambda E: z3.And(_rule1(E) == EMPTY, _rule2(E) != EMPTY), ensures=_iadd_post("other")),
    Case("no_rule", requires=lambda E: z3.And(_rule1(E) == EMPTY, _rule2(E) == EMPTY), ensures=_iadd_post("none"))]
_calls_only = lambda E: [("ghost", "calls", lambda st: ())]  # noqa

KEY_IADD, KEY_ISUB = "Reaction.__iadd__[recorded_calls]", "Reaction.__isub__[recorded_calls]"
REG.add(Contract(MR, "Reaction.__iadd__", "C02", [("self", _op_t(True)), ("other", _op_t(True))], _IADD_CASES,
                 modifies=_calls_only, key=KEY_IADD, props=["C02", "C12"],
                 note="two different reaction objects (r += r is not covered), in a model or not; self.add_metabolites and the "
                      "gene_reaction_rule setter are RECORDED abstract calls (exact arguments); GPR.to_string() and str.strip() are "
                      "uninterpreted functions of their argument (ASSUMED: they only read)"))


def _isub_post(E):
    evs = calls(E.s1)
    if not (len(evs) == 1 and _is_stoich_call(evs[0], E, "subtract_metabolites")):
        return z3.BoolVal(False)
    return z3.And(*(_operands_untouched(E) + _returns_self(E)))


REG.add(Contract(MR, "Reaction.__isub__", "C02", [("self", _op_t(False)), ("other", _op_t(False))], [Case("any", ensures=_isub_post)],
                 modifies=_calls_only, key=KEY_ISUB, props=["C02", "C12"],
                 note="two different reaction objects; self.subtract_metabolites is a RECORDED abstract call (exact arguments); the "
                      "gene rule is not touched"))

KEYS += [KEY_IADD, KEY_ISUB]


# ================================================================ Reaction.__mul__ / __add__ (= __radd__) / __sub__: symbolic operands
# Here the operands are symbolic references (the shape Reaction.copy is proved for in misc_small: `_model`, `_metabolites`, `_genes`
# are heap fields).  self.copy() / other.copy() are applied BY THE PROVED CONTRACT `Reaction.copy`; the in-place operator on the
# copy is a recorded abstract call that returns its receiver (proved for each of them above: `returns self`).
def _ref_params(eng):
    return [v for v in (getattr(eng, "entry_args", None) or {}).values() if isinstance(v, VRef)]


def new_call_method_hook(eng, st, recv, name, pos, kw):
    if isinstance(recv, VRef) and recv.cls == "Reaction" and name == "copy" and not pos and not kw:
        outs = eng.apply_contract(st, eng.reg.get("Reaction.copy"), [recv], {})
        res = []
        for k, s2, v in outs:
            if k == "ok":
                # ASSUMED (allocation; Reaction.copy's contract states `different from its own operand` only): the object deepcopy
                # returns is not None, different from every operand of the function under verification and from the copies made before
                older = [NULL] + [p.t for p in _ref_params(eng)] + [ev[2][0].t for ev in calls(s2) if ev[0] == "copy"]
                s2 = s2.assume(*[v.t != o for o in older])
                s2 = _record(s2, "copy", recv, (v,), {}, st)
            res.append((k, s2, v))
        return res
    if isinstance(recv, VRef) and recv.cls == "Reaction" and name in ("__iadd__", "__isub__", "__imul__") and len(pos) == 1 and not kw:
        return [("ok", _record(st, name, recv, tuple(pos), {}, st), recv)]
    return None


HOOKS_NEW = {"call_method": new_call_method_hook}


def _copy_pre(E):
    """Reaction.copy's precondition for every reaction operand (type discipline: a reaction is not among its own metabolites / genes)"""
    cs = []
    for v in E.a.values():
        if isinstance(v, VRef) and v.cls == "Reaction":
            cs += [z3.Not(H(E, E.s0, "_metabolites")[v.t][v.t]), z3.Not(H(E, E.s0, "_genes")[v.t][v.t])]
    return z3.And(*cs) if cs else z3.BoolVal(True)


def _is_copy(ev, of):
    return ev[0] == "copy" and isinstance(ev[1], VRef) and ev[1].t.eq(of.t) and len(ev[2]) == 1 and isinstance(ev[2][0], VRef)


def _new_frame(E, copies):
    """the result and the intermediate copy are new objects - different from both operands (from self: by Reaction.copy's proved
    post-condition; from the other operand and from each other: ASSUMED allocation freshness) - and detached; EVERY model pointer
    that existed (operands, their metabolites, their genes, everything else) is as at entry; no other heap field is written at all
    (stoichiometry, gene sets, back references `_reaction`, bounds, identifiers of every existing object: python-level identity of
    the arrays, also checked by the engine's frame)"""
    mo0, mo1 = H(E, E.s0, "_model"), H(E, E.s1, "_model")
    x = qv("fx", Ref)
    ops = [v.t for v in E.a.values() if isinstance(v, VRef)]
    cs = [c != o for c in copies for o in ops] + [mo1[c] == NULL for c in copies] + [c != NULL for c in copies]
    if len(copies) == 2:
        cs.append(copies[0] != copies[1])
    cs.append(FA([x], z3.Implies(z3.And(*[x != c for c in copies]), mo1[x] == mo0[x]), patterns=[mo1[x]]))
    other_heap = all(E.s1.heap[f] is E.s0.heap.get(f, None) or f == "_model" for f in E.s1.heap)
    cs.append(z3.BoolVal(bool(other_heap)))
    return cs


def _new_post(op, with_other):
    """self.copy() [, other.copy()], then exactly one <op> on the FIRST copy with the second copy (resp. the coefficient) as its
    argument; the value returned is what <op> returned = that first copy"""
    def post(E):
        evs = calls(E.s1)
        n = 3 if with_other else 2
        if not (len(evs) == n and _is_copy(evs[0], E["self"]) and (not with_other or _is_copy(evs[1], E["other"]))):
            return z3.BoolVal(False)
        c1 = evs[0][2][0]
        c2 = evs[1][2][0] if with_other else None
        ev = evs[-1]
        arg_ok = (isinstance(ev[2][0], VRef) and ev[2][0].t.eq(c2.t)) if with_other else \
            (isinstance(ev[2][0], VReal) and ev[2][0].k.eq(E["coefficient"].k) and ev[2][0].v.eq(E["coefficient"].v))
        shape = (ev[0] == op and isinstance(ev[1], VRef) and ev[1].t.eq(c1.t) and len(ev[2]) == 1 and arg_ok
                 and isinstance(E.res, VRef) and E.res.t.eq(c1.t))
        return z3.And(*([z3.BoolVal(bool(shape))] + _new_frame(E, [c1.t] + ([c2.t] if with_other else []))))
    return post


def _add_zero_post(E):
    """other == 0 (sum() starts with 0 + reaction -> __radd__(0)): the copy of self is returned, no in-place operator is called"""
    evs = calls(E.s1)
    if not (len(evs) == 1 and _is_copy(evs[0], E["self"]) and isinstance(E.res, VRef) and E.res.t.eq(evs[0][2][0].t)):
        return z3.BoolVal(False)
    return z3.And(*_new_frame(E, [evs[0][2][0].t]))


_new_mod = lambda E: [("heap", "_model"), ("ghost", "calls", lambda st: ())]  # noqa
RXN = TRef("Reaction")
KEY_MUL, KEY_ADD, KEY_SUB = (f"Reaction.{n}[new_object]" for n in ("__mul__", "__add__", "__sub__"))
_zero = Case("other_is_0", ensures=_add_zero_post)
_zero.params_override = {"other": TConc(0)}
_zero.applies = lambda a, st: not isinstance(a["other"], (VRef, VObj))
_two = Case("two_reactions", ensures=_new_post("__iadd__", True))
_two.applies = lambda a, st: isinstance(a["other"], (VRef, VObj))
REG.add(Contract(MR, "Reaction.__mul__", "C12", [("self", RXN), ("coefficient", TReal())], [Case("any", ensures=_new_post("__imul__", False))],
                 pre=_copy_pre, modifies=_new_mod, result=MS.deepcopy_result, key=KEY_MUL, props=["C12", "C02"],
                 note="self.copy() by the proved contract Reaction.copy (relative to the assumed copy.deepcopy); `new *= coefficient` a "
                      "recorded call on the copy (its effect: contract Reaction.__imul__[detached]); allocation freshness ASSUMED"))
REG.add(Contract(MR, "Reaction.__add__", "C12", [("self", RXN), ("other", RXN)], [_two, _zero],
                 pre=_copy_pre, modifies=_new_mod, result=MS.deepcopy_result, key=KEY_ADD, props=["C12", "C02"],
                 note="also Reaction.__radd__ (the class body binds `__radd__ = __add__`: the same function); other a reaction, or the "
                      "integer 0; both copies by the proved contract Reaction.copy; `new_reaction += <copy of other>` a recorded call"))
REG.add(Contract(MR, "Reaction.__sub__", "C12", [("self", RXN), ("other", RXN)], [Case("any", ensures=_new_post("__isub__", True))],
                 pre=_copy_pre, modifies=_new_mod, result=MS.deepcopy_result, key=KEY_SUB, props=["C12", "C02"],
                 note="both copies by the proved contract Reaction.copy; `new -= <copy of other>` a recorded call"))
KEYS_NEW = [KEY_MUL, KEY_ADD, KEY_SUB]


# ================================================================ glue lemma: __imul__(c) followed by its registered undo functions
def lemmas():
    """undo-restores: closed formula over plain arrays built from the very clauses (1), (3b), (4) of the post-condition: the call
    with ANY finite coefficient c (state 0 -> 1; clause (1): the dictionary object D held at entry is not written) followed by the
    three registered functions in last-in-first-out order - setattr(self, "_metabolites", D) (state 1 -> 2: the attribute holds D
    again, whose content is the entry content), self._update_awareness() (every metabolite of the restored stoichiometry lists the
    reaction again) and then _populate_solver([self]) (state 2 -> 3, by the ASSUMED effect on the ghost
    matrix S used in clause (3b), instantiated with the stoichiometry of state 2) - gives back the keys and every coefficient of
    state 0 EXACTLY (no arithmetic: also for c = 0, and without the rounding of x * c * (1.0 / c)), and the solver rows hold the
    coefficients of state 0 again.  The bounds are put back by the `resettable` wrapper of the bounds setter (C03 kernel:
    resettable.wrapper registers partial(setter, self, OLD value) before the setter runs), not by these two functions."""
    from pyvc.engine import Obl
    RB = z3.ArraySort(Ref, z3.BoolSort())
    d0, d1, dD, d2 = (z3.Const("la_d%s" % i, RB) for i in ("0", "1", "D", "2"))
    v0, v1, vD, v2 = (z3.Const("la_v%s" % i, RefReal) for i in ("0", "1", "D", "2"))
    S1, S3 = z3.Const("la_S1", SMat), z3.Const("la_S3", SMat)
    ids = z3.Const("la_ids", z3.ArraySort(Ref, Id))
    f, b = z3.Const("la_f", Ref), z3.Const("la_b", Ref)
    c, one = z3.Real("la_c"), z3.RealVal(1)
    m = qv("lm", Ref)
    # state 0 -> 1: the new dictionary (d1, v1) is the scaled one, the entry dictionary object still holds (dD, vD) == (d0, v0)
    step1 = scale_facts(d0, v0, d1, v1, c) + rows_facts(S1, ids, f, b, d0, v0, c) + [dD == d0, vD == v0]
    # state 1 -> 2: setattr puts the entry dictionary object back: the reaction's stoichiometry is that object's content
    step2 = [d2 == dD, v2 == vD]
    # state 2 -> 2': self._update_awareness() (ASSUMED effect of that three-line method: every key of the stoichiometry - and every gene
    # - lists the reaction afterwards, no other back reference changes): whatever happened to the back references in between (aw1
    # arbitrary), every metabolite of the ENTRY stoichiometry lists the reaction again
    aw1, aw2 = z3.Const("la_aware1", RB), z3.Const("la_aware2", RB)
    step_aw = [FA([m], aw2[m] == z3.Or(aw1[m], d2[m]), patterns=[aw2[m]])]
    # state 2' -> 3: _populate_solver([self]) writes the rows from the stoichiometry of state 2 (rows_facts with coefficient 1)
    step3 = step_aw + rows_facts(S3, ids, f, b, d2, v2, one)
    goal = z3.And(FA([m], z3.And(d2[m] == d0[m], z3.Implies(d0[m], v2[m] == v0[m])), patterns=[d2[m], d0[m]]),
                  FA([m], z3.Implies(d0[m], aw2[m]), patterns=[d0[m]]),
                  FA([m], z3.Implies(d0[m], z3.And(S3[ids[m]][f] == v0[m], S3[ids[m]][b] == -v0[m])), patterns=[d0[m]]))
    return [Obl("C02/lemma/Reaction.__imul__/undo-restores", step1 + step2 + step3, goal, "lemma")]


# ================================================================ Reaction.__iadd__ with the PROVED contract of add_metabolites applied
# at the call site (reaction in a model, no context open, the metabolites of `other` are members of that model)
def _am_env(E, s1=None):
    """the environment of the call self.add_metabolites(other._metabolites, combine=True) [reversibly: default True]"""
    a = {"self": E["self"], "metabolites_to_add": stoich_obj(E, E.s0, "other"), "combine": VBool(z3.BoolVal(True)),
         "reversibly": VBool(z3.BoolVal(True))}
    return Env(a, E.s0, s1, eng=E.eng, role=E.role)


def applied_call_method_hook(eng, st, recv, name, pos, kw):
    s = _entry_self(eng)
    if s is not None and _is_rxn(recv) and recv.oid == s.oid and name == "add_metabolites":
        # by the contract Reaction.add_metabolites[object_keys] PROVED in c02_rxn_add_metabolites: its precondition is obliged, its
        # frame havocked, its post-condition assumed; the call is recorded as well (exact arguments)
        kw2 = {k: (VBool(z3.BoolVal(v.t)) if isinstance(v, VBool) and isinstance(v.t, bool) else v) for k, v in kw.items()}
        outs = eng.apply_contract(st, eng.reg.get(RAM.KEY_OBJ), [recv] + list(pos), kw2)
        return [(k, _record(s2, name, recv, tuple(pos), dict(kw), st) if k == "ok" else s2, v) for k, s2, v in outs]
    return None


HOOKS_APPLIED = chain_hooks({"call_method": applied_call_method_hook}, HOOKS, RAM.HOOKS)


def _applied_pre(E):
    """the precondition of Reaction.add_metabolites[object_keys] for this call (C02 / C01 invariants of the reaction in its model;
    every metabolite of `other` is a member of model.metabolites and points at the model), and no context is open"""
    Ea = _am_env(E)
    return z3.And(RAM._pre_in_model(Ea), RAM._object_keys_are_members(Ea), z3.Not(RAM._has_ctx(Ea)))


def _applied_post(kind):
    def post(E):
        evs = calls(E.s1)
        if not (len(evs) >= 1 and _is_stoich_call(evs[0], E, "add_metabolites")):
            return z3.BoolVal(False)
        rest = evs[1:]
        if kind == "none":
            rule = [z3.BoolVal(len(rest) == 0)]
        else:
            if not (len(rest) == 1 and rest[0][0] == "gene_reaction_rule@setter" and rest[0][1].oid == E["self"].oid
                    and len(rest[0][2]) == 1 and isinstance(rest[0][2][0], (VStr, VConc))):
                return z3.BoolVal(False)
            want = {"both": unwrap(BND.sjoin(["(", VStr(_text(E, "self")), ") and (", VStr(_text(E, "other")), ")"]), "id"),
                    "self": _rule1(E), "other": _rule2(E)}[kind]
            rule = [unwrap(rest[0][2][0], "id") == want]
        Ea = _am_env(E, E.s1)
        # the effect (1)-(3) of add_metabolites with `given` = the stoichiometry of other, combine: final(m) = old(m) + other(m) for a
        # common metabolite, other(m) for a new one, old(m) for one that other does not have; zero results dropped; back references
        # and solver rows follow; nothing registered
        effect = RAM._post_effect(Ea, RAM.ObjectKeys) + [RAM._no_undo(Ea)]
        o, od = E["other"], stoich_obj(E, E.s0, "other")
        other_same = E.s1.objs[o.oid] is E.s0.objs[o.oid] and E.s1.objs[od.oid] is E.s0.objs[od.oid]
        # self._metabolites is still the dictionary OBJECT it was (the effect clauses above speak about that object), and no other
        # attribute of self was rebound
        self_same = all(v is E.s0.objs[E["self"].oid].get(k) for k, v in E.s1.objs[E["self"].oid].items() if k.startswith("attr:"))
        return z3.And(*(rule + effect + [z3.BoolVal(bool(other_same)), z3.BoolVal(bool(self_same))] + _returns_self(E)))
    return post


def _applied_t():
    return TObj("Reaction", {"_model": RAM.AM._model_t(), "_metabolites": TDict(MET, "real"), "_gpr": TRef("GPR")})


KEY_IADD_APPLIED = "Reaction.__iadd__[in_model:no_context]"
REG.add(Contract(MR, "Reaction.__iadd__", "C02", [("self", _applied_t()), ("other", _op_t(True))], [
    Case(c.name, requires=c.requires, ensures=_applied_post(k)) for c, k in zip(_IADD_CASES, ("both", "self", "other", "none"))],
    pre=_applied_pre, modifies=lambda E: RAM._modifies(_am_env(E)) + _calls_only(E), key=KEY_IADD_APPLIED, props=["C02", "C12", "C01"],
    note="reaction IN a model, NO context open, every metabolite of `other` is a member of that model: the call "
         "self.add_metabolites(other._metabolites, combine=True) is replaced by the contract Reaction.add_metabolites[object_keys] "
         "proved in c02_rxn_add_metabolites (precondition obliged, post-condition assumed); the rule setter stays a recorded call"))
KEYS_APPLIED = [KEY_IADD_APPLIED]


# ================================================================ Reaction.__isub__ with subtract_metabolites EXECUTED (real source, one
# statement) and the PROVED contract of add_metabolites applied to the call it makes (reaction in a model, no context open)
class NegatedOther:
    """the argument of the inner add_metabolites call seen as a map over metabolites, in terms of `other`: the keys of
    other._metabolites, each with the NEGATED coefficient (pos[m] >= 0 holds for every key: it names the key's place in the
    enumeration the comprehension of subtract_metabolites ran over)"""
    tag = "negated_other"

    @staticmethod
    def _rec(E):
        return E.s0.objs[E["other_dict"].oid]

    @staticmethod
    def has(E, m):
        rec = NegatedOther._rec(E)
        order, pos, card = E["order"]
        return z3.And(rec["dom"][m], pos[m] >= 0)

    @staticmethod
    def coef(E, m):
        return -NegatedOther._rec(E)["val"][m]

    @staticmethod
    def key(E, m):
        return m


def isub_call_method_hook(eng, st, recv, name, pos, kw):
    s = _entry_self(eng)
    if s is not None and _is_rxn(recv) and recv.oid == s.oid and name == "subtract_metabolites":
        st2 = _record(st, name, recv, tuple(pos), dict(kw), st)
        return RAM._inline_method(eng, st2, "Reaction", "subtract_metabolites", [recv] + list(pos), kw)   # the real method
    return None


HOOKS_ISUB_APPLIED = chain_hooks({"call_method": isub_call_method_hook}, HOOKS_APPLIED)


def _isub_applied_post(E):
    evs = calls(E.s1)
    if not (len(evs) == 2 and _is_stoich_call(evs[0], E, "subtract_metabolites")):
        return z3.BoolVal(False)
    ev = evs[1]
    od = stoich_obj(E, E.s0, "other")
    inner_ok = (ev[0] == "add_metabolites" and ev[1].oid == E["self"].oid and len(ev[2]) == 1 and isinstance(ev[2][0], VObj)
                and ev[2][0].kind == "dict" and ev[2][0].oid not in (od.oid, stoich_obj(E).oid)       # a NEW dictionary
                and set(ev[3]) == {"combine", "reversibly"} and all(_is_true_flag(v) for v in ev[3].values()))
    key = ("order", od.oid, E.s0.objs[od.oid]["dom"].get_id())
    if not inner_ok or key not in E.s1.ghost:
        return z3.BoolVal(False)
    Ea = _am_env(E, E.s1)
    Ea.a["other_dict"], Ea.a["order"] = od, E.s1.ghost[key]
    # the effect (1)-(3) of add_metabolites with given(m) = -other(m), combine: final(m) = old(m) - other(m) for a common
    # metabolite, -other(m) for one the reaction did not have, old(m) for one that other does not have; zero results dropped
    effect = RAM._post_effect(Ea, NegatedOther) + [RAM._no_undo(Ea)]
    o = E["other"]
    other_same = E.s1.objs[o.oid] is E.s0.objs[o.oid] and E.s1.objs[od.oid] is E.s0.objs[od.oid]
    self_same = all(v is E.s0.objs[E["self"].oid].get(k) for k, v in E.s1.objs[E["self"].oid].items() if k.startswith("attr:"))
    return z3.And(*(effect + [z3.BoolVal(bool(other_same)), z3.BoolVal(bool(self_same))] + _returns_self(E)))


KEY_ISUB_APPLIED = "Reaction.__isub__[in_model:no_context]"
REG.add(Contract(MR, "Reaction.__isub__", "C02", [("self", _applied_t()), ("other", _op_t(False))],
                 [Case("any", ensures=_isub_applied_post)],
                 pre=_applied_pre, modifies=lambda E: RAM._modifies(_am_env(E)) + _calls_only(E), key=KEY_ISUB_APPLIED,
                 props=["C02", "C12", "C01"],
                 note="reaction IN a model, NO context open, every metabolite of `other` is a member of that model: "
                      "subtract_metabolites is EXECUTED from its real source and the add_metabolites call it makes is replaced by the "
                      "contract Reaction.add_metabolites[object_keys] proved in c02_rxn_add_metabolites"))
KEYS_ISUB_APPLIED = [KEY_ISUB_APPLIED]


# ================================================================ what props/C02.py / props/C12.py wire in
HOOKS_APPLIED = HOOKS_ISUB_APPLIED                     # one table serves both [in_model:no_context] contracts
KEYS_APPLIED = [KEY_IADD_APPLIED, KEY_ISUB_APPLIED]
GROUPS = [(KEYS, HOOKS), (KEYS_NEW, HOOKS_NEW), (KEYS_APPLIED, HOOKS_APPLIED)]
ALL_KEYS = KEYS + KEYS_NEW + KEYS_APPLIED
