"""C03 / C02 - Model.remove_metabolites(metabolite_list, destructive) WITH a context open (`model._contexts` non-empty).

Documented: "Remove a list of metabolites from the the object.  The change is reverted upon exit when using the model as a context."
This module ADDS the in-context cases to what contracts/c02_remove_metabolites.py proves without a context: it imports and reuses that
module's specification functions (`_pre`, `_post`, `_effects`, the loop invariants, `_mod`, its hook table and ASSUMED callee effects)
unchanged and registers a SECOND contract for the same function under the key `Model.remove_metabolites[context]` (KEYS), hook table
`HOOKS`, glue lemmas `lemmas()`.  Cases as there: a list or ONE metabolite, keeping the reactions or destructive.

PROVED, for argument lists, models, groups and reaction sets of any size, any depth of the context stack:
  (A) everything the no-context contract proves about the final state (the very same formulas, see that module).
  (B) the undo registrations (symbolic ghost trace `rmu`: entry j = (kind, metabolite, group, manager); witness maps updated at
      every registration).  With "handled" = the listed metabolites whose identifier is in the model, q = the number of GADD entries
      and m = the number of handled metabolites the trace is
        [0, q)       GADD  partial(g.add_members, [x])            x handled, g a group of model.groups with x in g._members at entry
                           (exactly where `g.remove_members([x])` was executed), THE entry for (x, g) - nothing twice; and
                           conversely one for EVERY group of the model that contained a handled metabolite at entry;
        q            IADD  partial(self.metabolites.__iadd__, L)  registered on the model's own DictList object; L (read in the
                           EXIT state: the captured list object has not been touched after the registration) holds exactly the
                           handled metabolites, pairwise different;
        q+1 .. q+m   SETM  partial(setattr, x, "_model", self)    entry q+1+k for the k-th element of L, the value is the model;
      n = q + 1 + m: nothing else, nothing twice, and EVERY entry is made in the INNERMOST context (the manager get_context
      returned = the last element of model._contexts).
      The constraints handed to Model.remove_cons_vars are restored by THAT callee's own registration (a recorded call here;
      remove_cons_vars_from_problem is proved under C03 to register exactly partial(solver.add, what) in the innermost context).
      keep_reactions: each call r.subtract_metabolites({x: c}) is made WITHOUT a `reversibly` argument (the hook accepts no keyword),
      i.e. with the default True: what it registers is that callee's business (contracts/c02_rxn_add_metabolites.py proves: exactly
      one undo, add back the very same dictionary, in the innermost context of the reaction's model).  destructive:
      r.remove_from_model() = Model.remove_reactions([r]) whose registrations are proved in contracts/c02_remove_reactions_ctx.py.
  (C) glue lemmas `undo-restores:{metabolites-content, model-pointers, group-members}` for the two list cases (closed formulas whose
      hypotheses are the very pre- and post-condition of this contract on a synthetic pair of states): replaying the registered undos
      on the exit state gives back the ENTRY views - membership in model.metabolites (as a set of objects), `_model` of every object
      that is not a removed reaction (destructive: those are restored by remove_reactions' own registrations), every `_members` entry
      that is not FOR a removed reaction.  Closed form of the replay as in c02_remove_reactions_ctx (each SETM / IADD / GADD entry
      writes cells of one view with a constant, so the order does not matter); NOT proved: the induction over the trace that connects
      HistoryManager.reset's `run` with this closed form.  `model-pointers` has one more hypothesis, stated in the lemma: every
      handled metabolite pointed at the model at entry (C02 invariant of a member of model.metabolites).

FINDING (reproduced natively; outside the stated precondition `a listed metabolite whose identifier is in the model IS the model's
metabolite`): inside `with m:`, m.remove_metabolites([m.metabolites.b, Metabolite("a")]) raises ValueError from DictList.__isub__
AFTER the loop has set b._model = None and BEFORE the SETM entries are registered (they are registered at the very end): after the
block b is still a member of m.metabolites with `_model is None`.  A change whose inverse is registered too late.

PRECONDITIONS (stated, not proved here): those of the no-context contract with `no context open` replaced by `at least one context
open, the stack holds managers (never None)`; the pairwise difference of the listed objects is stated through a ghost inverse map
(`APOS[list[k]] == k`: such a map exists iff the items are pairwise different); list:destructive: type discipline - a reaction
listed by a listed metabolite is not itself a listed metabolite.
ASSUMED: everything the no-context contract assumes (the effects of Reaction.subtract_metabolites / Reaction.remove_from_model,
remove_cons_vars a recorded call, solver.constraints[id] total); `context(f)` = HistoryManager.__call__ by its proved contract,
recorded; at the call site of Model.get_associated_groups(x): its proved post-condition PLUS the consequence `the returned list has no
duplicates` (ghost inverse map), which follows from the proved clause `strictly increasing source positions` for a well-formed
model.groups by an induction this module does not carry out (the same assumption as in c02_remove_reactions_ctx) - needed for
`nothing twice` among the GADD entries only.
Engine: NO change of pyvc.  contracts/c02_remove_metabolites.py: its hooks now also answer for this contract's key (one line).
The trace clauses are stated under a FREE Boolean constant (`GATE -> clause`, see `_gated`): proved for both of its values, hence for
True; this keeps the trace quantifiers out of the way in the obligations that restate the no-context post-condition.

Mutation trials (tools/mutate_and_run.sh cobra/core/model.py ... contracts.c02_remove_metabolites_ctx --hooks HOOKS
"Model.remove_metabolites[context]"), each NOT verified (named obligations `unknown`) in all four cases:
  R1 the group undo skipped (`pass`)                                          loop#1/inv-preserve.7 .9 (+ list:keep post.19)
  R2 the SETM registration skipped (`pass`)                                   loop#4/inv-preserve.2 .5 .6 (list), post.24-.32 (one)
  R3 __iadd__ registered with metabolite_list[1:] (off by one)                exit=return#1/post.22-.25, .30-.32
  R4 the group undo registered twice                                          loop#1/inv-preserve.7 .9 .10
  R5 the inner loop runs over self.groups instead of associated_groups (an
     undo for a membership that did not exist)                                loop#1/inv-init.1, inv-preserve.2 .9 .10
Lemma guards: `False` does not follow from the lemma hypotheses, the negated goals are not provable, `model-pointers` is not provable
without its extra hypothesis.
"""
import z3
import cobra  # noqa
from .common import *  # noqa
from . import c02_remove_metabolites as RM
from . import c03_context as C3

MM = RM.MM
KEY = "Model.remove_metabolites[context]"
KEYS = [KEY]
I_ = z3.IntSort()
B_ = z3.BoolSort()
Hh = RM.Hh


def A_(*sorts):
    s = sorts[-1]
    for d in reversed(sorts[:-1]):
        s = z3.ArraySort(d, s)
    return s


# ---------------------------------------------------------------- undo registrations: a symbolic ghost trace
K_GADD, K_IADD, K_SETM = 1, 2, 3
CORE = (("n", I_), ("kind", A_(I_, I_)), ("arg", A_(I_, Ref)), ("arg2", A_(I_, Ref)), ("ctx", A_(I_, Ref)))
WH = {"rmu_whG": A_(Ref, Ref, I_), "rmu_whM": A_(Ref, I_), "rmu_gpos": A_(Ref, I_)}
FS = ("kind", "arg", "arg2", "ctx")


def _g0(key):
    if key in WH:
        return z3.Const(key + "_0", WH[key])
    d = {nm: z3.Const(f"{key}0_{nm}", srt) for nm, srt in CORE}
    d["n"] = z3.IntVal(0)
    return d


_G0 = {k: _g0(k) for k in ["rmu"] + list(WH)}


def gh(st, key):
    v = st.ghost.get(key)
    return v if v is not None else _G0[key]


def _havoc(key):
    def mk(st):
        if key in WH:
            return fresh(key, WH[key])
        return {nm: fresh(f"{key}_{nm}", srt) for nm, srt in CORE}
    return ("ghost", key, mk)


ALL_GHOST = [_havoc("rmu")] + [_havoc(k) for k in WH] + [("ghost", "rmu_iadd", lambda st: None)]
GATE = z3.Bool("rmc_trace_clauses")
from pyvc import solve as _solve  # noqa: E402
_solve.GATES.add("rmc_trace_clauses")      # see pyvc/solve.py gate_filter
# Every clause about the ghost trace is stated as `GATE -> clause` with GATE a FREE Boolean constant that nothing constrains: the
# obligations are proved for both of its values, in particular for True (the lemmas take the post-condition with GATE = True).
# Purpose: in the obligations that restate the no-context post-condition the solver may leave the trace quantifiers inactive.


def _gated(cs):
    return [z3.Implies(GATE, c) for c in cs]


def _mine(eng):
    return getattr(eng.cur_contract, "key", None) == KEY


def _list1(st, v):
    if isinstance(v, VObj) and v.kind == "list":
        rec = st.objs[v.oid]
        n = z3.simplify(rec["len"]) if "len" in rec else None
        if n is not None and z3.is_int_value(n) and n.as_long() == 1 and str(rec.get("ekind", "")).startswith("ref"):
            return z3.simplify(z3.Select(rec["elem"], 0))
    return None


def _classify(eng, st, f):
    model = eng.entry_args.get("self")
    if isinstance(f, VFunc) and f.kind == "partial" and not f.c and isinstance(model, VObj):
        a, b = f.a, tuple(f.b)
        ml = st.objs[model.oid].get("attr:metabolites")
        if isinstance(a, VFunc) and a.kind == "builtin" and a.a == "setattr" and len(b) == 3 and isinstance(b[0], VRef) \
                and isinstance(b[1], VConc) and b[1].py == "_model" and isinstance(b[2], VObj) and b[2].oid == model.oid:
            return K_SETM, b[0].t, NULL, None
        if isinstance(a, VFunc) and a.kind == "bound" and len(b) == 1:
            recv, name = a.a, a.b
            if isinstance(recv, VObj) and isinstance(ml, VObj) and recv.oid == ml.oid and name == "__iadd__" \
                    and isinstance(b[0], VObj) and b[0].kind == "list":
                return K_IADD, NULL, NULL, b[0]
            if isinstance(recv, VRef) and recv.cls == "Group" and name == "add_members":
                x = _list1(st, b[0])
                if x is not None:
                    return K_GADD, x, recv.t, None
    raise Unsupported(f"undo registration of an unrecognised function {f!r}"[:200])


def call_object_hook(eng, st, f, pos, kw):
    """context(undo): HistoryManager.__call__ by its contract (C03); the event is recorded in the symbolic ghost trace"""
    if _mine(eng) and isinstance(f, VRef) and f.cls == "HistoryManager" and len(pos) == 1 and not kw:
        kind, x, y, payload = _classify(eng, st, pos[0])
        T = dict(gh(st, "rmu"))
        n = T["n"]
        T.update(n=n + 1, kind=z3.Store(T["kind"], n, z3.IntVal(kind)), arg=z3.Store(T["arg"], n, x), arg2=z3.Store(T["arg2"], n, y),
                 ctx=z3.Store(T["ctx"], n, f.t))
        if kind == K_GADD:
            w = gh(st, "rmu_whG")
            st = st.setghost("rmu_whG", z3.Store(w, x, z3.Store(w[x], y, n)))
        elif kind == K_SETM:
            st = st.setghost("rmu_whM", z3.Store(gh(st, "rmu_whM"), x, n))
        else:
            if st.ghost.get("rmu_iadd") is not None:
                raise Unsupported("a second __iadd__ registration")
            st = st.setghost("rmu_iadd", {"at": n, "list": payload})
        return [("ok", st.setghost("rmu", T), NONE)]
    return None


def call_method_hook(eng, st, recv, name, pos, kw):
    if not _mine(eng):
        return None
    model = eng.entry_args.get("self")
    if isinstance(recv, VObj) and recv.oid == model.oid and name == "get_associated_groups" and len(pos) == 1 and not kw:
        # as the no-context module does it, plus an ASSUMED consequence of the proved post-condition: no duplicates (ghost inverse map)
        res = []
        for k_, s_, v_ in RM.call_method_hook(eng, st, recv, name, pos, kw):
            if k_ == "ok" and isinstance(v_, VObj):
                gn, ge = L(s_, v_)
                gpos, w = fresh("rmu_gpos", WH["rmu_gpos"]), qv("gw")
                s_ = s_.assume(FA([w], z3.Implies(z3.And(0 <= w, w < gn), gpos[z3.Select(ge, w)] == w), patterns=[z3.Select(ge, w)]))
                s_ = s_.setghost("rmu_gpos", gpos)
            res.append((k_, s_, v_))
        return res
    return None


HOOKS = chain_hooks({"call_object": call_object_hook, "call_method": call_method_hook}, RM.HOOKS)


# ---------------------------------------------------------------- specification
APOS = z3.Const("rmc_argpos", A_(Ref, I_))      # ghost inverse of the argument list (exists iff the items are pairwise different)


def _top(E):
    nc, ec = C3._ctxs(E.s0, E["self"])
    return ec[nc - 1]


def _me(E):
    from pyvc.values import ident_of
    return ident_of(E["self"].oid)


def _pre(E):
    nc = C3._ctxs(E.s0, E["self"])[0]
    base = RM._pre(E)
    kept = [c for c in base.children() if not c.eq(nc == 0)]
    assert z3.is_and(base) and len(kept) == base.num_args() - 1, "c02_remove_metabolites._pre: the `no context` conjunct was not found"
    extra = [nc > 0, C3._ctx_nonnull(E, "self")]
    A = RM._Arg(E)
    if A.single is None:
        j = qv("aj")
        extra.append(FA([j], z3.Implies(z3.And(0 <= j, j < A.n), APOS[z3.Select(A.e, j)] == j), patterns=[z3.Select(A.e, j)]))
        if RM._is_destructive(E):
            # type discipline: a reaction listed by a listed metabolite is not itself a listed metabolite (a Reaction is no Metabolite)
            r, R0 = qv("tr", Ref), Hh(E, E.s0, "_reaction")
            extra.append(FA([j, r], z3.Implies(z3.And(0 <= j, j < A.n, R0[z3.Select(A.e, j)][r]), z3.Not(_handled(E, r))),
                            patterns=[R0[z3.Select(A.e, j)][r]]))
    return z3.And(*(kept + extra))


def _handled(E, x):
    """RM._handled without the existential"""
    A = RM._Arg(E)
    if A.single is not None:
        return z3.And(x == A.single, RM._present(E, x))
    return z3.And(0 <= APOS[x], APOS[x] < A.n, z3.Select(A.e, APOS[x]) == x, RM._present(E, x))


def _gadd_entries(E, st, arr, lo, hi, q, upto=None):
    """entries [0, q) of the trace in state st are the GADD registrations of the handled metabolites arr[lo..hi)"""
    T, whG = gh(st, "rmu"), gh(st, "rmu_whG")
    kd, ar, a2, cx = (T[f] for f in FS)
    mem0 = Hh(E, E.s0, "_members")
    ng, eg = L(E.s0, RM._grps(E))
    j, k, jg, g = qv("gj"), qv("gk"), qv("gjg"), qv("gg", Ref)
    ak, gg = z3.Select(arr, k), z3.Select(eg, jg)
    has = lambda x_, g_: z3.And(0 <= whG[x_][g_], whG[x_][g_] < q, kd[whG[x_][g_]] == K_GADD, ar[whG[x_][g_]] == x_, a2[whG[x_][g_]] == g_)  # noqa
    cs = [q >= 0,
          FA([j], z3.Implies(z3.And(0 <= j, j < q),
                             z3.And(kd[j] == K_GADD, cx[j] == _top(E), _handled(E, ar[j]), RM._in_groups(E, a2[j]), mem0[a2[j]][ar[j]],
                                    whG[ar[j]][a2[j]] == j)), patterns=[kd[j], ar[j]]),
          FA([k, jg], z3.Implies(z3.And(lo <= k, k < hi, 0 <= jg, jg < ng, mem0[gg][ak]), has(ak, gg)), patterns=[mem0[gg][ak]])]
    if upto is not None:
        mem = Hh(E, st, "_members")
        cs += [FA([k], z3.Implies(z3.And(0 <= k, k < upto), _handled(E, ak)), patterns=[ak]),       # helper (the list is not modified)
               FA([k, g], z3.Implies(z3.And(hi <= k, k < upto), z3.Not(z3.And(0 <= whG[ak][g], whG[ak][g] < q, ar[whG[ak][g]] == ak))),
                  patterns=[whG[ak][g]]),
               # the memberships of the metabolites still to come are as at entry
               FA([k, g], z3.Implies(z3.And(hi <= k, k < upto), mem[g][ak] == mem0[g][ak]), patterns=[mem[g][ak]])]
    return _gated(cs)


def _ctx_of(Lc):
    c = Lc.var("context")
    if not isinstance(c, VRef):
        raise Unsupported("the local `context` is not a manager")
    return c.t


def _inv0(E, Lc):
    m, fe = RM._flist(Lc)
    T = gh(Lc.st, "rmu")
    return z3.And(RM._inv0_any(E, Lc), _ctx_of(Lc) == _top(E), z3.BoolVal(Lc.st.ghost.get("rmu_iadd") is None),
                  *_gadd_entries(E, Lc.st, fe, 0, Lc.i, T["n"], upto=m))


def _prefix_kept(st, en):
    T, TA = gh(st, "rmu"), gh(en, "rmu")
    j = qv("pj")
    return [T["n"] >= TA["n"],
            FA([j], z3.Implies(z3.And(0 <= j, j < TA["n"]), z3.And(*[T[f][j] == TA[f][j] for f in FS])), patterns=[T[f][j] for f in FS])]


def _inv_groups(E, Lc):
    """loop over associated_groups: entry nA + w is the GADD of the w-th group"""
    st, en, i = Lc.st, Lc.entry, Lc.i
    x, c = Lc.var("x").t, _ctx_of(Lc)
    gn, ge = L(st, Lc.var("associated_groups"))
    T, TA = gh(st, "rmu"), gh(en, "rmu")
    n, kd, ar, a2, cx = T["n"], T["kind"], T["arg"], T["arg2"], T["ctx"]
    nA = TA["n"]
    whG, whGA = gh(st, "rmu_whG"), gh(en, "rmu_whG")
    j, y, w = qv("qj"), qv("qy", Ref), qv("qw")
    gw = z3.Select(ge, w)
    cs = _prefix_kept(st, en) + [
        n == nA + i,
        FA([y], z3.Implies(y != x, whG[y] == whGA[y]), patterns=[whG[y]]),
        FA([w], z3.Implies(z3.And(0 <= w, w < i), whG[x][gw] == nA + w), patterns=[gw]),
        FA([j], z3.Implies(z3.And(nA <= j, j < n),
                           z3.And(kd[j] == K_GADD, ar[j] == x, cx[j] == c, a2[j] == z3.Select(ge, j - nA), whG[x][a2[j]] == j)),
           patterns=[kd[j], ar[j]])]
    return z3.And(RM._inv_groups(E, Lc), *_gated(cs))


def _setm_entries(st, arr, lo, cnt, base, ctx):
    T, whM = gh(st, "rmu"), gh(st, "rmu_whM")
    kd, ar, cx = T["kind"], T["arg"], T["ctx"]
    k, j = qv("nk"), qv("nj")
    ak = z3.Select(arr, k)
    return _gated([FA([k], z3.Implies(z3.And(lo <= k, k < lo + cnt), whM[ak] == base + k - lo), patterns=[ak]),
                   FA([j], z3.Implies(z3.And(base <= j, j < base + cnt),
                                      z3.And(kd[j] == K_SETM, cx[j] == ctx, ar[j] == z3.Select(arr, j - base + lo), whM[ar[j]] == j)),
                      patterns=[kd[j], ar[j]])])


def _inv_setm(E, Lc):
    m, fe = RM._flist(Lc)
    st, en = Lc.st, Lc.entry
    nA = gh(en, "rmu")["n"]
    return z3.And(Lc.n == m, *(_gated([gh(st, "rmu")["n"] == nA + Lc.i] + _prefix_kept(st, en))
                               + _setm_entries(st, fe, 0, Lc.i, nA, _ctx_of(Lc))))


def _captured_list(E):
    isub = E.s1.ghost.get("rmu_iadd")
    if not isinstance(isub, dict):
        return None
    rec = E.s1.objs[isub["list"].oid]                      # the captured list as it is in the EXIT state
    if rec.get("untyped") or not str(rec.get("ekind", "")).startswith("ref"):
        return None
    return isub["at"], rec["len"], rec["elem"]


def _trace_post(E):
    st = E.s1
    cap = _captured_list(E)
    if cap is None:
        return [z3.BoolVal(False)]
    q, lm, le = cap
    T = gh(st, "rmu")
    k3, k4 = qv("tk3"), qv("tk4")
    distinct = FA([k3, k4], z3.Implies(z3.And(0 <= k3, k3 < k4, k4 < lm), z3.Select(le, k3) != z3.Select(le, k4)),
                  patterns=[z3.MultiPattern(z3.Select(le, k3), z3.Select(le, k4))])
    return _gated(RM._is_filtered(E, le, 0, lm) + [distinct, T["n"] == q + 1 + lm, T["kind"][q] == K_IADD, T["ctx"][q] == _top(E)]) \
        + _gadd_entries(E, st, le, 0, lm, q) + _setm_entries(st, le, 0, lm, q + 1, _top(E))


def _post(destructive):
    base = RM._post(destructive)
    return lambda E: z3.And(base(E), *_trace_post(E))


def _mod(E):
    return RM._mod(E) + ALL_GHOST


def _loop_mod(E, Lc):
    return RM._loop_mod(E, Lc) + [_havoc("rmu"), _havoc("rmu_whG"), _havoc("rmu_gpos")]


_cases = []
for _tag, _t in (("list", TList("ref:Metabolite")), ("one_metabolite", TRef("Metabolite"))):
    _cases.append(RM._pc(Case(f"{_tag}:keep_reactions", ensures=_post(False)), metabolite_list=_t, destructive=TConc(False)))
    _cases.append(RM._pc(Case(f"{_tag}:destructive", ensures=_post(True)), metabolite_list=_t, destructive=TConc(True)))

_RMC = REG.get("Model.remove_metabolites")
REG.add(Contract(MM, "Model.remove_metabolites", "C03",
                 [("self", RM._model_t()), ("metabolite_list", TList("ref:Metabolite")), ("destructive", TBool())], _cases,
                 pre=_pre, modifies=_mod, key=KEY, props=["C03", "C02"],
                 loops={0: LoopSpec(_inv0, _loop_mod),
                        1: LoopSpec(_inv_groups, lambda E, Lc: [("heap", "_members"), _havoc("rmu"), _havoc("rmu_whG")]),
                        2: _RMC.loops[2], 3: _RMC.loops[3],
                        4: LoopSpec(_inv_setm, lambda E, Lc: [_havoc("rmu"), _havoc("rmu_whM")])},
                 note="a context is open (any depth; the stack holds managers); otherwise the preconditions and ASSUMED callee effects "
                      "of Model.remove_metabolites (see there); the list returned by Model.get_associated_groups is ASSUMED free of "
                      "duplicates at the call site (consequence of its proved post-condition for a well-formed model.groups, induction "
                      "not carried out); what remove_cons_vars / subtract_metabolites (called with the default reversibly=True) / "
                      "remove_from_model register themselves is those callees' business"))


# ---------------------------------------------------------------- glue lemmas: the registered undos reverse the change
def lemmas():
    """undo-restores for the two list cases: closed formulas over the very pre- and post-condition of the contract (GATE = True) on a
    synthetic pair of states"""
    from pyvc.engine import Engine, Obl, flatten_and
    from pyvc.state import State, alloc_list
    from pyvc.loops import havoc_locations
    out = []
    for tag, destructive in (("keep_reactions", False), ("destructive", True)):
        eng = Engine(REG, HOOKS)
        st, a = State(), {}
        for name, t in (("self", RM._model_t()), ("metabolite_list", TList("ref:Metabolite")), ("destructive", TConc(destructive))):
            st, a[name] = t.make(st, f"lrm{int(destructive)}_" + name)
        st = st.assume(*eng.kind_axioms(st))
        s1 = havoc_locations(eng, st, _mod(Env(a, st, eng=eng)))
        # exit-state ghosts the post-condition reads: the one remove_cons_vars call, the captured list of the __iadd__ registration
        s1, tr_l = alloc_list(s1, "ref:Constraint")
        s1, cap = alloc_list(s1, "ref:Metabolite")
        s1 = s1.setghost("rm_trace", (("remove_cons_vars", (tr_l,), (), s1),)).setghost(
            "rmu_iadd", {"at": z3.Int(f"lrm{int(destructive)}_iadd_at"), "list": cap})
        E = Env(a, st, s1, eng=eng)
        ids = idarr(E, st)

        def member(s):
            n_, e_ = L(s, RM._mets(E, s))
            dom_, val_ = Dv(s, RM._mets(E, s))
            return lambda v: z3.And(z3.Select(dom_, ids[v]), z3.Select(e_, z3.Select(val_, ids[v])) == v)
        in0, in1 = member(st), member(s1)
        mo0, mo1 = Hh(E, st, "_model"), Hh(E, s1, "_model")
        M0, M1 = Hh(E, st, "_members"), Hh(E, s1, "_members")
        mo_f, in_f = z3.Const(f"lrm{int(destructive)}_model_after_undo", mo0.sort()), z3.Const(f"lrm{int(destructive)}_listed_after_undo", A_(Ref, B_))
        M_f = z3.Const(f"lrm{int(destructive)}_members_after_undo", M0.sort())
        T = gh(s1, "rmu")
        n, kd, ar, a2 = T["n"], T["kind"], T["arg"], T["arg2"]
        lm, le = s1.objs[cap.oid]["len"], s1.objs[cap.oid]["elem"]
        whM, whG = gh(s1, "rmu_whM"), gh(s1, "rmu_whG")
        j, k, x, g = qv("rj"), qv("rk"), qv("rx", Ref), qv("rg", Ref)
        in_n = z3.And(0 <= j, j < n)
        in_l = lambda v: z3.Exists([k], z3.And(0 <= k, k < lm, le[k] == v))  # noqa
        replay = [
            # SETM: `_model[x] := model`
            FA([j], z3.Implies(z3.And(in_n, kd[j] == K_SETM), mo_f[ar[j]] == _me(E)), patterns=[kd[j]]),
            FA([x], z3.Implies(mo_f[x] != mo1[x], z3.Exists([j], z3.And(in_n, kd[j] == K_SETM, ar[j] == x))), patterns=[mo_f[x]]),
            # IADD (DictList.__iadd__ by its C15 contract): the members of the captured list join, the others stay as they are
            FA([k], z3.Implies(z3.And(0 <= k, k < lm), in_f[le[k]]), patterns=[le[k]]),
            FA([x], z3.Implies(z3.Not(in_l(x)), in_f[x] == in1(x)), patterns=[in_f[x]]),
            # GADD (Group.add_members by its proved contract): `x in g._members := True`
            FA([j], z3.Implies(z3.And(in_n, kd[j] == K_GADD), M_f[a2[j]][ar[j]]), patterns=[kd[j]]),
            FA([g, x], z3.Implies(M1[g][x], M_f[g][x]), patterns=[M_f[g][x]]),
            FA([g, x], z3.Implies(z3.And(M_f[g][x], z3.Not(M1[g][x])), z3.Exists([j], z3.And(in_n, kd[j] == K_GADD, ar[j] == x, a2[j] == g))),
               patterns=[M_f[g][x]]),
            # term introduction (tautologies): the trace entries the witness maps point at
            FA([x], kd[whM[x]] == kd[whM[x]], patterns=[mo_f[x]]),
            FA([g, x], kd[whG[x][g]] == kd[whG[x][g]], patterns=[M_f[g][x]])]
        # a SUBSET of the post-condition's conjuncts (fewer hypotheses: a stronger lemma): those with a trigger
        post = [c for c in flatten_and(_post(destructive)(E)) if not (z3.is_quantifier(c) and c.num_patterns() == 0)]
        # the dropped conjunct `every handled metabolite is an element of L` once more, instantiated at the elements of the argument
        # (all of its instances that matter), with a trigger
        Aa = RM._Arg(E)
        ja = qv("la")
        post.append(FA([ja], z3.Implies(z3.And(0 <= ja, ja < Aa.n, RM._present(E, z3.Select(Aa.e, ja))), RM._done(le, 0, lm, z3.Select(Aa.e, ja))),
                       patterns=[z3.Select(Aa.e, ja)]))
        # the SETM clause instantiated at entry q + 1 + k (an instance of the post-condition's clause over the trace positions)
        qq = s1.ghost["rmu_iadd"]["at"]
        post.append(FA([k], z3.Implies(z3.And(0 <= k, k < lm), z3.And(kd[qq + 1 + k] == K_SETM, ar[qq + 1 + k] == le[k])), patterns=[le[k]]))
        hyps = list(st.pc) + list(s1.pc) + flatten_and(_pre(E)) + [GATE] + post + replay
        # C02 invariant of a member: every handled metabolite pointed at the model at entry (hypothesis of `model-pointers`)
        at_model = FA([k], z3.Implies(z3.And(0 <= k, k < lm), mo0[le[k]] == _me(E)), patterns=[le[k]])
        cl = RM.calls(s1)
        kept = (lambda v: z3.BoolVal(True)) if not destructive else (lambda v: cl[v] == 0)   # not a removed reaction
        goals = {"metabolites-content": (FA([x], in_f[x] == in0(x), patterns=[in_f[x]]), []),
                 "model-pointers": (FA([x], z3.Implies(kept(x), mo_f[x] == mo0[x]), patterns=[mo_f[x]]), [at_model]),
                 "group-members": (FA([g, x], z3.Implies(kept(x), M_f[g][x] == M0[g][x]), patterns=[M_f[g][x]]), [])}
        out += [Obl(f"C03/lemma/remove_metabolites/{tag}/undo-restores:{nm}", hyps + extra, gl, "lemma") for nm, (gl, extra) in goals.items()]
        probe = z3.Solver()
        probe.set("timeout", 5000)
        probe.add(*(hyps + [at_model]))
        if probe.check() == z3.unsat:
            raise RuntimeError("c02_remove_metabolites_ctx.lemmas: contradictory hypotheses (vacuous lemma)")
    return out
