"""C02 / C08 - cobra.manipulation.delete.remove_genes(model, gene_list, remove_reactions=True), no context open.

Documented: "Remove genes entirely from the model. This will also simplify all gene-reaction rules with the genes inactivated.
remove_reactions: whether to remove reactions associated with genes in gene_list."  C08 (last clause): removing genes from a model
leaves every reaction that can still be catalysed with a rule equivalent to its old rule with those genes absent.  C02: the genes
leave model.genes, their model pointer is cleared, they leave the groups; nothing else changes.

Shape: the model is MATERIALISED (`_contexts`, `genes`, `reactions`, `groups`: DictLists with the C15 contracts); reactions, genes,
groups and rule trees live in the heap (`_gpr`, `_model`, `_members`, `_id`; rule trees as in contracts/c08_visitors.py: ast_tag,
body, values_n, values_seq, op, id, plus `body_present`: whether the GPR object HAS a `body` attribute - NodeTransformer deletes it
when the visit of the body returns None, remove_genes then sets it to None again).
Notation: GS = the set of genes looked up (`model.genes.get_by_id(str(i))` for the items i), S = their identifiers, h0 the rule-tree
heap at entry, K an ARBITRARY set of absent genes (the constant `vis_K` of c08_visitors), for a reaction x of the model g(x) = x._gpr,
nonempty(x) = its rule has a body at entry, target(x) = remove_reactions and not semh(h0, g(x), S), kept(x) = nonempty and not target.

PROVED (keys `remove_genes`; hook table HOOKS; gene_list a list of Gene objects or a list of identifier strings, of any length; a
model with any number of reactions / genes / groups; remove_reactions a symbolic Boolean), for the state SN in which
`model.remove_reactions(target_reactions)` is called (everything remove_genes itself writes has been written by then):
  (1) genes: model.genes is its entry content minus GS - well formed again, the surviving identifiers name the same object, the
      relative order is kept, exactly the members in GS are gone; every gene of GS has `_model` None and no other model pointer
      changed; no group of model.groups contains a gene of GS and the only memberships (group, member) that changed have the member
      in GS and the group in model.groups.  GS is characterised in both directions (every item's lookup is in GS; every gene of GS is
      the lookup of some item, a member of model.genes at entry; S = the identifiers of GS).
  (2) rules (C08): for every reaction x of model.reactions with kept(x): the GPR object has a `body` attribute again; if the new body
      is None then the OLD rule is False with K u S absent (for K = {}: such a reaction can no longer be catalysed; with
      remove_reactions it would have been a target); otherwise the new rule is a well-formed tree and
      semh(SN, g(x), K) == semh(h0, g(x), K u S)  - "a rule equivalent to its old rule with those genes absent" - by the PROVED
      contracts of _GeneRemover.visit_Name / visit_BoolOp applied at the call site to the body.  Every other reaction of the model
      (empty rule, or target) keeps its body, its well-formedness and its value for S, K and K u S.
  (3) calls: exactly one `model.remove_reactions(l)`; l lists exactly the reactions x of the model with nonempty(x) and target(x),
      each once (ghost inverse map tpos[l[j]] == j: the form Model.remove_reactions' precondition wants), every one a member of
      model.reactions; `update_genes_from_gpr()` is called - after that - on exactly the reactions with kept(x) and on nothing else.
      The two callees are RECORDED and their write sets havocked (their own contracts are contracts/c02_remove_reactions.py and
      contracts/c02_update_genes.py); the clauses (1), (2) are stated for SN.
NOT proved: (a) the SYNTACTIC fact that a rewritten rule names only genes that stay in the model (names(new rule) is a subset of
names(old rule) minus S): c08_visitors proves the remover semantically only; without it the proved contract of update_genes_from_gpr
cannot be composed with this one (a rule still naming a removed gene would make it create a NEW gene of that name); (b) hence the
final cross-reference clause (no remaining reaction lists a removed gene, no removed gene lists a remaining reaction) - checked
natively instead (/var/tmp probe, 40 calls on a 7-reaction model with a group, objects / identifiers, remove_reactions True /
False: gene sets = rule names, both directions of the cross references, groups, `body` attribute present: no deviation);
(c) the in-context behaviour (undo registrations).
PRECONDITIONS (stated): no context open; model.reactions / model.genes well-formed DictLists; every reaction of the model has a GPR
object (tag GPR) whose tree is well formed (and/or nodes with >= 1 child: the precondition of the remover) and which has its
`body` attribute; different reactions have different GPR objects (ghost inverse `rg_gpos`: the position of the owning reaction); every item of gene_list names a gene of
the model (otherwise KeyError from get_by_id before anything changed: not covered).
ASSUMED (listed in the evidence):
  * `_GeneRemover.__init__`: a new visitor whose target_genes is a new set with the given identifiers (3-line constructor: str() of a
    string is the string; super().__init__ of ast.NodeTransformer does nothing);
  * `_GeneRemover.visit` on the ROOT (a GPR object with a body b; ast.NodeTransformer.generic_visit on a node whose field `body` is a
    node): r = self.visit(b) BY THE CONTRACT `_GeneRemover.visit` (whose cases are the proved visit_Name / visit_BoolOp contracts;
    its precondition wfh(b) is obliged), then `body` := r, or the attribute is deleted when r is None.  With it two SEPARATION facts:
    the value / well-formedness of a Name / BoolOp tree does not depend on the `body` field of a GPR object, and the rule trees of
    DIFFERENT GPR objects share no node (what the parser, deepcopy and Reaction.copy build), so that - by the proved frame clause
    `only_below` of the remover and the lemma semh-frame of c08_visitors - visiting one rule leaves well-formedness and value (for S,
    K, K u S) of every other GPR object unchanged;
  * `Reaction.gene_reaction_rule` (GPR.to_string: text) is a string that is empty exactly when the rule has no body;
  * `group.remove_members(gene)` with ONE object instead of a list: the first lines of Group.remove_members wrap it into a list (and
    emit the warning "need to pass in a list" - remove_genes triggers that warning for every group it cleans: cosmetic); effect =
    that of the proved list contract for [gene];
  * GPR.eval by its heap contract (`GPR.eval/heap`, proved in c08_visitors), GPR.copy by its proved contract, get_context,
    DictList.remove, Model.get_associated_groups by their proved contracts.

Mutation trials (mutated copies of cobra/manipulation/delete.py, source tree switched with VERIF_REPO as tools/mutate_and_run.sh does;
every mutant left the named obligation of case objects:no_context unproved; loop#0 conjuncts: 1 length, 2-10 rules, 11-13 target
list, 14-15 revisit set):
  `gene._model = None` -> `= model`                                   loop#1/inv-preserve.9 (model pointers)
  `and not rxn.gpr.eval(...)` -> `and rxn.gpr.eval(...)`              loop#0/inv-preserve.5~2 (rule value), .12~2 (list holds targets only)
  `rxns_to_revisit.add(rxn)` dropped                                  loop#0/inv-preserve.15~3/~4 (every kept reaction is revisited)
  `rxn.gpr.body = None` dropped                                       loop#0/inv-preserve.2~3/~5 (the GPR object has a body attribute)
  `group.remove_members(gene)` dropped                                loop#2/inv-preserve.2 (visited groups lost the gene)
  `model.genes.remove(gene)` dropped                                  loop#1/inv-preserve.6 (removed genes are gone from the index)
  `_GeneRemover(gene_id_set)` -> `_GeneRemover(set())`                loop#0/inv-preserve.12~2, .15~2
  update loop moved BEFORE `model.remove_reactions(...)`              call:update_genes_from_gpr/after-remove_reactions
Vacuity guard: `False` is not provable from the path conditions of the visit paths, of loop 1 and of the exit (probe run).
"""
import z3
from .common import *  # noqa
from . import c15_dictlist as C15  # noqa
from . import c02_xref as X  # noqa
from . import c03_context as C3
from . import c07_knockout as C7
from . import c08_visitors as V
from . import c02_remove_reactions as RR
from pyvc.values import ident_of
from pyvc.state import alloc_set, alloc_obj
from pyvc.loops import havoc_locations

MD = "cobra/manipulation/delete.py"
REG.fields.update({"_gpr": "ref:GPR", "body_present": "bool", "_model": "ref:Model", "_members": "set:ref:Object",
                   "_genes": "set:ref:Gene", "_reaction": "set:ref:Reaction"})
REG.inline.add("Reaction.gpr@getter")
REG.classes.setdefault("_GeneRemover", ["NodeTransformer"])
I_ = z3.IntSort()
RefSet = z3.ArraySort(Ref, z3.BoolSort())
EMPTYR = z3.K(Ref, z3.BoolVal(False))
GOWN = z3.Const("rg_gpos", z3.ArraySort(Ref, z3.IntSort()))  # ghost: position in model.reactions of the reaction owning a GPR object
K_ = V.VIS_K
T_GPR = V.T_GPR


def Hh(E, st, f):
    return E.eng.heap_arr(st, f)


def _model_t():
    return TObj("Model", {"_contexts": TList("ref:HistoryManager"), "genes": TDictList("Gene"), "reactions": TDictList("Reaction"),
                          "groups": TDictList("Group")})


def _entry_model(eng):
    m = (getattr(eng, "entry_args", None) or {}).get("model")
    return m if isinstance(m, VObj) and m.cls == "Model" else None


def _local(st, name):
    """the value of the local variable `name` of the function under verification (ghost code only)"""
    for _fid, (_parent, vars_) in st.frames.items():
        if name in vars_ and "gene_id_set" in vars_:
            return vars_[name]
    return None


def _sdom(st, v, sort=Ref):
    rec = st.objs[v.oid]
    return z3.K(sort, z3.BoolVal(False)) if rec.get("lazy") else rec["dom"]


def _lst(st, v):
    rec = st.objs[v.oid]
    if not str(rec.get("ekind", "")).startswith("ref"):
        return z3.IntVal(0), z3.K(I_, NULL)
    return rec["len"], rec["elem"]


# ---------------------------------------------------------------- hooks
def _rule_text_key(t):
    return ("rule_text", str(t))


def getattr_hook(eng, st, v, name):
    if isinstance(v, VRef) and v.cls == "Reaction" and name == "gene_reaction_rule":
        # ASSUMED: GPR.to_string() - a string, empty exactly when the rule has no body (see len_hook)
        t = fresh("rule_text", Id)
        return [("ok", st.setghost(_rule_text_key(t), z3.Select(eng.heap_arr(st, "_gpr"), v.t)), VStr(t))]
    return None


def len_hook(eng, st, v):
    if isinstance(v, VStr) and _rule_text_key(v.t) in st.ghost:
        g = st.ghost[_rule_text_key(v.t)]
        c = fresh("rule_len", I_)
        return [("ok", st.assume(c >= 0, (c == 0) == (z3.Select(eng.heap_arr(st, "body"), g) == NULL)), VInt(c))]
    return RR.len_hook(eng, st, v)


def str_hook(eng, st, v):
    if isinstance(v, VRef) and v.cls == "Gene":
        return [("ok", st, VStr(z3.Select(eng.heap_arr(st, "_id"), v.t)))]       # Object.__str__: str(self.id)
    return None


def hasattr_hook(eng, st, v, name):
    if isinstance(v, VRef) and v.cls == "GPR" and name == "body":
        return z3.Select(eng.heap_arr(st, "body_present"), v.t)
    return None


def setattr_hook(eng, st, v, name, val):
    if isinstance(v, VRef) and v.cls == "GPR" and name == "body":
        b = NULL if isinstance(val, VNone) else val.t
        st = st.setheap("body", z3.Store(eng.heap_arr(st, "body"), v.t, b))
        return [("ok", st.setheap("body_present", z3.Store(eng.heap_arr(st, "body_present"), v.t, z3.BoolVal(True))), NONE)]
    return None


def list_display_hook(eng, st, vs):
    if not vs:
        from pyvc import builtins as B
        return [B.list_from_values(eng, st, [], ekind="ref:Reaction")]       # `target_reactions = []`
    return RR.list_display_hook(eng, st, vs)


def tpos(st):
    return st.ghost.get("rg_tpos", z3.K(Ref, z3.IntVal(-1)))


def ug(st):
    return st.ghost.get("rg_ug", EMPTYR)


def call_method_hook(eng, st, recv, name, pos, kw):
    m = _entry_model(eng)
    if m is None:
        return None
    mrec = st.objs[m.oid]
    if isinstance(recv, VObj) and recv.oid == mrec["attr:genes"].oid and name == "get_by_id" and len(pos) == 1 and not kw \
            and isinstance(pos[0], VStr):
        # DictList.get_by_id by its proved contract (C15), the result as the TERM its post-condition pins down; a known identifier is
        # OBLIGED (stated precondition of remove_genes: every item names a gene of the model)
        dom, val = Dv(st, recv)
        _, e = L(st, recv)
        k = pos[0].t
        eng.oblige(st, z3.Select(dom, k), "call:DictList.get_by_id/known-identifier", kind="callpre")
        return [("ok", st.assume(z3.Select(dom, k)), VRef(z3.Select(e, z3.Select(val, k)), "Gene"))]
    if isinstance(recv, VRef) and recv.cls == "GPR" and name == "eval":
        return eng.apply_contract(st, eng.reg.get("GPR.eval/heap"), [recv] + list(pos), kw)
    if isinstance(recv, VRef) and recv.cls == "GPR" and name == "copy" and not pos and not kw:
        return eng.apply_contract(st, eng.reg.get("GPR.copy"), [recv], {})
    if isinstance(recv, VObj) and recv.cls == "_GeneRemover" and name == "visit" and len(pos) == 1 and not kw \
            and isinstance(pos[0], VRef) and pos[0].cls == "GPR":
        return _visit_root(eng, st, recv, pos[0])
    if isinstance(recv, VObj) and recv.kind == "list" and name == "append" and len(pos) == 1 and isinstance(pos[0], VRef) \
            and pos[0].cls == "Reaction":
        # target_reactions.append(rxn) + GHOST code: the position of rxn in the list is noted
        from pyvc import builtins as B
        n_before = st.objs[recv.oid]["len"]
        outs = B.container_method(eng, st, recv, name, pos, kw)
        return [(k_, s_.setghost("rg_tpos", z3.Store(tpos(s_), pos[0].t, n_before)) if k_ == "ok" else s_, v_) for k_, s_, v_ in outs]
    if isinstance(recv, VRef) and recv.cls == "Group" and name == "remove_members" and len(pos) == 1 and not kw and isinstance(pos[0], VRef):
        # ASSUMED: ONE object instead of a list - wrapped into [object] by the first lines of Group.remove_members (with a warning);
        # effect of the proved list-argument contract for that list
        M = eng.heap_arr(st, "_members")
        return [("ok", st.setheap("_members", z3.Store(M, recv.t, z3.Store(z3.Select(M, recv.t), pos[0].t, z3.BoolVal(False)))), NONE)]
    if isinstance(recv, VObj) and recv.oid == m.oid and name == "remove_reactions" and len(pos) == 1 and not kw \
            and isinstance(pos[0], VObj) and pos[0].kind == "list":
        # RECORDED call (argument list, the set rxns_to_revisit and the state as they are now); then everything Model.remove_reactions
        # may write is havocked
        if "rg_call" in st.ghost:
            raise Unsupported("a second Model.remove_reactions call")
        rv = _local(st, "rxns_to_revisit")
        st = st.setghost("rg_call", (pos[0], st, rv))
        rx = mrec["attr:reactions"]
        st = havoc_locations(eng, st, [("list", rx), ("dict", dict_of(st, rx)), ("heap", "_model"), ("heap", "_reaction"),
                                       ("heap", "_members")])
        return [("ok", st, NONE)]
    if isinstance(recv, VRef) and recv.cls == "Reaction" and name == "update_genes_from_gpr" and not pos and not kw:
        # RECORDED call (ghost set of receivers); only after the remove_reactions call; its write set is havocked
        eng.oblige(st, z3.BoolVal("rg_call" in st.ghost), "call:update_genes_from_gpr/after-remove_reactions", kind="callpre")
        st = st.setghost("rg_ug", z3.Store(ug(st), recv.t, z3.BoolVal(True)))
        gl = mrec["attr:genes"]
        st = havoc_locations(eng, st, [("list", gl), ("dict", dict_of(st, gl)), ("heap", "_genes"), ("heap", "_reaction"),
                                       ("heap", "_model")])
        return [("ok", st, NONE)]
    return None


def _visit_root(eng, st, recv, node):
    g = node.t
    tg = eng.heap_arr(st, "ast_tag")
    VN0, VS0, BD0 = (eng.heap_arr(st, f) for f in ("values_n", "values_seq", "body"))
    b = z3.Select(BD0, g)
    eng.oblige(st, z3.And(g != NULL, tg[g] == T_GPR, b != NULL, V.wfh(VN0, VS0, BD0, g)), "call:_GeneRemover.visit(root)/pre",
               kind="callpre")
    st = st.assume(g != NULL, tg[g] == T_GPR, b != NULL, V.wfh(VN0, VS0, BD0, g))
    S = _sdom(st, st.objs[recv.oid]["attr:target_genes"], Id)
    KS = V.union(K_, S)
    outs = eng.apply_contract(st, eng.reg.get("_GeneRemover.visit"), [recv, VRef(b, "AstNode")], {})
    res = []
    for k_, s, r in outs:
        if k_ != "ok":
            res.append((k_, s, r))
            continue
        rt = V.res_ref(r)
        VN1, VS1 = eng.heap_arr(s, "values_n"), eng.heap_arr(s, "values_seq")
        BD1 = z3.Store(BD0, g, rt)
        BP1 = z3.Store(eng.heap_arr(s, "body_present"), g, rt != NULL)
        hm, h1, h0 = (VN1, VS1, BD0), (VN1, VS1, BD1), (VN0, VS0, BD0)
        y = qv("sy", Ref)
        other = lambda KK: V.semh(*h1, y, KK) == V.semh(*h0, y, KK)  # noqa
        s = s.setheap("body", BD1).setheap("body_present", BP1).assume(
            # ASSUMED (separation 1): a Name / BoolOp tree does not read the `body` field of GPR objects
            z3.Implies(rt != NULL, z3.And(V.wfh(*h1, rt) == V.wfh(*hm, rt), V.semh(*h1, rt, K_) == V.semh(*hm, rt, K_))),
            # ASSUMED (separation 2): the trees of other GPR objects are disjoint from this one (only_below + semh-frame)
            FA([y], z3.Implies(z3.And(tg[y] == T_GPR, y != g),
                               z3.And(V.wfh(*h1, y) == V.wfh(*h0, y), V.wfh(*h1, BD0[y]) == V.wfh(*h0, BD0[y]),
                                      other(K_), other(S), other(KS))),
               patterns=[V.wfh(*h1, y), V.wfh(*h1, BD0[y]), V.semh(*h1, y, K_), V.semh(*h1, y, S), V.semh(*h1, y, KS)]))
        # lemma step (obliged, then used): the remover's contract for the body, lifted to the GPR object (c08_visitors' lemma
        # remove-genes/kept-rule-is-old-rule-with-genes-absent, here on the actual heaps)
        step = z3.And(z3.Implies(rt == NULL, z3.Not(V.semh(*h0, g, KS))),
                      z3.Implies(rt != NULL, z3.And(V.wfh(*h1, rt), V.is_expr_tag(tg, rt), V.semh(*h1, g, K_) == V.semh(*h0, g, KS))))
        eng.oblige(s, step, "call:_GeneRemover.visit(root)/kept-rule-is-old-rule-with-genes-absent", kind="lemma")
        res.append(("ok", s.assume(step), node))
    return res


HOOKS = chain_hooks({"getattr": getattr_hook, "len": len_hook, "str": str_hook, "hasattr": hasattr_hook, "setattr": setattr_hook,
                     "list_display": list_display_hook, "call_method": call_method_hook},
                    {"isinstance": V.isinstance_hook, "getattr": V.getattr_hook})


# ---------------------------------------------------------------- assumed: the remover's constructor
def _remover_new(eng, st, E):
    tg_ = E["target_genes"]
    dom = _sdom(st, tg_, Id)
    st, s = alloc_set(st, "id", dom=dom)
    st, o = alloc_obj(st, "_GeneRemover", {"attr:target_genes": s})
    gs = _local(st, "gene_set")
    st = st.setghost("rg_S", dom)
    if isinstance(gs, VObj) and gs.kind == "set":
        st = st.setghost("rg_GS", _sdom(st, gs))
    return st, o


REG.add(Contract(MD, "_GeneRemover.__init__", "C08", [("self", TNone()), ("target_genes", TSet("id"))], [Case("new")], assumed=True,
                 key="_GeneRemover.__init__", result=_remover_new,
                 note="_GeneRemover(ids): a new visitor whose target_genes is a new set holding exactly the given identifier strings "
                      "(`{str(i) for i in target_genes}`: str of a string is the string; super().__init__ of NodeTransformer does "
                      "nothing); ghost: the identifier set and the gene set of remove_genes are noted"))


# ---------------------------------------------------------------- specification
class _Cx:
    """the terms the specification is written with"""
    def __init__(self, E):
        self.E = E
        m = E["model"]
        mrec = E.s0.objs[m.oid]
        self.rx, self.gl, self.gr = mrec["attr:reactions"], mrec["attr:genes"], mrec["attr:groups"]
        self.n0, self.e0 = L(E.s0, self.rx)
        self.dom0, self.val0 = Dv(E.s0, self.rx)
        self.ids = idarr(E, E.s0)
        self.gpr = Hh(E, E.s0, "_gpr")
        self.tg = Hh(E, E.s0, "ast_tag")
        self.h0 = V.heap3(E, E.s0)
        self.rr = E["remove_reactions"].t

    def memb(self, x):
        return z3.And(z3.Select(self.dom0, self.ids[x]), self.e0[self.val0[self.ids[x]]] == x)

    def rp(self, x):
        return self.val0[self.ids[x]]

    def nonempty(self, x):
        return self.h0[2][self.gpr[x]] != NULL

    def target(self, x, S):
        return z3.And(self.rr, z3.Not(V.semh(*self.h0, self.gpr[x], S)))

    def kept(self, x, S):
        return z3.And(self.nonempty(x), z3.Not(self.target(x, S)))


def _S(st):
    return st.ghost.get("rg_S", V.EMPTY)


def _GS(st):
    return st.ghost.get("rg_GS", EMPTYR)


def _items(E):
    """(length, j -> the gene looked up for item j)"""
    c = _Cx(E)
    n, e = L(E.s0, E["gene_list"])
    _, eg = L(E.s0, c.gl)
    _, vg = Dv(E.s0, c.gl)
    kind = E.s0.objs[E["gene_list"].oid]["ekind"]
    key = (lambda j: c.ids[e[j]]) if kind.startswith("ref") else (lambda j: e[j])
    return n, key, (lambda j: eg[vg[key(j)]])


def _pre(E):
    c = _Cx(E)
    j = qv("pj")
    x = c.e0[j]
    g = c.gpr[x]
    n, key, _ = _items(E)
    dg, _ = Dv(E.s0, c.gl)
    BP = Hh(E, E.s0, "body_present")
    return z3.And(WF(E, E.s0, c.rx), WF(E, E.s0, c.gl), L(E.s0, c.gr)[0] >= 0, C3._ctx_nonnull(E, "model"),
                  _no_ctx(E),                                           # no context open
                  FA([j], z3.Implies(z3.And(0 <= j, j < c.n0),
                                     z3.And(x != NULL, g != NULL, c.tg[g] == T_GPR, V.wfh(*c.h0, g), BP[g], GOWN[g] == j)), patterns=[x]),
                  FA([j], z3.Implies(z3.And(0 <= j, j < n), z3.Select(dg, key(j))), patterns=[key(j)]))


def _rules(E, st, i, S):
    """the rules of the reactions of the model after the first i reactions have been handled"""
    c = _Cx(E)
    h1 = V.heap3(E, st)
    BP = Hh(E, st, "body_present")
    KS = V.union(K_, S)
    j = qv("rj")
    x = c.e0[j]
    g = c.gpr[x]
    same = lambda KK: V.semh(*h1, g, KK) == V.semh(*c.h0, g, KK)  # noqa
    rng = z3.And(0 <= j, j < c.n0)
    rew = z3.And(j < i, c.kept(x, S))           # the rule has been rewritten
    b1 = h1[2][g]
    q = lambda hyp, concl: FA([j], z3.Implies(z3.And(rng, hyp), concl), patterns=[x])  # noqa
    return [q(z3.BoolVal(True), BP[g]),
            q(z3.And(rew, b1 == NULL), z3.Not(V.semh(*c.h0, g, KS))),
            q(z3.And(rew, b1 != NULL), z3.And(V.wfh(*h1, b1), V.is_expr_tag(c.tg, b1))),
            q(z3.And(rew, b1 != NULL), V.semh(*h1, g, K_) == V.semh(*c.h0, g, KS)),
            q(z3.Not(rew), b1 == c.h0[2][g]),
            q(z3.Not(rew), V.wfh(*h1, g)),
            q(z3.Not(rew), same(K_)), q(z3.Not(rew), same(S)), q(z3.Not(rew), same(KS))]


def _targets(E, st, i, tl, S):
    """the list handed to Model.remove_reactions: exactly the reactions among the first i with a non-empty rule that is False with
    the genes absent (when remove_reactions is set), each once (ghost inverse tpos), in model order"""
    c = _Cx(E)
    tn, te = _lst(st, tl)
    tp = tpos(st)
    j, w = qv("tj"), qv("tw")
    x, y = te[j], c.e0[w]
    return [tn >= 0,
            FA([j], z3.Implies(z3.And(0 <= j, j < tn),
                               z3.And(c.memb(x), 0 <= c.rp(x), c.rp(x) < i, c.nonempty(x), c.target(x, S), tp[x] == j)), patterns=[x]),
            FA([w], z3.Implies(z3.And(0 <= w, w < i, w < c.n0, c.nonempty(y), c.target(y, S)),
                               z3.And(0 <= tp[y], tp[y] < tn, te[tp[y]] == y)), patterns=[y])]


def _revisit(E, i, RV, S):
    """RV (a set of reactions) = the reactions among the first i that keep a (rewritten) rule"""
    c = _Cx(E)
    x, w = qv("vx", Ref), qv("vw")
    y = c.e0[w]
    return [FA([x], z3.Implies(RV[x], z3.And(c.memb(x), 0 <= c.rp(x), c.rp(x) < i, c.kept(x, S))), patterns=[RV[x]]),
            FA([w], z3.Implies(z3.And(0 <= w, w < i, w < c.n0, c.kept(y, S)), RV[y]), patterns=[y])]


def _gmemb0(E, g):
    c = _Cx(E)
    _, eg = L(E.s0, c.gl)
    dg, vg = Dv(E.s0, c.gl)
    return z3.And(z3.Select(dg, c.ids[g]), eg[vg[c.ids[g]]] == g)


def _in_groups(E, y):
    c = _Cx(E)
    gn, ge = L(E.s0, c.gr)
    j = qv("gj")
    return z3.Exists([j], z3.And(0 <= j, j < gn, z3.Select(ge, j) == y))


def _genes_part(E, st, done, D):
    """model.genes, model pointers and group memberships when the genes g with done(g) (a subset of D = GS) have been removed"""
    c = _Cx(E)
    n0, e0 = L(E.s0, c.gl)
    dom0, val0 = Dv(E.s0, c.gl)
    n, e = L(st, c.gl)
    dom, val = Dv(st, c.gl)
    gn, ge = L(E.s0, c.gr)
    mo0, mo = Hh(E, E.s0, "_model"), Hh(E, st, "_model")
    M0, M = Hh(E, E.s0, "_members"), Hh(E, st, "_members")
    k, k2, g, y, j = qv("vk", Id), qv("vk2", Id), qv("vg", Ref), qv("vy", Ref), qv("vj")
    return [WF(E, st, c.gl),
            FA([g], z3.Implies(D[g], _gmemb0(E, g)), patterns=[D[g]]),
            FA([k], z3.Implies(z3.Select(dom, k), z3.And(z3.Select(dom0, k), e[val[k]] == e0[val0[k]])), patterns=[z3.Select(dom, k)]),
            FA([g], z3.Implies(done(g), z3.Not(z3.Select(dom, c.ids[g]))), patterns=[D[g]]),
            FA([k], z3.Implies(z3.And(z3.Select(dom0, k), z3.Not(z3.Select(dom, k))), done(e0[val0[k]])), patterns=[z3.Select(dom0, k)]),
            FA([k, k2], z3.Implies(z3.And(z3.Select(dom, k), z3.Select(dom, k2)), (val[k] < val[k2]) == (val0[k] < val0[k2])),
               patterns=[z3.MultiPattern(z3.Select(dom, k), z3.Select(dom, k2))]),
            # model pointers
            FA([g], mo[g] == z3.If(done(g), NULL, mo0[g]), patterns=[mo[g]]),
            # groups of the model
            FA([g, j], z3.Implies(z3.And(done(g), 0 <= j, j < gn), z3.Not(M[z3.Select(ge, j)][g])), patterns=[M[z3.Select(ge, j)][g]]),
            FA([y, g], z3.Implies(M[y][g] != M0[y][g], z3.And(done(g), _in_groups(E, y))), patterns=[M[y][g]])]


# ---- loop 0: `for rxn in model.reactions`
def _inv0(E, Lc):
    c = _Cx(E)
    st, i = Lc.st, Lc.i
    S = _S(st)
    RV = _sdom(st, Lc.var("rxns_to_revisit"))
    return z3.And(Lc.n == c.n0, *(_rules(E, st, i, S) + _targets(E, st, i, Lc.var("target_reactions"), S) + _revisit(E, i, RV, S)))


def _mod0(E, Lc):
    return [("heap", "values_n"), ("heap", "values_seq"), ("heap", "body"), ("heap", "body_present"),
            ("list", Lc.var("target_reactions"), "ref:Reaction"), ("setlazy", Lc.var("rxns_to_revisit"), "ref:Reaction"),
            ("ghost", "rg_tpos", lambda st: fresh("rg_tpos", z3.ArraySort(Ref, I_)))]


# ---- loop 1: `for gene in gene_set`, loop 2: `for group in associated_groups`
def _inv1(E, Lc):
    _, order, pos, D = Lc.seq.src[:4]
    done = lambda g: z3.And(D[g], pos[g] < Lc.i)  # noqa
    return z3.And(*_genes_part(E, Lc.st, done, D))


def _mod1(E, Lc):
    gl = _Cx(E).gl
    return [("list", gl), ("dict", dict_of(Lc.st, gl)), ("heap", "_model"), ("heap", "_members")]


_inv2 = RR._inv_groups("gene", lambda Lc: Lc.var("associated_groups"))


# ---- loop 3: `for rxn in rxns_to_revisit`
def _inv3(E, Lc):
    _, order, pos, D = Lc.seq.src[:4]
    x = qv("ux", Ref)
    U = ug(Lc.st)
    return FA([x], U[x] == z3.And(D[x], pos[x] < Lc.i), patterns=[U[x]])


def _mod3(E, Lc):
    gl = _Cx(E).gl
    return [("list", gl), ("dict", dict_of(Lc.st, gl)), ("heap", "_genes"), ("heap", "_reaction"), ("heap", "_model"),
            ("ghost", "rg_ug", lambda st: fresh("rg_ug", RefSet))]


def _post(E):
    call = E.s1.ghost.get("rg_call")
    if call is None or "rg_GS" not in E.s1.ghost:
        return z3.BoolVal(False)
    tl, sn, rv = call
    c = _Cx(E)
    S, GS = _S(E.s1), _GS(E.s1)
    RV = _sdom(sn, rv)
    U = ug(E.s1)
    n, key, look = _items(E)
    dg, vg = Dv(E.s0, c.gl)
    _, eg = L(E.s0, c.gl)
    j, w, g, k, x = qv("qj"), qv("qw"), qv("qg", Ref), qv("qk", Id), qv("qx", Ref)
    cs = _rules(E, sn, c.n0, S) + _targets(E, sn, c.n0, tl, S) + _genes_part(E, sn, lambda y: GS[y], GS)
    # update_genes_from_gpr: called on exactly the reactions that keep a rule
    cs += [FA([x], z3.Implies(U[x], z3.And(c.memb(x), c.kept(x, S))), patterns=[U[x]]),
           FA([w], z3.Implies(z3.And(0 <= w, w < c.n0, c.kept(c.e0[w], S)), U[c.e0[w]]), patterns=[c.e0[w]])]
    # the gene set and the identifier set
    cs += [FA([j], z3.Implies(z3.And(0 <= j, j < n), z3.And(GS[look(j)], S[key(j)])), patterns=[key(j)]),
           FA([g], z3.Implies(GS[g], z3.And(S[c.ids[g]], z3.Exists([w], z3.And(0 <= w, w < n, look(w) == g)))), patterns=[GS[g]]),
           FA([k], z3.Implies(S[k], z3.And(z3.Select(dg, k), GS[eg[vg[k]]])), patterns=[S[k]])]
    return z3.And(*cs)


def _no_ctx(E):
    return C3._ctxs(E.s0, E["model"])[0] == 0


def _mod(E):
    c = _Cx(E)
    return (dl_locs(Env({"self": c.rx}, E.s0, eng=E.eng)) + dl_locs(Env({"self": c.gl}, E.s0, eng=E.eng)) +
            [("attr", E["model"], "reactions", lambda st: (st, c.rx)), ("attr", E["model"], "genes", lambda st: (st, c.gl))] +
            [("heap", f) for f in ("values_n", "values_seq", "body", "body_present", "_model", "_members", "_genes", "_reaction")] +
            [("ghost", "rg_tpos", lambda st: fresh("rg_tpos", z3.ArraySort(Ref, I_))),
             ("ghost", "rg_ug", lambda st: fresh("rg_ug", RefSet))])


def pcase_(case, **over):
    case.params_override = over
    return case


_c_obj = pcase_(Case("objects:no_context", ensures=_post), gene_list=TList("ref:Gene"))
_c_ids = pcase_(Case("identifiers:no_context", ensures=_post), gene_list=TList("id"))
_c_obj.applies = lambda a, st: str(st.objs[a["gene_list"].oid].get("ekind", "")).startswith("ref")
_c_ids.applies = lambda a, st: st.objs[a["gene_list"].oid].get("ekind") == "id"
_rr = TBool()
REG.add(Contract(MD, "remove_genes", "C02", [("model", _model_t()), ("gene_list", TList("ref:Gene")), ("remove_reactions", _rr)],
                 [_c_obj, _c_ids], pre=_pre, modifies=_mod, key="remove_genes", props=["C02", "C08"],
                 axioms=lambda E: V.tree_axioms(E, E.s0),
                 loops={0: LoopSpec(_inv0, _mod0), 1: LoopSpec(_inv1, _mod1),
                        2: LoopSpec(_inv2, lambda E, Lc: [("heap", "_members")]), 3: LoopSpec(_inv3, _mod3)},
                 note="no context open; gene_list a list of Gene objects or of identifier strings, every item naming a gene of the "
                      "model; every reaction of the model has its own GPR object with a well-formed tree; Model.remove_reactions and "
                      "Reaction.update_genes_from_gpr are RECORDED (argument, receivers, state) and their write sets havocked; "
                      "_GeneRemover.visit on the root GPR object, the remover's constructor, gene_reaction_rule (text empty iff no "
                      "body), Group.remove_members(<one object>) assumed as described in the module docstring"))
KEYS = ["remove_genes"]
