"""C14 — find_essential_genes / find_essential_reactions: the threshold logic over the frame single_gene_deletion /
single_reaction_deletion returns, and `processes` passed through.

Documented: "A gene [reaction] is considered essential if restricting the flux of all reactions that depend on it [its flux] to zero
causes the objective, e.g., the growth rate, to also be zero, below the threshold, or infeasible.  threshold: minimal objective flux
to be considered viable. By default this is 1% of the maximal objective.  processes: the number of parallel processes to run."

PROVED (threshold None / given, processes None / an int):
  * threshold None: the model is optimised first (slim_optimize(error_value=None): its error propagates) and the threshold is 0.01 x
    that optimum;
  * the deletion function is called ONCE, with exactly (model, method="fba", processes=<the caller's processes, unchanged>) - the
    call is recorded, its result D is an opaque frame;
  * data flow: the Series that is iterated is exactly  D.loc[D["growth"].isna() | (D["growth"] < threshold), :].ids  (the opaque
    algebra: every pandas operation is an uninterpreted function named after the operation);
  * the returned set is exactly { model.genes.get_by_id(i) [model.reactions.get_by_id(i)] : i an entry of that Series } (both
    inclusions);
  * with the ASSUMED element-wise semantics of these pandas operations (contract `pandas.rowwise`, note below) the documented
    statement: an entity is returned  iff  the frame has a row r with  growth_r NaN  or  growth_r < threshold  whose id names it
    (both inclusions; `frame_id`, `growth`, `isnan` are the row-wise readings of the opaque frame).
ASSUMED (`single_gene_deletion` / `single_reaction_deletion`, `pandas.rowwise`):
  - the frame has one row per deleted entity, its `ids` entry is the ONE-element set {id} (iterating it yields that id: modelled as a
    1-tuple), and every id is the id of a gene [reaction] of the model (so get_by_id does not raise);
  - D["growth"].isna() | (D["growth"] < t) is, row by row, `growth_r is NaN or growth_r < t` (a comparison with NaN is False; t is a
    number - precondition: the threshold given is not NaN);  D.loc[mask, :].ids keeps exactly the rows whose mask entry is true
    (ghost maps src / dst between the positions of the selection and the rows of D).
That the deletion function returns the same frame whatever `processes` is (C14 proper) is the statement about the deletion drivers
(worker contracts in contracts/c06_deletion.py; the fan-out itself: bounded driver).
Precondition: model.genes / model.reactions well-formed DictLists (C15); a given threshold is a number (not NaN).
"""
import z3
import cobra  # noqa
from .common import *  # noqa
from . import c04_status as C4
from . import c15_dictlist  # noqa  (DictList.get_by_id, proved)
from pyvc import npalg as N
from pyvc.values import VReal, VSeq, xr_lt

MV = "cobra/flux_analysis/variability.py"
NP = N.NP
ROW_ID = z3.Function("series_entry_id", NP, z3.IntSort(), Id)          # the id in the k-th entry of an `ids` Series
FRAME_ID = z3.Function("frame_id", NP, z3.IntSort(), Id)               # the id of row r of a deletion frame
FRAME_ROWS = z3.Function("frame_rows", NP, z3.IntSort())
GROWTH_K = z3.Function("frame_growth_k", NP, z3.IntSort(), z3.IntSort())
GROWTH_V = z3.Function("frame_growth_v", NP, z3.IntSort(), z3.RealSort())
GROWTH_NAN = z3.Function("frame_growth_isnan", NP, z3.IntSort(), z3.BoolSort())
SEL_SRC = z3.Function("selection_src", NP, z3.IntSort(), z3.IntSort())  # position in the selection -> row of the frame
SEL_DST = z3.Function("selection_dst", NP, z3.IntSort(), z3.IntSort())  # row of the frame -> position in the selection

FUNCS = {"find_essential_genes": ("single_gene_deletion", "genes"), "find_essential_reactions": ("single_reaction_deletion", "reactions")}
NONE_T = z3.Const("np:None", NP)

for _fn, _what in (("single_gene_deletion", "gene"), ("single_reaction_deletion", "reaction")):
    REG.add(Contract("cobra/flux_analysis/deletion.py", _fn, "C14", [("model", TNone())], [Case("any")], assumed=True, key=_fn + "@frame",
                     note=f"{_fn}(model, method, processes) as seen by find_essential_{_what}s: a recorded call whose result is an opaque "
                          f"frame with one row per {_what}; a row's `ids` entry is the one-element set {{id}} and every id is the id of a "
                          f"{_what} of the model"))
REG.add(Contract("pandas", "rowwise", "C14", [("frame", TNone())], [Case("any")], assumed=True, key="pandas.rowwise",
                 note="D['growth'].isna() | (D['growth'] < t) holds at row r iff growth_r is NaN or growth_r < t (t a number); "
                      "D.loc[mask, :].ids has exactly the entries of the rows whose mask entry is true"))


def _model_t():
    return TObj("Model", {"_solver": C4.SOLVER_T(), "reactions": TDictList("Reaction"), "genes": TDictList("Gene")})


def cond_row(D, r, T):
    """the documented condition at row r: no growth value (infeasible) or growth below the threshold"""
    g = VReal(GROWTH_K(D, r), GROWTH_V(D, r))
    return z3.Or(GROWTH_NAN(D, r), z3.And(z3.Not(GROWTH_NAN(D, r)), xr_lt(g, T)))


def expected_series(D, T):
    """D.loc[D["growth"].isna() | (D["growth"] < T), :].ids as a term of the opaque algebra"""
    g = N.term("getitem", D, N.of_id(id_lit("growth")))
    mask = N.term("or", N.term("call", N.term("attr.isna", g)), N.term("lt", g, N.lift(T)))
    sel = N.term("getitem", N.term("attr.loc", D), N.term("tuple", mask, N.term("slice", NONE_T, NONE_T, NONE_T)))
    return N.term("attr.ids", sel)


# ---------------------------------------------------------------- hooks
def global_hook(eng, name):
    if name in ("single_gene_deletion", "single_reaction_deletion"):
        return VFunc("abstract", name)
    return None


def call_abstract(eng, st, f, pos, kw):
    if f.a in ("single_gene_deletion", "single_reaction_deletion"):
        from pyvc.apply import ASSUMED_USED
        ASSUMED_USED[f.a + "@frame"] = REG.get(f.a + "@frame").note
        out = N.VNp(fresh("np:deletions", NP))
        calls = st.ghost.get("deletion_calls", ())
        rec = {"fn": f.a, "pos": tuple(pos), "kw": dict(kw), "state": st, "result": out}
        return [("ok", st.setghost("deletion_calls", calls + (rec,)).assume(FRAME_ROWS(out.t) >= 0), out)]
    return None


def iter_hook(eng, st, v):
    """iteration over an `ids` Series: len(v) entries, the k-th a one-element set {series_entry_id(v, k)} (a 1-tuple here); when the
    Series is the selection of the recorded frame by the documented mask, the ASSUMED row-wise semantics is attached"""
    if not isinstance(v, N.VNp):
        return None
    calls = st.ghost.get("deletion_calls", ())
    if len(calls) != 1:
        return None
    call = calls[0]
    which = "genes" if call["fn"] == "single_gene_deletion" else "reactions"
    model = call["pos"][0] if call["pos"] else None
    if not (isinstance(model, VObj) and model.cls == "Model"):
        return None
    full = v.t
    v = N.VNp(fresh("np:ids_series", NP))        # a NAME for the Series (its defining term contains if-then-else: unusable in triggers)
    st = st.assume(v.t == full)
    n = N.np_len(v.t)
    k = qv("sk")
    dom = Dv(st, st.objs[model.oid]["attr:" + which])[0]
    st = st.assume(n >= 0, FA([k], z3.Implies(z3.And(0 <= k, k < n), z3.Select(dom, ROW_ID(v.t, k))), patterns=[ROW_ID(v.t, k)]))
    D = call["result"].t
    T = st.lookup(eng._top_fid, "threshold")
    if isinstance(T, VReal) and full.eq(expected_series(D, T)):
        from pyvc.apply import ASSUMED_USED
        ASSUMED_USED["pandas.rowwise"] = REG.get("pandas.rowwise").note
        r = qv("sr")
        R = FRAME_ROWS(D)
        st = st.assume(
            FA([k], z3.Implies(z3.And(0 <= k, k < n), z3.And(0 <= SEL_SRC(v.t, k), SEL_SRC(v.t, k) < R, cond_row(D, SEL_SRC(v.t, k), T),
                                                             ROW_ID(v.t, k) == FRAME_ID(D, SEL_SRC(v.t, k)))), patterns=[ROW_ID(v.t, k)]),
            FA([r], z3.Implies(z3.And(0 <= r, r < R, cond_row(D, r, T)),
                               z3.And(0 <= SEL_DST(v.t, r), SEL_DST(v.t, r) < n, SEL_SRC(v.t, SEL_DST(v.t, r)) == r)), patterns=[FRAME_ID(D, r)]))
    seq = VSeq(n, lambda s, i, v=v: VTuple((VStr(ROW_ID(v.t, i)),)), tag="idsrows")
    return [("ok", st.setghost("iterated", (v.t, full)), seq)]


def call_method_hook(eng, st, recv, name, pos, kw):
    if isinstance(recv, VObj) and recv.cls == "DictList" and name == "get_by_id" and len(pos) == 1 and not kw and isinstance(pos[0], VStr):
        # DictList.get_by_id by its contract (proved in C15) with the result as the TERM its post-condition pins down
        # (res == elem[index[id]]): usable inside a comprehension, where a fresh result constant per element is not
        # (the same device as contracts/c11_reader.call_method_hook)
        con = eng.reg.get("DictList.get_by_id")
        a = {"self": recv, "id": pos[0]}
        E0 = Env(a, st, eng=eng)
        pre = con.pre(E0)
        eng.oblige(st, pre, "call:DictList.get_by_id/pre", kind="callpre")
        st = st.assume(pre)
        present = [c for c in con.cases if c.name == "present"][0]
        outs = []
        for ok, s in eng.branch(st, present.requires(E0)):
            if ok:
                res = VRef(L(s, recv)[1][Dv(s, recv)[1][pos[0].t]], s.objs[recv.oid]["ekind"][4:])
                outs.append(("ok", s.assume(present.ensures(Env(a, s, s, res=res, eng=eng))), res))
            else:
                outs.append(eng.raise_(s, "KeyError"))
        return outs
    return None


HOOKS = chain_hooks({"global": global_hook, "call_abstract": call_abstract, "iter": iter_hook, "call_method": call_method_hook}, N.HOOKS)


# ---------------------------------------------------------------- specification
def _entity(E, which, i):
    """model.<which>.get_by_id(i) (view of the DictList)"""
    dl = E.s0.objs[E["model"].oid]["attr:" + which]
    _, e = L(E.s0, dl)
    _, val = Dv(E.s0, dl)
    return e[val[i]]


def _pre(which):
    def pre(E):
        dl = E.s0.objs[E["model"].oid]["attr:" + which]
        t = E["threshold"]
        return z3.And(WF(E, E.s0, dl), z3.BoolVal(True) if isinstance(t, VNone) else t.v != z3.Real("NaN_const"))
    return pre


def _post(fname):
    dfn, which = FUNCS[fname]

    def post(E):
        calls = E.s1.ghost.get("deletion_calls", ())
        it = E.s1.ghost.get("iterated")
        res = E.res
        if len(calls) != 1 or it is None or not (isinstance(res, VObj) and res.kind == "set"):
            return z3.BoolVal(False)
        call = calls[0]
        cs = []
        # (1) ONE call of the deletion function with (model, method="fba", processes=<as given>)
        kw = call["kw"]
        cs.append(z3.BoolVal(call["fn"] == dfn and len(call["pos"]) == 1 and call["pos"][0] is E["model"] and set(kw) == {"method", "processes"}
                             and isinstance(kw.get("method"), VConc) and kw["method"].py == "fba" and kw.get("processes") is E["processes"]))
        # (2) the threshold: the one given, or 0.01 x the optimum found (the objective value in force when the deletions start)
        if isinstance(E["threshold"], VNone):
            opt = C4.value_of(call["state"], E["model"])
            T = VReal(z3.IntVal(0), opt.v * z3.RealVal("0.01"))
            cs.append(z3.And(C4._is_status(C4.status_of(call["state"], E["model"]), "optimal"), opt.k == 0))
        else:
            T = E["threshold"]
        D = call["result"].t
        # (3) data flow: what is iterated is D.loc[D["growth"].isna() | (D["growth"] < T), :].ids
        it, it_full = it
        cs.append(it_full == expected_series(D, T))
        # (4) the returned set = the entities named by the entries of that Series
        dom = E.s1.objs[res.oid]["dom"]
        n = N.np_len(it)
        k, x, k2 = qv("pk"), qv("px", Ref), qv("pk2")
        cs.append(FA([k], z3.Implies(z3.And(0 <= k, k < n), dom[_entity(E, which, ROW_ID(it, k))]), patterns=[ROW_ID(it, k)]))
        cs.append(FA([x], z3.Implies(dom[x], z3.Exists([k2], z3.And(0 <= k2, k2 < n, x == _entity(E, which, ROW_ID(it, k2))),
                                                       patterns=[ROW_ID(it, k2)])), patterns=[dom[x]]))
        # (5) the documented statement, row-wise (with the assumed pandas semantics)
        r, r2 = qv("pr"), qv("pr2")
        R = FRAME_ROWS(D)
        cs.append(FA([r], z3.Implies(z3.And(0 <= r, r < R, cond_row(D, r, T)), dom[_entity(E, which, FRAME_ID(D, r))]), patterns=[FRAME_ID(D, r)]))
        cs.append(FA([x], z3.Implies(dom[x], z3.Exists([r2], z3.And(0 <= r2, r2 < R, cond_row(D, r2, T), x == _entity(E, which, FRAME_ID(D, r2))),
                                                       patterns=[FRAME_ID(D, r2)])), patterns=[dom[x]]))
        return z3.And(*cs)
    return post


def _mod(E):
    return C4._slim_mod(Env({"self": E["model"]}, E.s0, eng=E.eng)) + [("ghost", "deletion_calls", lambda st: ()), ("ghost", "iterated", lambda st: None)]


def _cases(fname):
    out = []
    for th in ("none", "given"):
        for pr in ("none", "int"):
            c = Case(f"threshold={th}:processes={pr}", ensures=_post(fname))
            c.params_override = {"threshold": TNone() if th == "none" else TReal(), "processes": TNone() if pr == "none" else TInt()}
            if th == "none":
                c.may_raise = "OptimizationError"          # no optimum to take 1 % of: the error of slim_optimize propagates
                c.ensures_on_raise = lambda E: z3.BoolVal(len(E.s1.ghost.get("deletion_calls", ())) == 0)     # before any deletion
                c.modifies_on_raise = _mod
            out.append(c)
    return out


for _fname, (_dfn, _which) in FUNCS.items():
    REG.add(Contract(MV, _fname, "C14", [("model", _model_t()), ("threshold", TNone()), ("processes", TNone())], _cases(_fname),
                     pre=_pre(_which), modifies=_mod, key=_fname,
                     note="the deletion function is a recorded call (assumed frame shape), the pandas operations are uninterpreted with "
                          "the assumed row-wise semantics `pandas.rowwise`"))
