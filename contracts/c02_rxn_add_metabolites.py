"""C02 / C01 — Reaction.add_metabolites(metabolites_to_add, combine=True, reversibly=True): the function through which every
stoichiometry edit goes (subtract_metabolites, __iadd__/__isub__/__imul__, build_reaction_from_string, Model.add_boundary ...).

Documented: "If the final coefficient for a metabolite is 0 then it is removed from the reaction. The change is reverted upon exit
when using the model as a context. combine: describes behavior if a metabolite already exists in the reaction; True causes the
coefficients to be added, False causes the coefficient to be replaced. Raises KeyError if the metabolite string id is not in the
model, ValueError if the key is a string and there is no model for the reaction."  Invariants it has to keep: C02 (m is a key of
reaction._metabolites <=> reaction in m._reaction), C01 (the row of the mass-balance constraint named by m.id holds the
coefficient of m for the reaction's forward variable and its negative for the reverse variable).

SHAPE.  `self` (the reaction) and its model are MATERIALISED objects; reaction._metabolites and the argument are dictionaries
(dom, val) keyed by Metabolite references resp. identifiers with real values, of ANY size; `_id`, `_model`, `_reaction` are heap
fields; model.metabolites is a DictList (C15), model.constraints a set of names; coefficients are finite reals (encoding assumption
A2).  Six contracts (keys in KEYS, hook table HOOKS),
all over the REAL source, four loop invariants each (identifier check, main loop over the argument in any enumeration order,
solver rows, removal of zero coefficients):

  KEY_OBJ  `Reaction.add_metabolites[object_keys]`      reaction in a model, keys = metabolites of that model
  KEY_STR  `Reaction.add_metabolites[string_keys]`      reaction in a model, keys = identifiers
  KEY_NEW  `Reaction.add_metabolites[new_metabolites]`  reaction in a model, no context open, keys = metabolites of that model
                                                         or NEW metabolites (handed to model.add_metabolites)
  KEY_DET_OBJ / KEY_DET_STR / KEY_DET  `...[detached:object_keys]`, `...[detached:string_keys]`, `...[detached]`  model-less reaction

PROVED, with  old(m) = the coefficient of m at entry,  given(m) = the value of the argument for m (for a string key: for the
metabolite of the model - model-less: of the reaction - that has this identifier),
    final(m) = old(m) + given(m)  (combine, m a key of the reaction at entry)   |   given(m)  (replace, or m not a key at entry)
    final(m) = old(m)             (m not in the argument),
"touched" = key of the reaction at entry or metabolite of the argument:
  (1) stoichiometry: afterwards m is a key of reaction._metabolites  <=>  m is touched and final(m) != 0, and then its value is
      final(m).  Hence an entry that is not in the argument keeps its coefficient (an entry that was 0 already at entry is dropped
      as well - the function removes every zero it finds); no metabolite outside the touched ones becomes a key;
  (2) back references: for every touched m, `reaction in m._reaction` holds afterwards exactly when m is a key afterwards; no entry
      of any `_reaction` set for another reaction, and no `_reaction` set of an untouched metabolite, changes;
  (3) solver (reaction in a model): ghost matrix S[constraint name][variable] = the coefficient last written by
      set_linear_coefficients (entry value: what the solver holds).  For every touched m: S[m.id][forward] = final(m) and
      S[m.id][reverse] = -final(m) - also 0 / -0 for a metabolite that was removed, so that its row no longer contains the
      reaction; an entry S[k][u] differs from its entry value only if u is the forward or reverse variable of THIS reaction and k
      is the identifier of a touched member of model.metabolites.  Model-less reaction: S is not written at all;
  (4) undo: no context open, or reversibly=False: nothing is registered.  Context open and reversibly: exactly ONE registration, in
      the innermost context of the model - combine=True: partial(self.subtract_metabolites, d, combine=True, reversibly=False) where
      d is NOT the caller's dictionary but a copy with the keys and values the argument had at entry (repair: the undo kept the
      caller's dictionary); combine=False: partial(self.add_metabolites, d, combine=False, reversibly=False) where d has exactly the
      keys of the argument and maps each to old(m) for its metabolite, 0 when that was not part of the reaction (repairs: KeyError
      for a new metabolite inside a context; look-up by identifier).  What the registered function DOES when it runs is not proved
      here (bounded driver);
  (5) raising cases, each BEFORE anything is changed (frame: every heap field, every object, S and the registrations as at entry):
      reaction in a model, some string key is not an identifier of model.metabolites -> KeyError (the repair: the pre-repair code
      raised inside the main loop, after earlier keys had been written); model-less reaction, some string key is not the
      identifier of one of its metabolites -> ValueError;
  (6) KEY_NEW: additionally every key is afterwards a member of model.metabolites and points at the model, model pointers changed
      for exactly the new keys, model.metabolites is well formed with its old members in place; the reaction sets of the new
      metabolites end up as (2) says.

PRECONDITIONS (stated, `pre=`; they are the C02 / C01 invariants plus a restriction on the keys):
  in a model: model.metabolites is a well-formed DictList; every key of reaction._metabolites is a member of it (found under its
  own identifier) and lists the reaction; every member's identifier names a constraint of the solver; the context stack holds
  managers.  KEY_OBJ: every key of the argument is a member of model.metabolites with `_model` = that model (keys that belong to
  ANOTHER model - the function works on copies of them - are NOT covered).  KEY_NEW: a key is such a member, or NEW: no model,
  non-empty identifier that is not used in the model, listed by no reaction yet, two new keys have different identifiers; the
  reaction object is not itself a key; glue: the heap's `_model` entry of the materialised reaction is the model; no context open
  (new metabolites inside a context: NOT covered).  Model-less: the reaction's metabolites have pairwise different identifiers and
  list the reaction; object keys belong to no model, and a key with the identifier of one of the reaction's metabolites IS that
  metabolite (another object with the same identifier: NOT covered).
ASSUMED (external code / callee):
  * optlang: model.constraints[name] finds the constraint of that name (KeyError when there is none - never the case under the
    precondition); constraint.set_linear_coefficients({v: x, ...}) writes exactly these coefficients of exactly this constraint
    (ghost S); the forward and reverse variable of a reaction in a model are two different objects (assumed C01 getter contracts);
  * KEY_NEW, the call model.add_metabolites(new_metabolites): an EMPTY list executes the real function (it returns at once); a
    non-empty list is handled by the contract `Model.add_metabolites` proved in c02_add_metabolites (precondition and case
    condition obliged, frame havocked, post-condition assumed), with two additions that contract leaves open: (a) the call does not
    raise when the new identifiers are pairwise different (obliged) - the contract states DictList.__iadd__'s ValueError without a
    condition; (b) Model.add_cons_vars, which that contract only records, makes the constraints it is handed findable by name.
    Five call-site lemmas restate the callee's post-condition in this function's vocabulary; each is OBLIGED before it is used;
  * get_context, DictList.get_by_id: by their proved contracts (C03, C15); Object.__str__, Species.model, Reaction.metabolites and
    Object.id are executed from their real source (inlined); d.get(k, 0) inside the comprehension is the single value
    `d[k] if k in d else 0` (hook, no fork); loop `modifies` clauses are the engine's usual trusted over-approximation.

ALSO HERE.  KEYS_SUB `Reaction.subtract_metabolites[object_keys|string_keys]` (hook table HOOKS_SUB): the function the combine-undo
registers makes exactly one call self.add_metabolites(<a NEW dictionary with the same keys and the negated values>, combine=<as
given>, reversibly=<as given>) - an abstract call recorded in a ghost trace; the caller's dictionary is only read.
`lemmas()` - closed formulas over plain arrays built from the very clauses (1)-(3) (functions reaction_facts / solver_facts):
  xref-preserved / rows-preserved: if the C02 clause `m key of the reaction <=> reaction in m._reaction` resp. the C01 clause `row m.id
      holds the coefficient of m (0 when m is no key) for the forward variable, its negative for the reverse one, for every member m`
      held at entry, it holds at exit;
  undo-restores:combine / :replace: the call followed by the call its registered undo makes (combine: by KEYS_SUB an add_metabolites
      with the negated copy, combine=True; replace: add_metabolites(<old coefficient or 0>, combine=False)) gives back the
      stoichiometry, every `_reaction` set and the solver rows of every member, provided the entry state satisfied the invariants (no
      zero coefficient stored, the two clauses above, keys are members).  This is a statement about two applications of the proved
      post-conditions; that the preconditions hold again in the intermediate state is what xref-preserved / rows-preserved give.

Engine additions used (pyvc/builtins.py, additive): dict(<dict>) = copy, dict(<list of pairs>) = last-wins map (as for a
generator of pairs), list(<sequence of tuples of scalars>) = snapshot as parallel arrays (list(d.items())).
"""
import z3
import cobra  # noqa
from .common import *  # noqa
from . import c03_context as C3
from . import c15_dictlist as C15  # noqa
from . import c01_lp as C1
from . import c02_add_metabolites as AM
from pyvc import npalg as N  # noqa
from pyvc import builtins as _B
from pyvc.loops import havoc_locations
from pyvc.values import ident_of

MR = "cobra/core/reaction.py"
REG.fields.update({"_reaction": "set:ref:Reaction", "_model": "ref:Model"})
REG.classes.setdefault("Variable", [])
REG.classes.setdefault("Constraint", [])
MET = "ref:Metabolite"
RefReal = z3.ArraySort(Ref, z3.RealSort())
RefInt = z3.ArraySort(Ref, z3.IntSort())
SMat = z3.ArraySort(Id, RefReal)
S_ENTRY = z3.Const("S_entry", SMat)
WHERE0 = z3.K(Ref, z3.IntVal(-1))
cons_named = z3.Function("cons_named", Id, Ref)          # optlang Container: the constraint found under a name


def H(E, st, f):
    return E.eng.heap_arr(st, f)


def smat(st):
    """ghost: S[name of a constraint][variable] = the coefficient last handed to set_linear_coefficients (entry: what the solver
    holds)"""
    return st.ghost.get("S", S_ENTRY)


def where(st):
    """ghost witness map: the position at which a metabolite was appended to the local list new_metabolites"""
    return st.ghost.get("nm_where", WHERE0)


# ---------------------------------------------------------------- the objects
def _self_t(in_model=True):
    return TObj("Reaction", {"_model": AM._model_t() if in_model else TNone(), "_metabolites": TDict(MET, "real")})


def rid(E):
    return ident_of(E["self"].oid)


def model_of(E):
    return E.s0.objs[E["self"].oid]["attr:_model"]


def in_model(E):
    return isinstance(model_of(E), VObj)


def mid(E):
    return ident_of(model_of(E).oid)


def mmets(E):
    return E.s0.objs[model_of(E).oid]["attr:metabolites"]


def stoich_obj(E):
    return E.s0.objs[E["self"].oid]["attr:_metabolites"]


def stoich(E, st):
    """(dom, val) of reaction._metabolites in state st"""
    rec = st.objs[stoich_obj(E).oid]
    return rec["dom"], rec["val"]


def arg(E):
    rec = E.s0.objs[E["metabolites_to_add"].oid]
    return rec["dom"], rec["val"]


def member_at(E, st, m):
    """m is a member of model.metabolites in state st: the element found under its own identifier"""
    n, e = L(st, mmets(E))
    dm, vl = Dv(st, mmets(E))
    k = H(E, E.s0, "_id")[m]
    return z3.And(z3.Select(dm, k), e[vl[k]] == m)


def member(E, m):
    return member_at(E, E.s0, m)


def cons_obj(E):
    return E.s0.objs[model_of(E).oid]["attr:constraints"]


def cons_dom(E, st):
    """names of the solver's constraints in state st (model.constraints)"""
    return st.objs[cons_obj(E).oid]["dom"]


def fwd_rev(E):
    r = rid(E)
    return C1.fwd(r), C1.rev(r)


# ---------------------------------------------------------------- hooks
def _is_rxn(v):
    return isinstance(v, VObj) and v.kind == "obj" and v.cls == "Reaction"


def _inline_getter(eng, st, cls, name, recv):
    ci = eng.class_info(cls)
    return eng.call_closure(st, ci.getters[name], None, [recv], {}, module=ci.module)


def _inline_method(eng, st, cls, name, args, kw=None):
    ci = eng.class_info(cls)
    return eng.call_closure(st, ci.methods[name], None, list(args), kw or {}, module=ci.module)


def getattr_hook(eng, st, v, name):
    if _is_rxn(v) and name == "metabolites":
        return _inline_getter(eng, st, "Reaction", "metabolites", v)            # the real getter: self._metabolites.copy()
    if _is_rxn(v) and name in ("forward_variable", "reverse_variable") and isinstance(st.objs[v.oid].get("attr:_model"), VObj):
        # C01 (assumed getter contracts `Reaction.forward_variable@getter` / `reverse_variable@getter`, case in_model) at the
        # identity of the materialised reaction: the two optlang variables fwd(r), rev(r), distinct and not None
        r = ident_of(v.oid)
        return [("ok", st.assume(C1.vars_distinct(r)), VRef((C1.fwd if name == "forward_variable" else C1.rev)(r), "Variable"))]
    if isinstance(v, VRef) and v.cls == "Metabolite" and name == "model":
        return _inline_getter(eng, st, "Species", "model", v)                   # the real getter: self._model
    if isinstance(v, VRef) and v.cls == "Constraint" and name == "set_linear_coefficients":
        return [("ok", st, VFunc("bound", v, name))]
    return None


def _entry_self(eng):
    s = (getattr(eng, "entry_args", None) or {}).get("self")
    return s if _is_rxn(s) else None


def _is_model_constraints(eng, st, obj):
    s = _entry_self(eng)
    if s is None or not (isinstance(obj, VObj) and obj.kind == "set"):
        return False
    m = st.objs[s.oid].get("attr:_model")
    return isinstance(m, VObj) and isinstance(st.objs[m.oid].get("attr:constraints"), VObj) and st.objs[m.oid]["attr:constraints"].oid == obj.oid


def getitem_hook(eng, st, obj, idx):
    """model.constraints[name] (ASSUMED, optlang Container keyed by constraint names): the constraint of that name, KeyError when
    there is none"""
    if _is_model_constraints(eng, st, obj) and isinstance(idx, (VStr, VConc)):
        k = unwrap(idx, "id")
        rec = st.objs[obj.oid]
        out = []
        for has, s2 in eng.branch(st, z3.Select(rec["dom"], k)):
            if has:
                c = cons_named(k)
                out.append(("ok", s2.assume(C3.cname(c) == k, c != NULL), VRef(c, "Constraint")))
            else:
                out.append(eng.raise_(s2, "KeyError"))
        return out
    return None


def _apply_model_add_metabolites(eng, st, recv, lst):
    """model.add_metabolites(<non-empty list>) by the contract `Model.add_metabolites` proved in c02_add_metabolites (its
    precondition and the requirement of its case `joining` are obliged, its frame is havocked, the part of its post-condition that
    can be stated at a call site is assumed: model.metabolites well formed again, the old members in place, the new tail = exactly
    the joining metabolites, model pointers and reaction sets as `_pointers` says).
    Two ASSUMPTIONS replace what that contract leaves open (said in the docstring of this module):
      (a) the call does not raise when the identifiers of the new metabolites are pairwise different (obliged here) - its contract
          states the ValueError of DictList.__iadd__ without a condition;
      (b) Model.add_cons_vars, which the callee only records, makes the constraints it is handed findable by name: afterwards
          model.constraints has a constraint named by the identifier of every joining metabolite, and every older constraint."""
    con = eng.reg.get("Model.add_metabolites")
    a = {"self": recv, "metabolite_list": lst}
    E0 = Env(a, st, eng=eng)
    ids = eng.heap_arr(st, "_id")
    nl, el = L(st, lst)
    eng.oblige_split(st, con.pre(E0), "call:Model.add_metabolites/pre", kind="callpre")
    st = st.assume(con.pre(E0))
    eng.oblige(st, z3.Not(AM._some_bad(E0)), "call:Model.add_metabolites/case-joining", kind="callpre")
    j1, j2 = qv("aj1"), qv("aj2")
    distinct = FA([j1, j2], z3.Implies(z3.And(0 <= j1, j1 < j2, j2 < nl), ids[el[j1]] != ids[el[j2]]),
                  patterns=[z3.MultiPattern(el[j1], el[j2])])
    eng.oblige(st, distinct, "call:Model.add_metabolites/new-identifiers-pairwise-different", kind="callpre")
    st = st.assume(z3.Not(AM._some_bad(E0)), distinct)
    s2 = havoc_locations(eng, st, con.modifies(E0))
    E1 = Env(a, st, s2, eng=eng)
    mets = AM._mets(E1, st)
    n0, e0 = L(st, mets)
    n1, e1 = L(s2, mets)
    j = qv("aj")
    s2 = s2.assume(WF(E1, s2, mets), n1 >= n0,
                   FA([j], z3.Implies(z3.And(0 <= j, j < n0), e1[j] == e0[j]), patterns=[e1[j]]),
                   AM._is_filtered(E1, e1, n0, n1), AM._pointers(E1, s2, e1, n0, n1))
    # (b)
    cons = st.objs[recv.oid]["attr:constraints"]
    c0 = st.objs[cons.oid]["dom"]
    c1 = fresh("cons_after", c0.sort())
    k = qv("ak", Id)
    s2 = s2.assume(FA([k], z3.Implies(z3.Select(c0, k), z3.Select(c1, k)), patterns=[z3.Select(c0, k)]),
                   FA([j], z3.Implies(z3.And(n0 <= j, j < n1), z3.Select(c1, ids[e1[j]])), patterns=[e1[j]]))
    s2 = s2.updobj(cons.oid, dom=c1)
    s2 = s2.setghost("model_add_metabolites", s2.ghost.get("model_add_metabolites", ()) + ((lst, st, s2),))
    return _call_site_lemmas(eng, st, s2, recv, lst)


def _call_site_lemmas(eng, st, s2, model, lst):
    """consequences of the callee's post-condition in the vocabulary of this function, each OBLIGED and then assumed (they make the
    later obligations independent of the callee's formulation)"""
    s = _entry_self(eng)
    E = Env(eng.entry_args, eng.entry_state, s2, eng=eng)
    ids = eng.heap_arr(st, "_id")
    mets = st.objs[model.oid]["attr:metabolites"]
    n0, e0 = L(st, mets)
    n1, e1 = L(s2, mets)
    dm0, vl0 = Dv(st, mets)
    nl, el = L(st, lst)
    d, _ = stoich(E, st)
    a, _ = arg(E)
    Mo0 = eng.heap_arr(eng.entry_state, "_model")
    MoC, Mo1 = eng.heap_arr(st, "_model"), eng.heap_arr(s2, "_model")
    RxC, Rx1 = eng.heap_arr(st, "_reaction"), eng.heap_arr(s2, "_reaction")
    c1 = cons_dom(E, s2)
    me = ident_of(model.oid)
    m, x, j = qv("zm", Ref), qv("zx", Ref), qv("zj")
    isnew = lambda y: z3.And(a[y], Mo0[y] == NULL)  # noqa
    lemmas = [
        # an old member is still the element found under its identifier
        ("old-members-stay", FA([m], z3.Implies(member_at(E, st, m), z3.And(e1[vl0[ids[m]]] == m, member_at(E, s2, m))),
                                patterns=[vl0[ids[m]]])),
        # every element of the list is a member now, points at the model, has its constraint
        ("new-members", FA([j], z3.Implies(z3.And(0 <= j, j < nl), z3.And(member_at(E, s2, el[j]), Mo1[el[j]] == me,
                                                                         z3.Select(c1, ids[el[j]]))), patterns=[el[j]])),
        # hence: every metabolite of the reaction is a member and has its constraint
        ("reaction-metabolites-are-members", FA([m], z3.Implies(d[m], z3.And(member_at(E, s2, m), z3.Select(c1, ids[m]))),
                                                patterns=[d[m]])),
        # model pointers: exactly the new keys changed
        ("model-pointers", FA([m], Mo1[m] == z3.If(isnew(m), me, MoC[m]), patterns=[Mo1[m]])),
        # reaction sets: as they were (a new metabolite lists only this reaction, which belongs to the model)
        ("reaction-sets", FA([m, x], Rx1[m][x] == RxC[m][x], patterns=[Rx1[m][x]])),
    ]
    for name, f in lemmas:
        eng.oblige(s2, f, f"call:Model.add_metabolites/lemma:{name}", kind="side")
        s2 = s2.assume(f)
    return [("ok", s2, NONE)]


def call_method_hook(eng, st, recv, name, pos, kw):
    if isinstance(recv, VRef) and recv.cls == "Metabolite" and name == "__str__" and not pos:
        return _inline_method(eng, st, "Object", "__str__", [recv])             # the real method: str(self.id)
    if isinstance(recv, VObj) and recv.cls == "Model" and name == "add_metabolites" and len(pos) == 1 and not kw \
            and isinstance(pos[0], VObj) and pos[0].kind == "list":
        n = st.objs[pos[0].oid]["len"]
        out = []
        for empty, s2 in eng.branch(st, n == 0):
            if empty:
                # an empty list: the REAL function is executed (it returns at once: `if len(metabolite_list) == 0: return None`)
                out.extend(_inline_method(eng, s2.updobj(pos[0].oid, len=z3.IntVal(0)), "Model", "add_metabolites", [recv, pos[0]]))
            else:
                out.extend(_apply_model_add_metabolites(eng, s2, recv, pos[0]))
        return out
    if isinstance(recv, VObj) and recv.kind == "list" and recv.cls == "list" and name == "append" and len(pos) == 1 \
            and isinstance(pos[0], VRef) and _entry_self(eng) is not None:
        nmv = st.lookup(eng._top_fid, "new_metabolites")
        if isinstance(nmv, VObj) and nmv.oid == recv.oid:
            # new_metabolites.append(m): list semantics + the ghost witness map where[m] := the position
            n = st.objs[recv.oid]["len"]
            outs = _B.list_append(eng, st, recv, pos[0])
            return [(k, s2.setghost("nm_where", z3.Store(where(st), pos[0].t, n)) if k == "ok" else s2, v) for k, s2, v in outs]
    if isinstance(recv, VRef) and recv.cls == "Constraint" and name == "set_linear_coefficients" and len(pos) == 1 and not kw:
        # ASSUMED (optlang): constraint.set_linear_coefficients({v: x, ...}) sets the coefficient of every variable of the
        # dictionary in THIS constraint to the given value and changes nothing else; recorded in the ghost matrix S under the
        # constraint's name
        d = pos[0]
        rec = st.objs[d.oid] if isinstance(d, VObj) and d.kind == "dict" else None
        if rec is None or rec.get("lazy") or rec.get("pure") or not rec["kkind"].startswith("ref") or rec["vkind"] != "real":
            raise Unsupported("set_linear_coefficients needs a {variable: number} dictionary")
        k = C3.cname(recv.t)
        s0_ = smat(st)
        row1, u = fresh("row", RefReal), qv("su", Ref)
        ax = FA([u], row1[u] == z3.If(z3.Select(rec["dom"], u), z3.Select(rec["val"], u), s0_[k][u]), patterns=[row1[u]])
        return [("ok", st.assume(ax).setghost("S", z3.Store(s0_, k, row1)), NONE)]
    if isinstance(recv, VObj) and recv.kind == "dict" and name == "get" and len(pos) == 2 and not kw \
            and isinstance(pos[1], (VInt, VReal)) and not st.objs[recv.oid].get("lazy") and not st.objs[recv.oid].get("pure") \
            and st.objs[recv.oid].get("vkind") == "real":
        # d.get(key, <number>) on a {key: float} dictionary as ONE value (no fork, so that it can stand inside a comprehension)
        rec = st.objs[recv.oid]
        k = unwrap(pos[0], rec["kkind"])
        dflt = eng.to_real(pos[1])
        return [("ok", st, VReal(z3.If(z3.Select(rec["dom"], k), z3.IntVal(0), dflt.k), z3.If(z3.Select(rec["dom"], k), z3.Select(rec["val"], k), dflt.v)))]
    return None


HOOKS = chain_hooks({"getattr": getattr_hook, "getitem": getitem_hook, "call_method": call_method_hook}, AM.HOOKS)


# ---------------------------------------------------------------- the argument seen as a map over metabolites
class ObjectKeys:
    """keys are Metabolite objects"""
    tag, ptype = "object_keys", TDict(MET, "real")

    @staticmethod
    def has(E, m):
        return arg(E)[0][m]

    @staticmethod
    def coef(E, m):
        return arg(E)[1][m]

    @staticmethod
    def key(E, m):
        return m


class StringKeys:
    """keys are identifiers; reaction in a model: key k denotes the model's metabolite with that identifier"""
    tag, ptype = "string_keys", TDict("id", "real")

    @staticmethod
    def has(E, m):
        return z3.And(member(E, m), z3.Select(arg(E)[0], H(E, E.s0, "_id")[m]))

    @staticmethod
    def coef(E, m):
        return z3.Select(arg(E)[1], H(E, E.s0, "_id")[m])

    @staticmethod
    def key(E, m):
        return H(E, E.s0, "_id")[m]


class DetachedStringKeys(StringKeys):
    """keys are identifiers; model-less reaction: key k denotes the reaction's metabolite with that identifier"""

    @staticmethod
    def has(E, m):
        return z3.And(stoich(E, E.s0)[0][m], z3.Select(arg(E)[0], H(E, E.s0, "_id")[m]))


# ---------------------------------------------------------------- preconditions
def _pre_in_model(E):
    """the invariants of C02 / C01 the function relies on (reaction IN a model)"""
    d0, _ = stoich(E, E.s0)
    Rx0 = H(E, E.s0, "_reaction")
    cons = cons_dom(E, E.s0)
    n, e = L(E.s0, mmets(E))
    ids = H(E, E.s0, "_id")
    m, j = qv("pm", Ref), qv("pj")
    return z3.And(
        WF(E, E.s0, mmets(E)), C3._ctx_nonnull(E, "self"),
        # every metabolite of the reaction is a member of model.metabolites and lists the reaction (C02)
        FA([m], z3.Implies(d0[m], z3.And(member(E, m), Rx0[m][rid(E)])), patterns=[d0[m]]),
        # every metabolite of the model has its mass-balance constraint, named by its identifier (C01)
        FA([j], z3.Implies(z3.And(0 <= j, j < n), z3.Select(cons, ids[e[j]])), patterns=[e[j]]))


def _object_keys_are_members(E):
    a, _ = arg(E)
    Mo = H(E, E.s0, "_model")
    m = qv("km", Ref)
    return FA([m], z3.Implies(a[m], z3.And(member(E, m), Mo[m] == mid(E))), patterns=[a[m]])


def is_new(E, m):
    """a key that belongs to no model (it is handed to model.add_metabolites)"""
    return z3.And(arg(E)[0][m], H(E, E.s0, "_model")[m] == NULL)


def _object_keys_members_or_new(E):
    a, _ = arg(E)
    Mo, Rx0, ids = H(E, E.s0, "_model"), H(E, E.s0, "_reaction"), H(E, E.s0, "_id")
    dm, _ = Dv(E.s0, mmets(E))
    m, m2, x = qv("km", Ref), qv("km2", Ref), qv("kx", Ref)
    r = rid(E)
    return z3.And(
        # a key is a metabolite of this model, or a NEW one: it has no model, its identifier is non-empty and not used in the model
        FA([m], z3.Implies(a[m], z3.If(Mo[m] == NULL, z3.And(m != NULL, z3.Not(z3.Select(dm, ids[m])), AM.idlen(ids[m]) >= 1),
                                       z3.And(member(E, m), Mo[m] == mid(E)))), patterns=[a[m]]),
        # ... it lists no reaction yet, and two new keys have different identifiers
        FA([m, x], z3.Implies(is_new(E, m), z3.Not(Rx0[m][x])), patterns=[Rx0[m][x]]),
        FA([m, m2], z3.Implies(z3.And(is_new(E, m), is_new(E, m2), ids[m] == ids[m2]), m == m2), patterns=[z3.MultiPattern(a[m], a[m2])]),
        # type discipline / glue: the reaction is not one of the keys; the heap's model pointer of the reaction is the model
        z3.Not(a[r]), Mo[r] == mid(E), z3.Not(_has_ctx(E)))


def _all_ids_known(E):
    a, _ = arg(E)
    dm, _ = Dv(E.s0, mmets(E))
    k = qv("kk", Id)
    return FA([k], z3.Implies(z3.Select(a, k), z3.Select(dm, k)), patterns=[z3.Select(a, k)])


def _some_id_unknown(E):
    a, _ = arg(E)
    dm, _ = Dv(E.s0, mmets(E))
    k = qv("uk", Id)
    return z3.Exists([k], z3.And(z3.Select(a, k), z3.Not(z3.Select(dm, k))))


def _has_ctx(E):
    return C3._gc_has(Env({"obj": E["self"]}, E.s0, eng=E.eng))


def _undoable(E):
    return z3.And(_has_ctx(E), E["reversibly"].t)


def _pre_detached(E):
    """model-less reaction: its metabolites have pairwise different identifiers and list the reaction"""
    d0, _ = stoich(E, E.s0)
    Rx0, ids = H(E, E.s0, "_reaction"), H(E, E.s0, "_id")
    m, m2 = qv("pm", Ref), qv("pm2", Ref)
    return z3.And(FA([m, m2], z3.Implies(z3.And(d0[m], d0[m2], ids[m] == ids[m2]), m == m2), patterns=[z3.MultiPattern(d0[m], d0[m2])]),
                  FA([m], z3.Implies(d0[m], Rx0[m][rid(E)]), patterns=[d0[m]]))


def _pre_detached_object_keys(E):
    a, _ = arg(E)
    d0, _ = stoich(E, E.s0)
    Mo, ids = H(E, E.s0, "_model"), H(E, E.s0, "_id")
    m, x = qv("km", Ref), qv("kx", Ref)
    return z3.And(_pre_detached(E),
                  # the keys belong to no model (else the function works on copies of them) ...
                  FA([m], z3.Implies(a[m], Mo[m] == NULL), patterns=[a[m]]),
                  # ... and a key with the identifier of a metabolite of the reaction IS that metabolite
                  FA([m, x], z3.Implies(z3.And(a[m], d0[x], ids[m] == ids[x]), m == x), patterns=[z3.MultiPattern(a[m], d0[x])]))


def _det_some_foreign(E):
    """some key is not the identifier of a metabolite of the reaction"""
    a, _ = arg(E)
    d0, _ = stoich(E, E.s0)
    ids = H(E, E.s0, "_id")
    k, m = qv("dk", Id), qv("dm", Ref)
    return z3.Exists([k], z3.And(z3.Select(a, k), z3.Not(z3.Exists([m], z3.And(d0[m], ids[m] == k)))))


# ---------------------------------------------------------------- what the call computes
def new_coef(E, V, m):
    """the coefficient the call gives metabolite m of the argument (before zero entries are dropped)"""
    d0, v0 = stoich(E, E.s0)
    return z3.If(z3.And(E["combine"].t, d0[m]), v0[m] + V.coef(E, m), V.coef(E, m))


def final_coef(E, V, m):
    d0, v0 = stoich(E, E.s0)
    return z3.If(V.has(E, m), new_coef(E, V, m), v0[m])


def touched(E, V, m):
    d0, _ = stoich(E, E.s0)
    return z3.Or(d0[m], V.has(E, m))


# ---------------------------------------------------------------- loop invariants
def _i2m(Lc):
    d = Lc.var("_id_to_metabolites")
    rec = Lc.st.objs[d.oid]
    return rec["dom"], rec["val"]


def _i2m_facts(E, Lc, both=True):
    """helper facts about the look-up table by identifier (consequences of the comprehension and of the precondition)"""
    d0, _ = stoich(E, E.s0)
    ids = H(E, E.s0, "_id")
    idom, ival = _i2m(Lc)
    m, k = qv("hm", Ref), qv("hk", Id)
    out = [FA([k], z3.Implies(z3.Select(idom, k), z3.And(d0[ival[k]], ids[ival[k]] == k)), patterns=[z3.Select(idom, k)])]
    if both:
        out.append(FA([m], z3.Implies(d0[m], z3.And(z3.Select(idom, ids[m]), ival[ids[m]] == m)), patterns=[d0[m]]))
    return out


def _order(E, Lc):
    """ghost enumeration of the dictionary loops 0 and 1 run over (the function's own copy of the argument)"""
    d = Lc.var("metabolites_to_add")
    rec = Lc.st.objs[d.oid]
    return Lc.st.ghost[("order", d.oid, rec["dom"].get_id())]


# ---- loop 0: the identifier check
def _inv_check(V):
    def inv(E, Lc):
        if V is ObjectKeys:
            return z3.BoolVal(True)                          # object keys: the body does nothing
        order, pos, card = _order(E, Lc)
        a, _ = arg(E)
        idom, _ = _i2m(Lc)
        known = Dv(E.s0, mmets(E))[0] if in_model(E) else idom     # model-less: the key names a metabolite of the reaction
        k = qv("ck", Id)
        return z3.And(*(_i2m_facts(E, Lc) + [
            FA([k], z3.Implies(z3.And(z3.Select(a, k), pos[k] < Lc.i), z3.Select(known, k)), patterns=[pos[k]])]))
    return inv


# ---- loop 1: the main loop over metabolites_to_add.items()
def _inv_main(V, with_new=False):
    def inv(E, Lc):
        st, i = Lc.st, Lc.i
        order, pos, card = _order(E, Lc)
        d0, v0 = stoich(E, E.s0)
        d, v = stoich(E, st)
        Rx0, Rx = H(E, E.s0, "_reaction"), H(E, st, "_reaction")
        r = rid(E)
        done = lambda m: z3.And(V.has(E, m), pos[V.key(E, m)] < i)  # noqa
        m, x = qv("lm", Ref), qv("lx", Ref)
        nmrec = Lc.st.objs[Lc.var("new_metabolites").oid]
        nm, el = nmrec["len"], nmrec["elem"]
        cs = _i2m_facts(E, Lc) + [
            # the stoichiometry so far
            FA([m], d[m] == z3.Or(d0[m], done(m)), patterns=[d[m]]),
            FA([m], v[m] == z3.If(done(m), new_coef(E, V, m), v0[m]), patterns=[v[m]]),
            # back references so far
            FA([m, x], Rx[m][x] == z3.If(z3.And(x == r, done(m), z3.Not(d0[m])), z3.BoolVal(True), Rx0[m][x]), patterns=[Rx[m][x]])]
        if not with_new:
            return z3.And(*(cs + [nm == 0]))
        # new_metabolites = the new keys handled so far, each once (ghost witness map where)
        if not str(nmrec["ekind"]).startswith("ref"):
            return z3.And(*(cs + [nm == 0, i == 0]))       # the still untyped empty list display (state at loop entry)
        wh = where(st)
        j, j2 = qv("lj"), qv("lj2")
        cs += [nm >= 0,
               FA([j], z3.Implies(z3.And(0 <= j, j < nm), z3.And(is_new(E, el[j]), pos[el[j]] < i)), patterns=[el[j]]),
               FA([j, j2], z3.Implies(z3.And(0 <= j, j < j2, j2 < nm), el[j] != el[j2]), patterns=[z3.MultiPattern(el[j], el[j2])]),
               FA([m], z3.Implies(z3.And(is_new(E, m), pos[m] < i), z3.And(0 <= wh[m], wh[m] < nm, el[wh[m]] == m)), patterns=[wh[m]])]
        return z3.And(*cs)
    return inv


def _mod_main(with_new=False):
    def mod(E, Lc):
        locs = [("dict", stoich_obj(E)), ("heap", "_reaction"), ("list", Lc.var("new_metabolites"), MET)]
        if with_new:
            locs.append(("ghost", "nm_where", lambda st: fresh("nm_where", RefInt)))
        return locs
    return mod


# ---- loop 2: the solver rows
def _inv_solver(E, Lc):
    st, i, en = Lc.st, Lc.i, Lc.entry
    d1, v1 = stoich(E, en)
    order, pos, card = en.ghost[("order", stoich_obj(E).oid, d1.get_id())]
    S0, S = smat(E.s0), smat(st)
    ids = H(E, E.s0, "_id")
    f, b = fwd_rev(E)
    n, e = L(en, mmets(E))
    dm, vl = Dv(en, mmets(E))
    cons = cons_dom(E, en)
    m, k, u = qv("sm", Ref), qv("sk", Id), qv("su", Ref)
    done = lambda y: z3.And(d1[y], pos[y] < i)  # noqa
    return z3.And(
        # helper (a fact about the state the loop is entered in): the metabolites of the reaction are members of the model, each
        # with its constraint
        FA([m], z3.Implies(d1[m], z3.And(member_at(E, en, m), z3.Select(cons, ids[m]))), patterns=[d1[m]]),
        FA([m], z3.Implies(done(m), z3.And(S[ids[m]][f] == v1[m], S[ids[m]][b] == -v1[m])), patterns=[pos[m]]),
        FA([k, u], z3.Implies(S[k][u] != S0[k][u], z3.And(z3.Or(u == f, u == b), z3.Select(dm, k), done(e[vl[k]]))), patterns=[S[k][u]]))


def _mod_solver(E, Lc):
    return [("ghost", "S", lambda st: fresh("S", SMat))]


# ---- loop 3: zero coefficients are dropped
def _inv_cleanup(E, Lc):
    st, i, en = Lc.st, Lc.i, Lc.entry
    d1, v1 = stoich(E, en)
    d, v = stoich(E, st)
    order, pos, card = en.ghost[("order", stoich_obj(E).oid, d1.get_id())]
    Rx1, Rx = H(E, en, "_reaction"), H(E, st, "_reaction")
    r = rid(E)
    m, x = qv("cm", Ref), qv("cx", Ref)
    gone = lambda y: z3.And(d1[y], pos[y] < i, v1[y] == 0)  # noqa
    return z3.And(
        FA([m], z3.Implies(d1[m], Rx1[m][r]), patterns=[d1[m]]),      # helper: every metabolite of the reaction lists it
        FA([m], d[m] == z3.And(d1[m], z3.Not(gone(m))), patterns=[d[m]]),
        FA([m], v[m] == v1[m], patterns=[v[m]]),
        FA([m, x], Rx[m][x] == z3.If(z3.And(x == r, gone(m)), z3.BoolVal(False), Rx1[m][x]), patterns=[Rx[m][x]]))


def _mod_cleanup(E, Lc):
    return [("dict", stoich_obj(E)), ("heap", "_reaction")]


def _loops(V, with_new=False):
    return {0: LoopSpec(_inv_check(V), lambda E, Lc: []), 1: LoopSpec(_inv_main(V, with_new), _mod_main(with_new)),
            2: LoopSpec(_inv_solver, _mod_solver), 3: LoopSpec(_inv_cleanup, _mod_cleanup)}


# ---------------------------------------------------------------- post-conditions
def reaction_facts(d0, v0, d1, v1, Rx0, Rx1, r, tch, fin):
    """(1), (2) over plain arrays (shared by the post-conditions and the glue lemmas)"""
    m, x = qv("qm", Ref), qv("qx", Ref)
    return [
        # (1) stoichiometry: the keys afterwards are the touched metabolites with a non-zero final coefficient, with that coefficient
        FA([m], d1[m] == z3.And(tch(m), fin(m) != 0), patterns=[d1[m]]),
        FA([m], z3.Implies(d1[m], v1[m] == fin(m)), patterns=[v1[m]]),
        # (2) back references
        FA([m], z3.Implies(tch(m), Rx1[m][r] == d1[m]), patterns=[Rx1[m][r]]),
        FA([m, x], z3.Implies(Rx1[m][x] != Rx0[m][x], z3.And(x == r, tch(m))), patterns=[Rx1[m][x]])]


def solver_facts(S0, S1, ids, f, b, dm, vl, e, tch, fin):
    """(3) over plain arrays: for every touched metabolite the row named by its identifier holds the final coefficient for the
    forward variable and its negative for the reverse variable; no other entry of the matrix was written"""
    m, k, u = qv("qm", Ref), qv("qk", Id), qv("qu", Ref)
    return [
        FA([m], z3.Implies(tch(m), z3.And(S1[ids[m]][f] == fin(m), S1[ids[m]][b] == -fin(m))), patterns=[S1[ids[m]]]),
        FA([k, u], z3.Implies(S1[k][u] != S0[k][u], z3.And(z3.Or(u == f, u == b), z3.Select(dm, k), tch(e[vl[k]]))),
           patterns=[S1[k][u]])]


def _post_reaction(E, V):
    """stoichiometry and back references"""
    d0, v0 = stoich(E, E.s0)
    d1, v1 = stoich(E, E.s1)
    # the attribute still holds the dictionary OBJECT it held at entry (a body that rebinds self._metabolites would otherwise pass:
    # every clause below reads that object, and the frame check skips attributes whose entry object is listed in `modifies`)
    same_obj = z3.BoolVal(bool(E.s1.objs[E["self"].oid]["attr:_metabolites"].oid == stoich_obj(E).oid))
    return [same_obj] + reaction_facts(d0, v0, d1, v1, H(E, E.s0, "_reaction"), H(E, E.s1, "_reaction"), rid(E),
                                       lambda y: touched(E, V, y), lambda y: final_coef(E, V, y))


def _post_solver(E, V):
    f, b = fwd_rev(E)
    n, e = L(E.s1, mmets(E))
    dm, vl = Dv(E.s1, mmets(E))
    return solver_facts(smat(E.s0), smat(E.s1), H(E, E.s0, "_id"), f, b, dm, vl, e,
                        lambda y: touched(E, V, y), lambda y: final_coef(E, V, y))


def _post_effect(E, V):
    return _post_reaction(E, V) + (_post_solver(E, V) if in_model(E) else [z3.BoolVal(smat(E.s1).eq(smat(E.s0)))])


def _trace(E):
    return E.s1.ghost.get("trace", ())


def _no_model_call(E):
    return len(E.s1.ghost.get("am_trace", ())) == 0 and len(E.s1.ghost.get("model_add_metabolites", ())) == 0


def _no_undo(E):
    return z3.BoolVal(len(_trace(E)) == 0 and _no_model_call(E))


def _post_plain(V):
    return lambda E: z3.And(*(_post_effect(E, V) + [_no_undo(E)]))


def _is_flag(v, val):
    return isinstance(v, VBool) and (z3.is_true(v.t) if val else z3.is_false(v.t))


def _undo_entry(E, method):
    """the ONE registration: (context term, dictionary handed to partial(self.<method>, <dict>, combine=<as given>,
    reversibly=False)) or None"""
    tr = _trace(E)
    if len(tr) != 1 or tr[0][0] != "push" or not _no_model_call(E):
        return None
    _, ctx, f = tr[0]
    ok = (isinstance(f, VFunc) and f.kind == "partial" and isinstance(f.a, VFunc) and f.a.kind == "bound" and isinstance(f.a.a, VObj)
          and f.a.a.oid == E["self"].oid and f.a.b == method and len(f.b) == 1 and isinstance(f.b[0], VObj) and f.b[0].kind == "dict"
          and set(f.c or {}) == {"combine", "reversibly"} and _is_flag(f.c["combine"], method == "subtract_metabolites")
          and _is_flag(f.c["reversibly"], False)
          and f.b[0].oid != E["metabolites_to_add"].oid)                # NOT the caller's dictionary
    return (ctx.t, f.b[0]) if ok else None


def _post_undo_combine(V):
    def post(E):
        u = _undo_entry(E, "subtract_metabolites")
        if u is None:
            return z3.BoolVal(False)
        ctx, d = u
        nc, ec = C3._ctxs(E.s0, model_of(E))
        a, av = arg(E)
        rec = E.s1.objs[d.oid]
        k = qv("uk", a.sort().domain())
        same = z3.BoolVal(True) if rec["dom"].eq(a) and rec["val"].eq(av) else \
            FA([k], z3.And(z3.Select(rec["dom"], k) == z3.Select(a, k), z3.Implies(z3.Select(a, k), z3.Select(rec["val"], k) == z3.Select(av, k))))
        # registered in the innermost context: subtract_metabolites(<a copy of the argument as it was at entry>, combine=True, reversibly=False)
        return z3.And(*(_post_effect(E, V) + [ctx == ec[nc - 1], same]))
    return post


def _post_undo_replace(V):
    def post(E):
        u = _undo_entry(E, "add_metabolites")
        if u is None:
            return z3.BoolVal(False)
        ctx, d = u
        nc, ec = C3._ctxs(E.s0, model_of(E))
        a, av = arg(E)
        d0, v0 = stoich(E, E.s0)
        n, e = L(E.s0, mmets(E))
        dm, vl = Dv(E.s0, mmets(E))
        rec = E.s1.objs[d.oid]
        k = qv("uk", a.sort().domain())
        met = k if V is ObjectKeys else e[vl[k]]
        # registered in the innermost context: add_metabolites({key: old coefficient, 0 for a metabolite that was not part of the
        # reaction}, combine=False, reversibly=False) with exactly the keys of the argument
        return z3.And(*(_post_effect(E, V) + [
            ctx == ec[nc - 1],
            FA([k], z3.Select(rec["dom"], k) == z3.Select(a, k), patterns=[z3.Select(rec["dom"], k)]),
            FA([k], z3.Implies(z3.Select(a, k), z3.Select(rec["val"], k) == z3.If(d0[met], v0[met], 0)), patterns=[z3.Select(rec["val"], k)])]))
    return post


def _post_new(E):
    """keys that are new metabolites: the effect on reaction and solver, plus what became of the model"""
    V = ObjectKeys
    a, _ = arg(E)
    Mo0, Mo1 = H(E, E.s0, "_model"), H(E, E.s1, "_model")
    n0, e0 = L(E.s0, mmets(E))
    n1, e1 = L(E.s1, mmets(E))
    m, j = qv("nm", Ref), qv("nj")
    return z3.And(*(_post_effect(E, V) + [
        z3.BoolVal(len(_trace(E)) == 0),
        # (4) afterwards every key is a member of model.metabolites and points at the model; model pointers changed for exactly
        #     the new keys; model.metabolites is well formed, its old members are where they were
        FA([m], z3.Implies(a[m], z3.And(member_at(E, E.s1, m), Mo1[m] == mid(E))), patterns=[a[m]]),
        FA([m], z3.Implies(Mo1[m] != Mo0[m], is_new(E, m)), patterns=[Mo1[m]]),
        WF(E, E.s1, mmets(E)), n1 >= n0,
        FA([j], z3.Implies(z3.And(0 <= j, j < n0), e1[j] == e0[j]), patterns=[e1[j]])]))


def _unchanged_ghost(E):
    return z3.BoolVal(smat(E.s1).eq(smat(E.s0)) and len(_trace(E)) == 0 and _no_model_call(E))


def _modifies(E):
    return [("dict", stoich_obj(E)), ("heap", "_reaction"), ("ghost", "S", lambda st: fresh("S", SMat)),
            ("ghost", "trace", lambda st: ())]


def _modifies_new(E):
    mets = mmets(E)
    return _modifies(E) + dl_locs(Env({"self": mets}, E.s0, eng=E.eng)) + [
        ("attr", model_of(E), "metabolites", lambda st: (st, mets)), ("heap", "_model"), ("set", cons_obj(E))]


def _params(V, in_model=True):
    ps = [("self", _self_t(in_model)), ("metabolites_to_add", V.ptype), ("combine", TBool()), ("reversibly", TBool())]
    for p in ps[2:]:
        p[1].default = VBool(True)
    return ps


_COMBINE = (("combine", lambda E: E["combine"].t), ("replace", lambda E: z3.Not(E["combine"].t)))


def _effect_cases(V, extra=None):
    """combine / replace x nothing registered (no context open, or reversibly=False) / the undo registered"""
    extra = extra or (lambda E: z3.BoolVal(True))
    cs = []
    for cname_, cmb in _COMBINE:
        cs.append(Case(f"in_model:{V.tag}:{cname_}:nothing_to_register",
                       requires=lambda E, cmb=cmb: z3.And(extra(E), cmb(E), z3.Not(_undoable(E))), ensures=_post_plain(V)))
        cs.append(Case(f"in_model:{V.tag}:{cname_}:undo_registered",
                       requires=lambda E, cmb=cmb: z3.And(extra(E), cmb(E), _undoable(E)),
                       ensures=(_post_undo_combine if cname_ == "combine" else _post_undo_replace)(V)))
    return cs


KEY_OBJ, KEY_STR, KEY_NEW = (f"Reaction.add_metabolites[{t}]" for t in ("object_keys", "string_keys", "new_metabolites"))
KEY_DET_OBJ, KEY_DET_STR, KEY_DET = (f"Reaction.add_metabolites[{t}]" for t in ("detached:object_keys", "detached:string_keys", "detached"))
KEYS = [KEY_OBJ, KEY_STR, KEY_NEW, KEY_DET_OBJ, KEY_DET_STR, KEY_DET]

REG.add(Contract(MR, "Reaction.add_metabolites", "C02", _params(ObjectKeys), _effect_cases(ObjectKeys),
                 pre=lambda E: z3.And(_pre_in_model(E), _object_keys_are_members(E)), modifies=_modifies, loops=_loops(ObjectKeys),
                 key=KEY_OBJ, props=["C02", "C01"],
                 note="reaction IN a model (materialised), without / with an open context; every key of the argument is a member "
                      "of model.metabolites that points at the model (keys of another model: not covered); C02 / C01 invariants as "
                      "precondition; optlang look-up and set_linear_coefficients ASSUMED (ghost matrix S); see the module docstring"))

_unknown = Case("in_model:string_keys:unknown_identifier", requires=_some_id_unknown, raises="KeyError", ensures=_unchanged_ghost)
REG.add(Contract(MR, "Reaction.add_metabolites", "C02", _params(StringKeys), _effect_cases(StringKeys, _all_ids_known) + [_unknown],
                 pre=_pre_in_model, modifies=_modifies, loops=_loops(StringKeys),
                 key=KEY_STR, props=["C02", "C01"],
                 note="reaction IN a model, string keys: key k denotes the member of model.metabolites with identifier k; an unknown "
                      "identifier raises KeyError before anything is changed; otherwise as the object-key contract"))

REG.add(Contract(MR, "Reaction.add_metabolites", "C02", _params(ObjectKeys), [
    Case(f"in_model:new_metabolites:{c}", requires=cmb, ensures=_post_new) for c, cmb in _COMBINE],
    pre=lambda E: z3.And(_pre_in_model(E), _object_keys_members_or_new(E)), modifies=_modifies_new, loops=_loops(ObjectKeys, with_new=True),
    key=KEY_NEW, props=["C02", "C01"],
    note="reaction IN a model, NO context open; a key is a metabolite of the model or a NEW one (no model, non-empty identifier unused "
         "in the model, listed by no reaction, new identifiers pairwise different); glue: heap `_model` of the reaction is the model. "
         "The call model.add_metabolites(<non-empty list>) is handled by the contract Model.add_metabolites (c02_add_metabolites) plus "
         "two ASSUMPTIONS: it does not raise for pairwise different new identifiers; Model.add_cons_vars makes the constraints it is "
         "handed findable by name. New metabolites inside a context: not covered"))

# ---------------------------------------------------------------- the model-less reaction
REG.add(Contract(MR, "Reaction.add_metabolites", "C02", _params(ObjectKeys, in_model=False), [
    Case(f"detached:object_keys:{c}", requires=cmb, ensures=_post_plain(ObjectKeys)) for c, cmb in _COMBINE],
    pre=_pre_detached_object_keys, modifies=_modifies, loops=_loops(ObjectKeys), key=KEY_DET_OBJ, props=["C02"],
    note="model-less reaction, object keys that belong to no model; the reaction's metabolites have pairwise different identifiers and "
         "a key with the identifier of one of them IS that metabolite (another object with the same identifier: not covered)"))

REG.add(Contract(MR, "Reaction.add_metabolites", "C02", _params(DetachedStringKeys, in_model=False), [
    Case(f"detached:string_keys:{c}", requires=cmb, ensures=_post_plain(DetachedStringKeys)) for c, cmb in _COMBINE],
    pre=lambda E: z3.And(_pre_detached(E), z3.Not(_det_some_foreign(E))), modifies=_modifies, loops=_loops(DetachedStringKeys),
    key=KEY_DET_STR, props=["C02"],
    note="model-less reaction, every string key is the identifier of one of its metabolites (pairwise different identifiers)"))


def _inv_check_detached(E, Lc):
    order, pos, card = _order(E, Lc)
    a, _ = arg(E)
    idom, ival = _i2m(Lc)
    k = qv("ck", Id)
    return z3.And(*(_i2m_facts(E, Lc, both=False) + [
        FA([k], z3.Implies(z3.And(z3.Select(a, k), pos[k] < Lc.i), z3.Select(idom, k)), patterns=[pos[k]])]))


REG.add(Contract(MR, "Reaction.add_metabolites", "C02", _params(DetachedStringKeys, in_model=False), [
    Case("detached:string_keys:not_a_metabolite_of_the_reaction", requires=_det_some_foreign, raises="ValueError", ensures=_unchanged_ghost)],
    pre=_det_some_foreign, loops={0: LoopSpec(_inv_check_detached, lambda E, Lc: [])},
    key=KEY_DET, props=["C02"],
    note="model-less reaction, some string key is not the identifier of one of its metabolites: ValueError before anything is "
         "changed (no further precondition)"))


# ---------------------------------------------------------------- glue lemmas: the proved effect keeps the invariants of C02 / C01
def lemmas():
    """Closed formulas over plain arrays, built from the very clauses of the post-conditions (reaction_facts, solver_facts) with
    `touched` / `final` as arbitrary predicates T / F that satisfy what their definitions give (a key at entry is touched; an
    untouched metabolite keeps its coefficient):
      xref-preserved   if `m is a key of reaction._metabolites <=> reaction in m._reaction` held for every m at entry, it holds at
                       exit (C02, for this reaction; entries for other reactions do not change by (2));
      rows-preserved   if for every member m of model.metabolites the row named m.id held (coefficient of m, 0 when m is no key)
                       for the forward variable and its negative for the reverse variable at entry, the same holds at exit (C01)."""
    from pyvc.engine import Obl
    RB, RR = z3.ArraySort(Ref, z3.BoolSort()), RefReal
    RS = z3.ArraySort(Ref, RB)
    d0, d1, T = (z3.Const("lr_" + n, RB) for n in ("d0", "d1", "T"))
    v0, v1, F = (z3.Const("lr_" + n, RR) for n in ("v0", "v1", "F"))
    Rx0, Rx1 = (z3.Const("lr_" + n, RS) for n in ("Rx0", "Rx1"))
    S0, S1 = (z3.Const("lr_" + n, SMat) for n in ("S0", "S1"))
    r, f, b = (z3.Const("lr_" + n, Ref) for n in ("r", "f", "b"))
    ids = z3.Const("lr_ids", z3.ArraySort(Ref, Id))
    dm, vl = z3.Const("lr_dm", z3.ArraySort(Id, z3.BoolSort())), z3.Const("lr_vl", z3.ArraySort(Id, z3.IntSort()))
    e = z3.Const("lr_e", z3.ArraySort(z3.IntSort(), Ref))
    m = qv("lm", Ref)
    tch, fin = (lambda y: T[y]), (lambda y: F[y])
    defs = [FA([m], z3.Implies(d0[m], T[m]), patterns=[d0[m]]), FA([m], z3.Implies(z3.Not(T[m]), F[m] == v0[m]), patterns=[F[m]])]
    rf = reaction_facts(d0, v0, d1, v1, Rx0, Rx1, r, tch, fin)
    sf = solver_facts(S0, S1, ids, f, b, dm, vl, e, tch, fin)
    xref = lambda d, Rx: FA([m], d[m] == Rx[m][r], patterns=[d[m], Rx[m][r]])  # noqa
    member_ = lambda y: z3.And(z3.Select(dm, ids[y]), e[vl[ids[y]]] == y)  # noqa
    coef = lambda d, v, y: z3.If(d[y], v[y], 0)  # noqa
    rows = lambda S, d, v: FA([m], z3.Implies(member_(m), z3.And(S[ids[m]][f] == coef(d, v, m), S[ids[m]][b] == -coef(d, v, m))),  # noqa
                              patterns=[S[ids[m]]])
    out = [Obl("C02/lemma/Reaction.add_metabolites/xref-preserved", rf + defs + [xref(d0, Rx0)], xref(d1, Rx1), "lemma"),
           Obl("C01/lemma/Reaction.add_metabolites/rows-preserved", rf + sf + defs + [rows(S0, d0, v0)], rows(S1, d1, v1), "lemma")]
    # undo-restores: the call (state 0 -> 1, argument = the map A / AV over metabolites) followed by the call the registered undo
    # function makes (state 1 -> 2) - combine: add_metabolites(<same keys, negated values>, combine=True) (what subtract_metabolites
    # does with the registered copy: contract KEY_SUB); replace: add_metabolites(<same keys, old coefficient or 0>, combine=False) -
    # gives back the stoichiometry, the back references and the solver rows of state 0.  Both steps by the post-conditions (1)-(3)
    # only; hypotheses: the invariants at entry (no zero coefficient is stored, xref, rows).
    A = z3.Const("lr_A", RB)
    AV = z3.Const("lr_AV", RR)
    d2, v2, Rx2, S2 = z3.Const("lr_d2", RB), z3.Const("lr_v2", RR), z3.Const("lr_Rx2", RS), z3.Const("lr_S2", SMat)
    x, k, u = qv("lx", Ref), qv("lk", Id), qv("lu", Ref)
    inv0 = [FA([m], z3.Implies(d0[m], v0[m] != 0), patterns=[d0[m]]), xref(d0, Rx0), rows(S0, d0, v0),
            # the keys of both dictionaries are members of model.metabolites (precondition of both calls)
            FA([m], z3.Implies(z3.Or(d0[m], A[m]), member_(m)), patterns=[d0[m], A[m]])]
    goal = z3.And(FA([m], z3.And(d2[m] == d0[m], z3.Implies(d0[m], v2[m] == v0[m])), patterns=[d2[m], v2[m]]),
                  FA([m, x], Rx2[m][x] == Rx0[m][x], patterns=[Rx2[m][x]]),
                  FA([m], z3.Implies(member_(m), z3.And(S2[ids[m]][f] == S0[ids[m]][f], S2[ids[m]][b] == S0[ids[m]][b])),
                     patterns=[S2[ids[m]]]))
    for tag, cmb in (("combine", True), ("replace", False)):
        tch1 = lambda y: z3.Or(d0[y], A[y])  # noqa
        fin1 = (lambda y: z3.If(A[y], z3.If(d0[y], v0[y] + AV[y], AV[y]), v0[y])) if cmb else (lambda y: z3.If(A[y], AV[y], v0[y]))
        tch2 = lambda y: z3.Or(d1[y], A[y])  # noqa
        fin2 = (lambda y: z3.If(A[y], z3.If(d1[y], v1[y] - AV[y], -AV[y]), v1[y])) if cmb else \
            (lambda y: z3.If(A[y], z3.If(d0[y], v0[y], 0), v1[y]))
        step1 = reaction_facts(d0, v0, d1, v1, Rx0, Rx1, r, tch1, fin1) + solver_facts(S0, S1, ids, f, b, dm, vl, e, tch1, fin1)
        step2 = reaction_facts(d1, v1, d2, v2, Rx1, Rx2, r, tch2, fin2) + solver_facts(S1, S2, ids, f, b, dm, vl, e, tch2, fin2)
        out.append(Obl(f"C02/lemma/Reaction.add_metabolites/undo-restores:{tag}", step1 + step2 + inv0, goal, "lemma"))
    return out


# ---------------------------------------------------------------- Reaction.subtract_metabolites: what the combine-undo calls
def record_call_hook(eng, st, recv, name, pos, kw):
    """self.add_metabolites(...) inside subtract_metabolites: an abstract call, recorded in the ghost trace `calls`"""
    s = _entry_self(eng)
    if s is not None and isinstance(recv, VObj) and recv.oid == s.oid and name == "add_metabolites":
        return [("ok", st.setghost("calls", st.ghost.get("calls", ()) + ((name, tuple(pos), dict(kw)),)), NONE)]
    return None


HOOKS_SUB = chain_hooks({"call_method": record_call_hook}, HOOKS)


def _sub_post(E):
    calls = E.s1.ghost.get("calls", ())
    if len(calls) != 1:
        return z3.BoolVal(False)
    name, pos, kw = calls[0]
    ok = (name == "add_metabolites" and len(pos) == 1 and isinstance(pos[0], VObj) and pos[0].kind == "dict"
          and pos[0].oid != E["metabolites"].oid and set(kw) == {"combine", "reversibly"}
          and isinstance(kw["combine"], VBool) and kw["combine"].t.eq(E["combine"].t)
          and isinstance(kw["reversibly"], VBool) and kw["reversibly"].t.eq(E["reversibly"].t))
    if not ok:
        return z3.BoolVal(False)
    src = E.s0.objs[E["metabolites"].oid]
    rec = E.s1.objs[pos[0].oid]
    if rec.get("lazy") or rec.get("pure"):
        return z3.BoolVal(False)
    order, posn, card = E.s1.ghost[("order", E["metabolites"].oid, src["dom"].get_id())]
    k = qv("bk", src["dom"].sort().domain())
    # exactly one call self.add_metabolites(<a new dictionary with the same keys and the negated values>, combine=<as given>,
    # reversibly=<as given>)   (posn[k] >= 0: true for every key, names the key's place in the enumeration the comprehension ran over)
    return z3.And(FA([k], z3.Implies(z3.Select(rec["dom"], k), z3.Select(src["dom"], k)), patterns=[z3.Select(rec["dom"], k)]),
                  FA([k], z3.Implies(z3.Select(src["dom"], k), z3.And(posn[k] >= 0, z3.Select(rec["dom"], k),
                                                                   z3.Select(rec["val"], k) == -z3.Select(src["val"], k))),
                     patterns=[z3.Select(src["dom"], k)]))


KEY_SUB = "Reaction.subtract_metabolites"
for _V in (ObjectKeys, StringKeys):
    REG.add(Contract(MR, "Reaction.subtract_metabolites", "C02",
                     [("self", TObj("Reaction", {})), ("metabolites", _V.ptype), ("combine", TBool()), ("reversibly", TBool())],
                     [Case(f"subtract:{_V.tag}", ensures=_sub_post)], key=KEY_SUB + f"[{_V.tag}]", props=["C02"],
                     note="the function the combine-undo registers: exactly one call self.add_metabolites(<new dictionary, same keys, "
                          "negated values>, combine=<as given>, reversibly=<as given>) - an abstract call recorded in a ghost trace; "
                          "the caller's dictionary is only read"))
KEYS_SUB = [KEY_SUB + "[object_keys]", KEY_SUB + "[string_keys]"]
