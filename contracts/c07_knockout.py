"""C07 — gene rules as Boolean functions and knock-outs.

Rule trees are heap objects of class AstNode: tag (Expression/GPR/Name/BoolOp/Or/And/other), body, id, op, values (child
sequence).  sem(x, K) is the Boolean value of node x with the genes in K absent, defined by one-step unfolding:
    Name: id(x) not in K;  BoolOp/Or: exists child true;  BoolOp/And: all children true;  Expression/GPR: empty body -> True,
    else sem(body).
`_eval_gpr` is proved equal to sem by structural induction (its recursive calls use its own contract).
"""
import z3
from .common import *  # noqa
from . import c01_lp as C1
from pyvc.values import VReal, xr_eq
from pyvc.state import alloc_set

MG = "cobra/core/gene.py"
MR = "cobra/core/reaction.py"
MD = "cobra/manipulation/delete.py"
IdSet = z3.ArraySort(Id, z3.BoolSort())
SeqRefS = z3.ArraySort(z3.IntSort(), Ref)

REG.fields.update({"ast_tag": "int", "body": "ref:AstNode", "id": "id", "op": "ref:AstNode", "_functional": "bool",
                   "_gpr": "ref:GPR", "_genes": "set:ref:Gene", "_reaction": "set:ref:Reaction"})
REG.classes["AstNode"] = []
REG.inline.update({"Gene.functional@getter", "Reaction.genes@getter", "Species.reactions@getter"})
T_EXPRESSION, T_GPR, T_NAME, T_BOOLOP, T_OR, T_AND, T_OTHER = range(1, 8)
TAGS = {"Expression": T_EXPRESSION, "GPR": T_GPR, "Name": T_NAME, "BoolOp": T_BOOLOP, "Or": T_OR, "And": T_AND}
values_len = z3.Function("values_len", Ref, z3.IntSort())
values_at = z3.Function("values_at", Ref, z3.IntSort(), Ref)
sem = z3.Function("sem", Ref, IdSet, z3.BoolSort())
wf = z3.Function("wf_rule", Ref, z3.BoolSort())


def H(E, st, f):
    return E.eng.heap_arr(st, f)


def tag(E, st, x):
    return H(E, st, "ast_tag")[x]


def sem_axioms(E, st):
    """one-step unfolding of sem and of tree well-formedness (pattern-guarded)"""
    return sem_axioms_arr(H(E, st, "ast_tag"), H(E, st, "body"), H(E, st, "id"), H(E, st, "op"))


def sem_axioms_arr(tg, body, nid, op):
    x, K, i = z3.Const("sx", Ref), z3.Const("sK", IdSet), z3.Int("si")
    is_root = z3.Or(tg[x] == T_EXPRESSION, tg[x] == T_GPR)
    kids_any = z3.Exists([i], z3.And(0 <= i, i < values_len(x), sem(values_at(x, i), K)))
    kids_all = z3.ForAll([i], z3.Implies(z3.And(0 <= i, i < values_len(x)), sem(values_at(x, i), K)))
    ax = [
        z3.ForAll([x, K], z3.Implies(z3.And(is_root, body[x] == NULL), sem(x, K)), patterns=[sem(x, K)]),
        z3.ForAll([x, K], z3.Implies(z3.And(is_root, body[x] != NULL), sem(x, K) == sem(body[x], K)), patterns=[sem(x, K)]),
        z3.ForAll([x, K], z3.Implies(tg[x] == T_NAME, sem(x, K) == z3.Not(K[nid[x]])), patterns=[sem(x, K)]),
        z3.ForAll([x, K], z3.Implies(z3.And(tg[x] == T_BOOLOP, tg[op[x]] == T_OR), sem(x, K) == kids_any), patterns=[sem(x, K)]),
        z3.ForAll([x, K], z3.Implies(z3.And(tg[x] == T_BOOLOP, tg[op[x]] == T_AND), sem(x, K) == kids_all), patterns=[sem(x, K)]),
        z3.ForAll([x], z3.Implies(z3.And(wf(x), x != NULL),
                                  z3.And(z3.Or(is_root, tg[x] == T_NAME, tg[x] == T_BOOLOP),
                                         z3.Implies(is_root, wf(body[x])),
                                         z3.Implies(tg[x] == T_BOOLOP, z3.And(op[x] != NULL, z3.Or(tg[op[x]] == T_OR, tg[op[x]] == T_AND), values_len(x) >= 0,
                                                    z3.ForAll([i], z3.Implies(z3.And(0 <= i, i < values_len(x)),
                                                                              z3.And(values_at(x, i) != NULL, wf(values_at(x, i)))),
                                                              patterns=[values_at(x, i)]))))),
                  patterns=[wf(x)]),
        sem(NULL, z3.K(Id, z3.BoolVal(False))) == sem(NULL, z3.K(Id, z3.BoolVal(False))),
    ]
    return ax


# ---------------------------------------------------------------- hooks: dynamic node types, child sequences
def isinstance_hook(eng, st, v, clsname):
    if isinstance(v, VRef) and v.cls in ("AstNode", "GPR"):
        if clsname in TAGS:
            return z3.And(v.t != NULL, eng.heap_arr(st, "ast_tag")[v.t] == TAGS[clsname])
        return False
    return None


def getattr_hook(eng, st, v, name):
    if isinstance(v, VRef) and v.cls in ("AstNode", "GPR") and name == "values":
        x = v.t
        return [("ok", st, VSeq(values_len(x), lambda s, i: VRef(values_at(x, i), "AstNode"), tag="values"))]
    if isinstance(v, VRef) and v.cls == "AstNode" and name == "__class__":
        return [("ok", st, VOpaque("class"))]
    return None


def truth_ref_hook(eng, st, v):
    # `if not expr.body` / `if self.body`: a rule body is None or a node (nodes are truthy)
    return None


HOOKS = {"isinstance": isinstance_hook, "getattr": getattr_hook}

# ---------------------------------------------------------------- GPR._eval_gpr
NODE = ("expr", TRef("AstNode", nullable=True))
KO = ("knockouts", TSet("id"))


def Kset(E, st=None):
    st = st or E.s0
    return set_dom(st, E["knockouts"])


def _ev_pre(E):
    return wf(E["expr"].t)


def set_dom(st, v):
    rec = st.objs[v.oid]
    return z3.K(Id, z3.BoolVal(False)) if rec.get("lazy") else rec["dom"]


def _is(E, t):
    return tag(E, E.s0, E["expr"].t) == t


def _ev_res(E):
    x = E["expr"].t
    return E.res.t == z3.If(x == NULL, z3.BoolVal(True), sem(x, Kset(E)))


def _nonnull(E):
    return E["expr"].t != NULL


_ev_cases = [
    Case("root_node", requires=lambda E: z3.And(_nonnull(E), z3.Or(_is(E, T_EXPRESSION), _is(E, T_GPR))), ensures=_ev_res),
    Case("name", requires=lambda E: z3.And(_nonnull(E), _is(E, T_NAME)), ensures=_ev_res),
    Case("or", requires=lambda E: z3.And(_nonnull(E), _is(E, T_BOOLOP), tag(E, E.s0, H(E, E.s0, "op")[E["expr"].t]) == T_OR), ensures=_ev_res),
    Case("and", requires=lambda E: z3.And(_nonnull(E), _is(E, T_BOOLOP), tag(E, E.s0, H(E, E.s0, "op")[E["expr"].t]) == T_AND), ensures=_ev_res),
    Case("none", requires=lambda E: z3.Not(_nonnull(E)), ensures=_ev_res),
]


def _ev_result(eng, st, E):
    x = E["expr"].t
    return st, VBool(z3.If(x == NULL, z3.BoolVal(True), sem(x, set_dom(st, E["knockouts"]))))


_ev = REG.add(Contract(MG, "GPR._eval_gpr", "C07", [("self", TRef("GPR")), NODE, KO], _ev_cases, pre=_ev_pre,
                       axioms=lambda E: sem_axioms(E, E.s0),
                       key="GPR._eval_gpr", result=_ev_result, props=["C07", "C08"]))
_ev.call_cases = [Case("any", ensures=lambda E: z3.BoolVal(True))]   # the result term itself is sem(expr, K)
REG.classes["Module"] = ["AstNode"]


# ---------------------------------------------------------------- GPR.eval
def _eval_post(E):
    x = E["self"].t
    ko = E["knockouts"]
    K = z3.K(Id, z3.BoolVal(False)) if isinstance(ko, VNone) else set_dom(E.s0, ko)
    return E.res.t == sem(x, K)


def _eval_result(eng, st, E):
    ko = E["knockouts"]
    K = z3.K(Id, z3.BoolVal(False)) if isinstance(ko, VNone) else set_dom(st, ko)
    return st, VBool(sem(E["self"].t, K))


def _eval_cases():
    out = []
    for tagname, t in (("knockouts_set", TSet("id")), ("knockouts_none", TNone())):
        c = Case(tagname, ensures=_eval_post)
        c.params_override = {"knockouts": t}
        c.applies = (lambda a, st: isinstance(a["knockouts"], VNone)) if tagname == "knockouts_none" else \
            (lambda a, st: not isinstance(a["knockouts"], VNone))
        out.append(c)
    return out


_kn = TNone()
_kn.default = NONE
REG.add(Contract(MG, "GPR.eval", "C07", [("self", TRef("GPR")), ("knockouts", _kn)], _eval_cases(),
                 pre=lambda E: z3.And(wf(E["self"].t), tag(E, E.s0, E["self"].t) == T_GPR), axioms=lambda E: sem_axioms(E, E.s0),
                 key="GPR.eval", result=_eval_result, props=["C07", "C08"]))
REG.fields["ast_tag"] = "int"


# ---------------------------------------------------------------- Reaction.functional / Gene.functional
RefSet = z3.ArraySort(Ref, z3.BoolSort())
nfids = z3.Function("nonfunctional_ids", RefSet, RefSet, z3.ArraySort(Ref, Id), IdSet)


def nonfunctional_ids(E, st, r):
    """{ g.id | g in genes(r), not g.functional } (opaque; definition revealed by nf_axiom)"""
    return nfids(H(E, st, "_genes")[r], H(E, st, "_functional"), H(E, st, "_id"))


def nf_axiom():
    G, F, I_ = z3.Const("nG", RefSet), z3.Const("nF", RefSet), z3.Const("nI", z3.ArraySort(Ref, Id))
    k, g = z3.Const("nk", Id), z3.Const("ng", Ref)
    wit = z3.Function("nf_wit", RefSet, RefSet, z3.ArraySort(Ref, Id), Id, Ref)
    w = wit(G, F, I_, k)
    return [z3.ForAll([G, F, I_, g], z3.Implies(z3.And(G[g], z3.Not(F[g])), nfids(G, F, I_)[I_[g]]), patterns=[z3.MultiPattern(nfids(G, F, I_), G[g])]),
            z3.ForAll([G, F, I_, k], z3.Implies(nfids(G, F, I_)[k], z3.And(G[w], z3.Not(F[w]), I_[w] == k)),
                      patterns=[nfids(G, F, I_)[k]])]


def rule_false(E, st, r):
    """the reaction is in a model and its rule evaluates to False with its non-functional genes absent"""
    return z3.And(H(E, st, "_model")[r] != NULL, z3.Not(sem(H(E, st, "_gpr")[r], nonfunctional_ids(E, st, r))))


def _rule_ok(E, st, r):
    g = H(E, st, "_gpr")[r]
    return z3.And(g != NULL, wf(g), tag(E, st, g) == T_GPR)


REG.add(Contract(MR, "Reaction.functional@getter", "C07", [("self", TRef("Reaction"))], [
    Case("any", ensures=lambda E: E.res.t == z3.Not(rule_false(E, E.s0, E["self"].t))),
], pre=lambda E: _rule_ok(E, E.s0, E["self"].t), axioms=lambda E: sem_axioms(E, E.s0) + nf_axiom(),
    key="Reaction.functional@getter",
    # the result is the term itself (not a fresh constant constrained by the post): usable inside comprehension conditions
    result=lambda eng, st, E: (st, VBool(z3.Not(rule_false(E, st, E["self"].t))))))

REG.add(Contract(MG, "Gene.functional@setter", "C07", [("self", TRef("Gene")), ("value", TBool())], [
    Case("bool", ensures=lambda E: z3.And(H(E, E.s1, "_functional")[E["self"].t] == E["value"].t,
                                          FA([qx := qv("fx", Ref)], z3.Implies(qx != E["self"].t,
                                             H(E, E.s1, "_functional")[qx] == H(E, E.s0, "_functional")[qx])))),
], modifies=lambda E: [("heap", "_functional")], key="Gene.functional@setter"))


# ---------------------------------------------------------------- Gene.knock_out
def _all_valid(E, st):
    x = qv("vx", Ref)
    lbk, lbv = H(E, st, "_lower_bound")
    ubk, ubv = H(E, st, "_upper_bound")
    lb, ub = VReal(lbk[x], lbv[x]), VReal(ubk[x], ubv[x])
    from pyvc.values import xr_le
    return FA([x], z3.And(xr_le(lb, ub), lb.k != 1, ub.k != -1, C1.vars_distinct(x)), patterns=[lbk[x]])


def _rules_ok(E, st):
    x = qv("gx", Ref)
    return FA([x], _rule_ok(E, st, x), patterns=[H(E, st, "_gpr")[x]])


def _bounds_eq(E, st, x, lbv, ubv):
    lb, ub = C1.lbub(E, st, x)
    return z3.And(xr_eq(lb, lbv), xr_eq(ub, ubv))


def _ko_effect(E, s_rule, s0, s1, x, touched):
    """bounds of x after the knock-out: (0,0) iff touched and its rule is false in s_rule, else as before"""
    lb0, ub0 = C1.lbub(E, s0, x)
    zero = VReal(0, 0)
    return z3.If(z3.And(touched, rule_false(E, s_rule, x)), _bounds_eq(E, s1, x, zero, zero), _bounds_eq(E, s1, x, lb0, ub0))


def _gko_post(E):
    g = E["self"].t
    rs = H(E, E.s0, "_reaction")[g]
    x = qv("kx", Ref)
    fun1 = H(E, E.s1, "_functional")
    y = qv("ky", Ref)
    return z3.And(z3.Not(fun1[g]),
                  FA([y], z3.Implies(y != g, fun1[y] == H(E, E.s0, "_functional")[y])),
                  FA([x], _ko_effect(E, E.s1, E.s0, E.s1, x, rs[x]), patterns=[H(E, E.s1, "_lower_bound")[0][x]]))


def _gko_inv(E, Lc):
    g = E["self"].t
    rs = H(E, E.s0, "_reaction")[g]
    _, order, pos = Lc.seq.src[:3]
    x, y = qv("ix", Ref), qv("iy", Ref)
    fun = H(E, Lc.st, "_functional")
    return z3.And(z3.Not(fun[g]),
                  FA([y], z3.Implies(y != g, fun[y] == H(E, E.s0, "_functional")[y])),
                  FA([x], _ko_effect(E, Lc.st, E.s0, Lc.st, x, z3.And(rs[x], pos[x] < Lc.i)),
                     patterns=[H(E, Lc.st, "_lower_bound")[0][x]]))


KO_MOD = lambda E: [("heap", "_functional"), ("heap", "_lower_bound"), ("heap", "_upper_bound"), ("heap", "var_lb"), ("heap", "var_ub")]  # noqa

REG.add(Contract(MG, "Gene.knock_out", "C07", [("self", TRef("Gene"))], [Case("any", ensures=_gko_post)],
                 pre=lambda E: z3.And(_all_valid(E, E.s0), _rules_ok(E, E.s0)), axioms=lambda E: sem_axioms(E, E.s0),
                 modifies=KO_MOD, key="Gene.knock_out",
                 loops={0: LoopSpec(_gko_inv, lambda E, Lc: [("heap", "_lower_bound"), ("heap", "_upper_bound"),
                                                            ("heap", "var_lb"), ("heap", "var_ub")])}))


# ---------------------------------------------------------------- knock_out_model_genes (manipulation/delete.py)
# sem is monotone: making MORE genes absent can only turn a rule from True to False (and/or without negation).  The lemma is
# proved by structural induction whose step is the obligation `sem-monotone/induction-step` below (trees are finite and acyclic:
# the well-formedness assumption already in the trusted base); the contracts that need it assume it as an axiom.
idset_subset = z3.Function("idset_subset", IdSet, IdSet, z3.BoolSort())
subset_wit = z3.Function("idset_subset_wit", IdSet, IdSet, Id)


def sem_mono_axioms():
    t, K, K2 = z3.Const("mt", Ref), z3.Const("mK", IdSet), z3.Const("mK2", IdSet)
    w = subset_wit(K, K2)
    return [z3.ForAll([K, K2], z3.Or(idset_subset(K, K2), z3.And(K[w], z3.Not(K2[w]))), patterns=[idset_subset(K, K2)]),
            z3.ForAll([t, K, K2], z3.Implies(z3.And(wf(t), t != NULL, idset_subset(K, K2), sem(t, K2)), sem(t, K)),
                      patterns=[z3.MultiPattern(sem(t, K), sem(t, K2))])]


def mono_lemmas():
    """induction step of: wf(t), K subset K2, sem(t, K2)  ==>  sem(t, K)"""
    from pyvc.engine import Obl
    tg, body = z3.Const("l_tag", z3.ArraySort(Ref, z3.IntSort())), z3.Const("l_body", z3.ArraySort(Ref, Ref))
    nid, op = z3.Const("l_id", z3.ArraySort(Ref, Id)), z3.Const("l_op", z3.ArraySort(Ref, Ref))
    t, K, K2 = z3.Const("l_t", Ref), z3.Const("l_K", IdSet), z3.Const("l_K2", IdSet)
    k, i = z3.Const("l_k", Id), z3.Int("l_i")
    is_root = z3.Or(tg[t] == T_EXPRESSION, tg[t] == T_GPR)
    hyp = sem_axioms_arr(tg, body, nid, op) + [
        wf(t), t != NULL,
        z3.ForAll([k], z3.Implies(K[k], K2[k])),
        # induction hypothesis: the claim holds for every child of t
        z3.Implies(z3.And(is_root, body[t] != NULL), z3.Implies(sem(body[t], K2), sem(body[t], K))),
        z3.ForAll([i], z3.Implies(z3.And(0 <= i, i < values_len(t), sem(values_at(t, i), K2)), sem(values_at(t, i), K)),
                  patterns=[values_at(t, i)]),
    ]
    return [Obl("C07/lemma/sem-monotone/induction-step", hyp, z3.Implies(sem(t, K2), sem(t, K)), "lemma")]


def _kmg_model_t():
    return TObj("Model", {"genes": TDictList("Gene")})


def _xref_ok(E, st):
    """cross-references between reactions and genes are consistent (C02's invariant): g in genes(x) <=> x in reactions(g)"""
    g, x = qv("xg", Ref), qv("xx", Ref)
    G, R_ = H(E, st, "_genes"), H(E, st, "_reaction")
    return FA([g, x], G[x][g] == R_[g][x], patterns=[G[x][g], R_[g][x]])


def _kmg_list(st):
    l = st.ghost["kmg_list"]
    rec = st.objs[l.oid]
    return rec["len"], rec["elem"]


def _gba_result(eng, st, E):
    """a new list whose elements are (non-None) MEMBERS of the DictList: element j is the member at the ghost position idx[j]"""
    from pyvc.state import alloc_list
    srec = st.objs[E["self"].oid]
    st, l = alloc_list(st, srec.get("ekind", "ref:Gene"))
    n, e = st.objs[l.oid]["len"], st.objs[l.oid]["elem"]
    j = qv("gj")
    idx = fresh("gba_idx", z3.ArraySort(z3.IntSort(), z3.IntSort()))
    st = st.assume(n >= 0, FA([j], z3.Implies(z3.And(0 <= j, j < n),
                                              z3.And(z3.Select(e, j) != NULL, 0 <= idx[j], idx[j] < srec["len"],
                                                     z3.Select(srec["elem"], idx[j]) == z3.Select(e, j))),
                              patterns=[z3.Select(e, j)]))
    return st.setghost("kmg_list", l).setghost("gba_list", l), l


REG.add(Contract("cobra/core/dictlist.py", "DictList.get_by_any", "C07", [("self", TDictList("Gene")), ("iterable", TNone())],
                 [Case("any", ensures=lambda E: z3.BoolVal(True))], assumed=True, key="DictList.get_by_any", result=_gba_result,
                 note="<DictList>.get_by_any(items): a NEW list of (non-None) members of the list, one per item, looked up by index / identifier "
                      "/ identity; may raise for an unknown item (then nothing has been changed).  ABSTRACT form kept for the callers; the real body is "
                      "PROVED per argument shape in contracts/c15_get_by_any.py and implies this clause for int / str items and for objects that "
                      "are the members registered under their ids - NOT for a foreign object carrying a member's id (finding)"))
REG.get("DictList.get_by_any").cases[0].may_raise = "KeyError"


def _in_upto(e, t, g):
    j = qv("uj")
    return z3.Exists([j], z3.And(0 <= j, j < t, z3.Select(e, j) == g))


def _touched_upto(E, e, t, x):
    j = qv("tj")
    R0 = H(E, E.s0, "_reaction")
    return z3.Exists([j], z3.And(0 <= j, j < t, R0[z3.Select(e, j)][x]))


def _kmg_state(E, st, e, t, with_set=None):
    g, x = qv("sg", Ref), qv("sx2", Ref)
    fun, fun0 = H(E, st, "_functional"), H(E, E.s0, "_functional")
    cs = [FA([g], fun[g] == z3.And(fun0[g], z3.Not(_in_upto(e, t, g))), patterns=[fun[g]]),
          FA([x], _ko_effect(E, st, E.s0, st, x, _touched_upto(E, e, t, x)), patterns=[H(E, st, "_lower_bound")[0][x]])]
    if with_set is not None:
        dom = st.objs[with_set.oid]
        if dom.get("lazy"):
            cs.append(FA([x], z3.Not(_touched_upto(E, e, t, x))))
        else:
            j = qv("wj")
            R0 = H(E, E.s0, "_reaction")
            # rxn_set = the reactions of the genes handled so far; both directions separately, each with the trigger it needs
            cs.append(FA([x], z3.Implies(z3.Select(dom["dom"], x), _touched_upto(E, e, t, x)), patterns=[z3.Select(dom["dom"], x)]))
            cs.append(FA([j, x], z3.Implies(z3.And(0 <= j, j < t, R0[z3.Select(e, j)][x]), z3.Select(dom["dom"], x)),
                         patterns=[R0[z3.Select(e, j)][x]]))
    return z3.And(*cs)


def _kmg_inv(E, Lc):
    n, e = _kmg_list(Lc.st)
    return z3.And(_kmg_state(E, Lc.st, e, Lc.i, with_set=Lc.var("rxn_set")), _all_valid(E, Lc.st), Lc.n == n)


def _kmg_post(E):
    n, e = _kmg_list(E.s1)
    rn, re_ = L(E.s1, E.res)
    j, x, w = qv("rj"), qv("rx", Ref), qv("rw")
    hit = lambda y: z3.And(_touched_upto(E, e, n, y), rule_false(E, E.s1, y))  # noqa
    return z3.And(_kmg_state(E, E.s1, e, n),
                  FA([j], z3.Implies(z3.And(0 <= j, j < rn), hit(z3.Select(re_, j))), patterns=[z3.Select(re_, j)]),
                  FA([x], z3.Implies(hit(x), z3.Exists([w], z3.And(0 <= w, w < rn, z3.Select(re_, w) == x)))))


def _kmg_unchanged(E):
    """get_by_any raised for an unknown item: nothing has been touched yet"""
    g, x = qv("ug", Ref), qv("ux", Ref)
    fun, fun0 = H(E, E.s1, "_functional"), H(E, E.s0, "_functional")
    return z3.And(FA([g], fun[g] == fun0[g]), FA([x], _bounds_eq(E, E.s1, x, *C1.lbub(E, E.s0, x))))


_kmg_case = Case("any", ensures=_kmg_post)
_kmg_case.may_raise = "KeyError"
_kmg_case.ensures_on_raise = _kmg_unchanged
REG.add(Contract(MD, "knock_out_model_genes", "C07", [("model", _kmg_model_t()), ("gene_list", TNone())],
                 [_kmg_case],
                 pre=lambda E: z3.And(_all_valid(E, E.s0), _rules_ok(E, E.s0), _xref_ok(E, E.s0)),
                 axioms=lambda E: sem_axioms(E, E.s0) + nf_axiom() + sem_mono_axioms(),
                 modifies=KO_MOD, key="knock_out_model_genes", result="opaque",
                 loops={0: LoopSpec(_kmg_inv, lambda E, Lc: KO_MOD(E) + [("setlazy", Lc.var("rxn_set"), "ref:Reaction")])}))
