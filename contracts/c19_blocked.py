"""C19 — find_blocked_reactions: WHAT the range oracle (flux_variability_analysis) is asked, on WHICH model state, and how its
answer is filtered (data flow through the opaque algebra for the pandas parts; bounds and the context on the real objects).

Documented: "Find reactions that cannot carry any flux. The question whether or not a reaction is blocked is highly dependent on
the current exchange reaction settings ... open_exchanges: whether or not to open all exchange reactions to very high flux ranges".
Proved, for every model size, for open_exchanges on / off, reaction_list None / given, cutoff None / given:
  * inside the function's own context (closed again on return, also when FVA raises);
  * when requested, every exchange is widened to (min(lb, -1000), max(ub, 1000)) and no other reaction is touched, BEFORE the pre-filter
    solution and the FVA are computed (loop invariant over model.exchanges);
  * the candidates handed to FVA are those of the requested reactions whose flux in ONE solution of the (widened) model is below the
    normalised cutoff in absolute value (a reaction that carries flux in a feasible solution is not blocked);
  * the objective is replaced by Zero before FVA runs (blockedness does not depend on the objective), FVA runs at
    fraction_of_optimum = 0.0 on exactly those candidates with the caller's `processes`;
  * the answer is the index of the rows whose largest absolute range end is below the cutoff.
NOT proved here: that FVA returns the true ranges (C05), GLPK, the pandas operations themselves (uninterpreted).
"""
import z3
import cobra  # noqa
from .common import *  # noqa
from . import c01_lp as C1
from . import c03_context as C3
from . import c04_status as C4
from . import c15_dictlist  # noqa
from . import misc_small  # noqa  (normalize_cutoff)
from pyvc import npalg as N
from pyvc.state import alloc_list
from pyvc.values import VReal, xr_eq, xr_lt, xr_le

MV = "cobra/flux_analysis/variability.py"
REG.inline.add("Model.exchanges@getter")


def _model_t():
    return TObj("Model", {"_contexts": TList("ref:HistoryManager"), "_solver": C4.SOLVER_T(), "reactions": TDictList("Reaction"),
                          "tolerance": TReal()})


# ---------------------------------------------------------------- assumed callees
def _ex(st):
    l = st.ghost["exchanges"]
    return st.objs[l.oid]["len"], st.objs[l.oid]["elem"]


def _fbt_result(eng, st, E):
    st, l = alloc_list(st, "ref:Reaction", base="exch")
    n, e = st.objs[l.oid]["len"], st.objs[l.oid]["elem"]
    j = qv("ej")
    st = st.assume(n >= 0, FA([j], z3.Implies(z3.And(0 <= j, j < n), z3.Select(e, j) != NULL), patterns=[z3.Select(e, j)]))
    return st.setghost("exchanges", l), l


_fbt = Contract("cobra/medium/boundary_types.py", "find_boundary_types", "C19",
                [("model", _model_t()), ("boundary_type", TConc("exchange")), ("external_compartment", TNone())],
                [Case("any")], assumed=True, key="find_boundary_types", result=_fbt_result,
                note="model.exchanges = find_boundary_types(model, 'exchange', None): a list of reactions; WHICH reactions count as "
                     "exchanges is the heuristic of boundary_types.py, outside this contract")
[t for n_, t in _fbt.params if n_ == "external_compartment"][0].default = NONE


def global_hook(eng, name):
    if name in ("get_solution", "flux_variability_analysis"):
        return VFunc("abstract", name)
    if name == "Zero":
        return N.VNp(z3.Const("np:Zero", N.NP))
    if name == "find_boundary_types":
        return VFunc("repo", "find_boundary_types")
    return None


def call_abstract(eng, st, f, pos, kw):
    """get_solution / flux_variability_analysis: the call (arguments and the state in force) is recorded, the result is opaque"""
    if f.a in ("get_solution", "flux_variability_analysis"):
        out = N.VNp(fresh("np:" + f.a, N.NP))
        rec = {"pos": tuple(pos), "kw": dict(kw), "state": st, "result": out}
        return [("ok", st.setghost("call:" + f.a, rec), out)]
    return None


def setattr_hook(eng, st, v, name, val):
    """model.objective = <expression>: recorded (the real setter is context aware: C03 / C13 frame analysis)"""
    if isinstance(v, VObj) and v.cls == "Model" and name == "objective":
        return [("ok", st.setghost("objective_set", val), NONE)]
    return None


def call_method_hook(eng, st, recv, name, pos, kw):
    """model.reactions.get_by_any(reaction_list): the resolved list is opaque (assumed: the reactions named by the argument)"""
    if isinstance(recv, VObj) and recv.cls == "DictList" and name == "get_by_any":
        return [("ok", st, N.app("DictList.get_by_any", N.VNp(z3.Const("np:model.reactions", N.NP)), *pos))]
    return None


HOOKS = chain_hooks({"global": global_hook, "call_abstract": call_abstract, "setattr": setattr_hook, "call_method": call_method_hook},
                    C3.ALL_HOOKS, N.HOOKS)


# ---------------------------------------------------------------- specification
M1000 = VReal(0, -1000)
P1000 = VReal(0, 1000)


def _xmin(a, b):
    c = xr_lt(b, a)
    return VReal(z3.If(c, b.k, a.k), z3.If(c, b.v, a.v))


def _xmax(a, b):
    c = xr_lt(a, b)
    return VReal(z3.If(c, b.k, a.k), z3.If(c, b.v, a.v))


def _opened(E, st, upto, is_open):
    """bounds in state st: the first `upto` exchanges widened (when is_open), every other reaction as at entry"""
    x, j = qv("ox", Ref), qv("oj")
    lb0, ub0 = C1.lbub(E, E.s0, x)
    lb1, ub1 = C1.lbub(E, st, x)
    same = z3.And(xr_eq(lb1, lb0), xr_eq(ub1, ub0))
    if not is_open:
        return FA([x], same, patterns=[E.eng.heap_arr(st, "_lower_bound")[0][x]])
    n, e = _ex(st)
    listed = z3.Exists([j], z3.And(0 <= j, j < upto, z3.Select(e, j) == x))
    wide = z3.And(xr_eq(lb1, _xmin(lb0, M1000)), xr_eq(ub1, _xmax(ub0, P1000)))
    return FA([x], z3.If(listed, wide, same), patterns=[E.eng.heap_arr(st, "_lower_bound")[0][x]])


def _inv_open(E, Lc):
    n, e = _ex(Lc.st)
    return z3.And(Lc.n == n, _opened(E, Lc.st, Lc.i, True), _all_valid(E, Lc.st))


def _all_valid(E, st):
    x = qv("vx", Ref)
    lbk, lbv = E.eng.heap_arr(st, "_lower_bound")
    ubk, ubv = E.eng.heap_arr(st, "_upper_bound")
    lb, ub = VReal(lbk[x], lbv[x]), VReal(ubk[x], ubv[x])
    return FA([x], z3.And(xr_le(lb, ub), lb.k != 1, ub.k != -1, C1.vars_distinct(x)), patterns=[lbk[x]])


def _pre(E):
    return z3.And(C3._ctx_nonnull(Env({"obj": E["model"]}, E.s0, eng=E.eng)), _all_valid(E, E.s0))


def _cutoff(E):
    zc = E["zero_cutoff"]
    return E.s0.objs[E["model"].oid]["attr:tolerance"] if isinstance(zc, VNone) else zc


def _post_for(is_open, listed):
    def post(E):
        gs, fva = E.s1.ghost.get("call:get_solution"), E.s1.ghost.get("call:flux_variability_analysis")
        obj = E.s1.ghost.get("objective_set")
        if gs is None or fva is None or obj is None or not isinstance(E.res, N.VNp):
            return z3.BoolVal(False)
        cs = []
        # (1) both the pre-filter solution and the FVA see the widened (or untouched) bounds
        n_ex = _ex(fva["state"])[0] if is_open else None
        cs.append(_opened(E, gs["state"], n_ex, is_open))
        cs.append(_opened(E, fva["state"], n_ex, is_open))
        # (2) the objective was replaced by Zero before FVA ran
        cs.append(z3.BoolVal(isinstance(fva["state"].ghost.get("objective_set"), N.VNp)))
        cs.append(obj.t == z3.Const("np:Zero", N.NP) if isinstance(obj, N.VNp) else z3.BoolVal(False))
        # (3) the pre-filter solution covers the requested reactions
        want_list = (N.app("DictList.get_by_any", N.VNp(z3.Const("np:model.reactions", N.NP)), E["reaction_list"]).t if listed else None)
        r_arg = gs["kw"].get("reactions")
        if listed:
            cs.append(r_arg.t == want_list if isinstance(r_arg, N.VNp) else z3.BoolVal(False))
        else:
            dl = E.s0.objs[E["model"].oid]["attr:reactions"]
            cs.append(z3.BoolVal(isinstance(r_arg, VObj) and r_arg.oid == dl.oid))
        cs.append(z3.BoolVal(len(gs["pos"]) == 1 and gs["pos"][0] is E["model"]))
        # (4) candidates = requested reactions with |flux| < cutoff in that solution; FVA at fraction 0 on exactly those
        cut = N.lift(_cutoff(E))
        fluxes = N.term("attr.fluxes", gs["result"].t)
        mask = N.term("lt", N.term("call", N.term("attr.abs", fluxes)), cut)
        cand = N.term("call", N.term("attr.tolist", N.term("attr.index", N.term("getitem", fluxes, mask))))
        kw = fva["kw"]
        cs.append(z3.BoolVal(len(fva["pos"]) == 1 and fva["pos"][0] is E["model"] and set(kw) == {"fraction_of_optimum", "reaction_list", "processes"}))
        if set(kw) == {"fraction_of_optimum", "reaction_list", "processes"}:
            f0 = kw["fraction_of_optimum"]
            cs.append(xr_eq(E.eng.to_real(f0), VReal(0, 0)) if isinstance(f0, (VReal, VInt)) else z3.BoolVal(False))
            cs.append(kw["reaction_list"].t == cand if isinstance(kw["reaction_list"], N.VNp) else z3.BoolVal(False))
            cs.append(z3.BoolVal(kw["processes"] is E["processes"]))
        # (5) the answer: rows of the span whose largest absolute end is below the cutoff
        span = fva["result"].t
        absmax = N.term("call(axis)", N.term("attr.max", N.term("call", N.term("attr.abs", span))), N.lift(VInt(1)))
        want = N.term("call", N.term("attr.tolist", N.term("attr.index", N.term("getitem", span, N.term("lt", absmax, cut)))))
        cs.append(E.res.t == want)
        # (6) the function's own context is closed again
        n0, e0 = C3._ctxs(E.s0, E["model"])
        n1, e1 = C3._ctxs(E.s1, E["model"])
        j = qv("cj")
        cs.append(z3.And(n1 == n0, FA([j], z3.Implies(z3.And(0 <= j, j < n0), e1[j] == e0[j]))))
        return z3.And(*cs)
    return post


def _mod(E):
    return [("heap", "_lower_bound"), ("heap", "_upper_bound"), ("heap", "var_lb"), ("heap", "var_ub"), ("heap", "hm_len"),
            ("attr", E["model"], "_contexts", lambda st: alloc_list(st, "ref:HistoryManager")),
            ("ghost", "world", lambda st: fresh("world", C3.World)), ("ghost", "exchanges", lambda st: None),
            ("ghost", "call:get_solution", lambda st: None), ("ghost", "call:flux_variability_analysis", lambda st: None),
            ("ghost", "objective_set", lambda st: None)] + C4._slim_mod(Env({"self": E["model"]}, E.s0, eng=E.eng))


def _cases():
    out = []
    for is_open in (True, False):
        for listed in (False, True):
            for cut in ("none", "given"):
                c = Case(f"open={is_open}:list={'given' if listed else 'none'}:cutoff={cut}", ensures=_post_for(is_open, listed))
                c.params_override = {"open_exchanges": TConc(is_open), "reaction_list": N.TNp() if listed else TNone(),
                                     "zero_cutoff": TNone() if cut == "none" else TReal()}
                if cut == "given":
                    c.requires = lambda E: z3.Not(xr_lt(E["zero_cutoff"], E.s0.objs[E["model"].oid]["attr:tolerance"]))
                c.may_raise = "Exception"           # slim_optimize / FVA may raise (infeasible, unbounded): stated, the context is closed
                c.ensures_on_raise = lambda E: z3.BoolVal(True)
                c.modifies_on_raise = _mod
                out.append(c)
    for listed in (False, True):
        c = Case(f"cutoff_below_tolerance:list={'given' if listed else 'none'}",
                 requires=lambda E: xr_lt(E["zero_cutoff"], E.s0.objs[E["model"].oid]["attr:tolerance"]), raises="ValueError")
        c.params_override = {"zero_cutoff": TReal(), "open_exchanges": TConc(False), "reaction_list": N.TNp() if listed else TNone()}
        out.append(c)
    return out


REG.add(_fbt)
REG.add(Contract(MV, "find_blocked_reactions", "C19",
                 [("model", _model_t()), ("reaction_list", TNone()), ("zero_cutoff", TNone()), ("open_exchanges", TConc(False)),
                  ("processes", TNone())], _cases(), pre=_pre, modifies=_mod, key="find_blocked_reactions",
                 axioms=lambda E: C3.run_axioms(),
                 loops={0: LoopSpec(_inv_open, lambda E, Lc: [("heap", "_lower_bound"), ("heap", "_upper_bound"),
                                                              ("heap", "var_lb"), ("heap", "var_ub")])}))
