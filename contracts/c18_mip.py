"""C18 (kernel) — minimal_medium.add_mip_obj: the MILP formulation "minimise the NUMBER of active imports".

What the formulation has to be (docstring: "finding the medium with the least components: minimize size(R) where R part of
import_reactions"; big-M indicator coupling):
  * EX = find_boundary_types(model, "exchange"), a function of the model (assumed contract below), M = the largest absolute value
    of any bound of any exchange - lower AND upper bounds, as extended reals (definitional axiom `_axioms`: M is an upper bound of
    every |lb|, |ub| and is attained; a finite non-empty list of extended reals has exactly one such value);
  * for every exchange r one binary indicator  ind(r) = problem.Variable("ind_" + r.id, lb=0, ub=1, type="binary")  and one row
    con(r) = problem.Constraint(import_variable(r) - ind(r) * M, ub=0, name="ind_constraint_" + r.id), where import_variable(r) is
    the reverse variable of an exchange written `met -->` (it has a reactant) and the forward variable of one written `--> met`;
  * exactly [ind(EX[0]), con(EX[0]), ind(EX[1]), con(EX[1]), ...] is handed to model.add_cons_vars in ONE call, then solver.update(),
    then the objective gets coefficient 1 on every indicator, every other coefficient stays what it was, direction "min".
Variables, constraints and expressions are syntactic terms of the opaque algebra (pyvc.npalg): the claim is "the term that is built
is THIS term", the arithmetic meaning of `-`, `*` and of Constraint(expr, ub=0) as  expr <= 0  is optlang's (trusted).
A model without exchanges raises ValueError (max() of an empty sequence): stated as a case, not hidden.
The lemma at the end (LRA) is why M has to be an upper bound of the import flux: with 0 <= v <= M and y binary,
v - y*M <= 0 admits y = 0 exactly when v = 0, so the sum of indicators counts the active imports.
"""
import z3
from .common import *  # noqa
from . import c01_lp as C1
from . import c04_status as C4
from . import c18_medium as CM
from pyvc import npalg as N
from pyvc.engine import STR_CONCAT
from pyvc.values import VReal, xr_eq, xr_le, id_lit
from pyvc.state import alloc_list

MMM = CM.MMM
KEY = "add_mip_obj"

# ---------------------------------------------------------------- the exchange list and the spec constant M
EXn = z3.Int("mip_EX_len")
EXe = z3.Const("mip_EX_elem", z3.ArraySort(I, Ref))
Mk, Mv, Mw = z3.Int("mip_M_k"), z3.Real("mip_M_v"), z3.Int("mip_M_attained_at")
M = VReal(Mk, Mv)
OBJC = z3.ArraySort(N.NP, z3.RealSort())     # objective coefficient of an opaque variable term (heap Variables embed through of_ref)


def objc_np(st):
    return st.ghost.get("objc_np", z3.Const("objc_np0", OBJC))


def _model_t():
    sol = TObj("Solver", {"status": TStr(), "objective": C4.OBJ_T()})
    return TObj("Model", {"_solver": sol, "problem": N.TNp(), "variables": N.TNp()})


def _fbt_result(eng, st, E):
    """the same facts as c18_medium._fbt_result, over FIXED names: the exchange list is a function of the model"""
    st, l = alloc_list(st, "ref:Reaction", length=EXn, elem=EXe)
    j = qv("ej")
    mo, nre = eng.heap_arr(st, "_model"), eng.heap_arr(st, "n_reactants")
    st = st.assume(EXn >= 0,
                   FA([j], z3.Implies(z3.And(0 <= j, j < EXn), z3.And(EXe[j] != NULL, mo[EXe[j]] != NULL, C1.vars_distinct(EXe[j]),
                                                                    nre[EXe[j]] <= 1)), patterns=[EXe[j]]))
    return st.setghost("exchanges", l), l


REG.add(Contract("cobra/medium/boundary_types.py", "find_boundary_types", "C18",
                 [("model", _model_t()), ("boundary_type", TConc("exchange"))], [Case("any")], assumed=True,
                 key="find_boundary_types[EX]", result=_fbt_result, modifies=lambda E: [("ghost", "exchanges", lambda st: None)],
                 note="find_boundary_types(model, 'exchange') as used by add_mip_obj: the list EX (a function of the model, hence fixed "
                      "names) of reactions of the model, each with its two distinct solver variables and a single metabolite; WHICH "
                      "reactions count as exchanges is the heuristic of boundary_types.py, outside this contract"))


def _abs(x):
    return VReal(z3.If(x.k != 0, z3.IntVal(1), z3.IntVal(0)), z3.If(x.v < 0, -x.v, x.v))


def _axioms(E):
    """definition of M = max { |lb(r)|, |ub(r)| : r in EX } over the entry heap (exists and is unique for EX non-empty)"""
    j = qv("mj")
    lb, ub = C1.lbub(E, E.s0, EXe[j])
    lw, uw = C1.lbub(E, E.s0, EXe[Mw])
    return [z3.Implies(EXn > 0, z3.And(
        Mk >= -1, Mk <= 1,
        FA([j], z3.Implies(z3.And(0 <= j, j < EXn), z3.And(xr_le(_abs(lb), M), xr_le(_abs(ub), M))), patterns=[EXe[j]]),
        0 <= Mw, Mw < EXn, z3.Or(xr_eq(_abs(lw), M), xr_eq(_abs(uw), M))))]


# ---------------------------------------------------------------- the terms of the formulation
def _prob(E):
    return E.s0.objs[E["model"].oid]["attr:problem"].t


def _name(prefix, E, r):
    return N.of_id(STR_CONCAT(id_lit(prefix), idarr(E, E.s0)[r]))


def ind(E, r):
    return N.term("call(lb,type,ub)", N.term("attr.Variable", _prob(E)), _name("ind_", E, r),
                  N.lift(VInt(0)), N.lift(VConc("binary")), N.lift(VInt(1)))


def import_var(E, r):
    return z3.If(CM.flag(E, E.s0, "has_reactants", r), C1.rev(r), C1.fwd(r))


def con(E, r):
    expr = N.term("sub", N.of_ref(import_var(E, r)), N.term("mul", ind(E, r), N.lift(M)))
    return N.term("call(name,ub)", N.term("attr.Constraint", _prob(E)), expr, _name("ind_constraint_", E, r), N.lift(VInt(0)))


def _row(E, k):
    """what position k of the list handed to add_cons_vars has to be"""
    return z3.If(k % 2 == 0, ind(E, EXe[k / 2]), con(E, EXe[k / 2]))


# ---------------------------------------------------------------- optlang / cobra calls (assumed), recorded in a ghost trace
def _slc_post(E):
    d = E.s0.objs[E["coefficients"].oid]
    o0, o1 = objc_np(E.s0), objc_np(E.s1)
    t = qv("ct", N.NP)
    return FA([t], o1[t] == z3.If(z3.Select(d["dom"], t), z3.ToReal(z3.Select(d["val"], t)), o0[t]), patterns=[o1[t]])


REG.add(Contract("optlang/interface.py", "Objective.set_linear_coefficients", "C18",
                 [("self", C4.OBJ_T()), ("coefficients", TDict("np", "int"))], [Case("any", ensures=_slc_post)], assumed=True,
                 key="Objective.set_linear_coefficients[opaque]",
                 modifies=lambda E: [("ghost", "objc_np", lambda st: fresh("objc_np", OBJC))],
                 note="optlang Objective.set_linear_coefficients with variables that are opaque terms (created in the function): sets "
                      "exactly the given coefficients; ghost objc_np = coefficient of each variable term"))


def _verifying(eng):
    return getattr(eng.cur_contract, "key", None) == KEY


def global_hook(eng, name):
    if name == "find_boundary_types" and _verifying(eng):
        return VFunc("repo", "find_boundary_types[EX]")
    return None


def getattr_hook(eng, st, v, name):
    if _verifying(eng) and isinstance(v, VObj) and v.cls == "Solver" and name == "update":
        return [("ok", st, VFunc("bound", v, name))]       # optlang Model.update: an external method (see call_method_hook)
    return None


def call_method_hook(eng, st, recv, name, pos, kw):
    if not _verifying(eng) or not isinstance(recv, VObj):
        return None
    tr = st.ghost.get("trace", ())
    if recv.cls == "Model" and name == "add_cons_vars" and len(pos) == 1 and not kw and isinstance(pos[0], VObj) and pos[0].kind == "list":
        rec = st.objs[pos[0].oid]          # the CONTENT of the list at the time of the call
        return [("ok", st.setghost("trace", tr + (("add_cons_vars", rec["ekind"], rec["len"], rec["elem"]),)), NONE)]
    if recv.cls == "Solver" and name == "update" and not pos and not kw:
        return [("ok", st.setghost("trace", tr + (("solver.update",),)), NONE)]
    if recv.cls == "Objective" and name == "set_linear_coefficients" and len(pos) == 1 and isinstance(pos[0], VObj) \
            and st.objs[pos[0].oid].get("kkind") == "np":
        st = st.setghost("trace", tr + (("set_linear_coefficients",),))
        return eng.apply_contract(st, REG.get("Objective.set_linear_coefficients[opaque]"), [recv] + list(pos), kw)
    return None


def list_display_hook(eng, st, vs):
    """[indicator, indicator_const]: a Python list OF opaque terms (npalg alone would make the list itself an opaque term)"""
    if _verifying(eng) and vs and all(isinstance(v, N.VNp) for v in vs):
        from pyvc import builtins as B
        return [B.list_from_values(eng, st, vs)]
    return None


HOOKS = chain_hooks({"global": global_hook, "getattr": getattr_hook, "call_method": call_method_hook, "list_display": list_display_hook}, N.HOOKS)


# ---------------------------------------------------------------- loop invariant and post-condition
def _big_m_is_M(Lc):
    b = Lc.var("big_m")
    return z3.And(xr_eq(b, M), b.k >= -1, b.k <= 1) if isinstance(b, VReal) else z3.BoolVal(False)


def _inv(E, Lc):
    l, d = Lc.st.objs[Lc.var("to_add").oid], Lc.st.objs[Lc.var("coefs").oid]
    if l["ekind"] != "np" or d.get("lazy"):          # still the untyped empty literals: before the first iteration
        return z3.And(Lc.n == EXn, z3.BoolVal(bool(l["ekind"] != "np" and d.get("lazy"))), Lc.i == 0, l["len"] == 0, _big_m_is_M(Lc))
    k, j, t = qv("ik"), qv("ij"), qv("it", N.NP)
    return z3.And(
        Lc.n == EXn, _big_m_is_M(Lc), l["len"] == 2 * Lc.i,
        FA([k], z3.Implies(z3.And(0 <= k, k < 2 * Lc.i), z3.Select(l["elem"], k) == _row(E, k)), patterns=[z3.Select(l["elem"], k)]),
        FA([j], z3.Implies(z3.And(0 <= j, j < Lc.i), z3.And(z3.Select(d["dom"], ind(E, EXe[j])), z3.Select(d["val"], ind(E, EXe[j])) == 1)),
           patterns=[EXe[j]]),
        FA([t], z3.Implies(z3.Select(d["dom"], t), z3.Exists([j], z3.And(0 <= j, j < Lc.i, t == ind(E, EXe[j])))),
           patterns=[z3.Select(d["dom"], t)]))


def _post(E):
    tr = E.s1.ghost.get("trace", ())
    shape = (len(tr) == 3 and tr[0][0] == "add_cons_vars" and tr[0][1] == "np" and tr[1] == ("solver.update",)
             and tr[2] == ("set_linear_coefficients",))
    if not shape:
        return z3.BoolVal(False)
    n, e = tr[0][2], tr[0][3]
    o0, o1 = objc_np(E.s0), objc_np(E.s1)
    j, t = qv("pj"), qv("pt", N.NP)
    is_ind = z3.Exists([j], z3.And(0 <= j, j < EXn, t == ind(E, EXe[j])))
    direction = E.s1.objs[C4.objective_of(E.s1, E["model"]).oid]["attr:direction"]
    c = E.eng.eq(E.s1, direction, VConc("min"))
    return z3.And(
        n == 2 * EXn,
        FA([j], z3.Implies(z3.And(0 <= j, j < EXn), z3.And(z3.Select(e, 2 * j) == ind(E, EXe[j]), z3.Select(e, 2 * j + 1) == con(E, EXe[j]))),
           patterns=[EXe[j]]),
        FA([j], z3.Implies(z3.And(0 <= j, j < EXn), o1[ind(E, EXe[j])] == 1), patterns=[EXe[j]]),
        FA([t], z3.Implies(z3.Not(is_ind), o1[t] == o0[t]), patterns=[o1[t]]),
        z3.BoolVal(c) if isinstance(c, bool) else c)


def _mod(E):
    obj = C4.objective_of(E.s0, E["model"])
    return [("ghost", "objc_np", lambda st: fresh("objc_np", OBJC)), ("ghost", "exchanges", lambda st: None), ("ghost", "trace", lambda st: ()),
            ("attr", obj, "direction", lambda st: (st, VStr(fresh("dir", Id))))]


REG.add(Contract(MMM, "add_mip_obj", "C18", [("model", _model_t())], [
    Case("has_exchanges", requires=lambda E: EXn > 0, ensures=_post),
    Case("no_exchanges", requires=lambda E: EXn <= 0, raises="ValueError"),
], key=KEY, modifies=_mod, axioms=_axioms,
    loops={0: LoopSpec(_inv, lambda E, Lc: [("list", Lc.var("to_add"), "np"), ("dict", Lc.var("coefs"), "np", "int")])},
    note="M (big_m) is a spec constant DEFINED by axiom as the maximum of |lb|, |ub| over the exchanges (existence/uniqueness: finite "
         "non-empty list of extended reals; NaN bounds excluded by encoding assumption A2); model.variables / model.problem are opaque"))


def lemmas():
    """why the row  v - y*M <= 0  with M an upper bound of v makes y an activity indicator (LRA, per exchange; y is binary, so the
    product y*M is written  M if y = 1 else 0)"""
    from pyvc.engine import Obl
    v, y, m = z3.Reals("m_v m_y m_M")
    row = v - z3.If(y == 1, m, z3.RealVal(0)) <= 0
    dom = [0 <= v, v <= m, z3.Or(y == 0, y == 1)]
    return [Obl("C18/lemma/mip/indicator-zero-forces-import-zero", dom + [row, y == 0], v == 0, "lemma"),
            Obl("C18/lemma/mip/indicator-one-admits-every-import-up-to-M", dom + [y == 1], row, "lemma"),
            Obl("C18/lemma/mip/least-admissible-indicator-is-activity", dom + [row], z3.Implies(v > 0, y == 1), "lemma")]
