"""C08 - the SKELETON around the string operations of the text half: GPR.from_string, GPR.__init__, GPR.from_symbolic, GPR.to_string,
the Reaction accessors gene_reaction_rule (getter / setter) and gpr (setter).

The text half of C08 is only bounded (regular expressions, str.replace chains and CPython's parser are outside the SMT fragment).
Here everything that is NOT string processing is proved on the real source, with the string operations as uninterpreted functions
named after the operation, so that the evidence separates what is trusted (tokeniser-level functions) from what is proved (plumbing).

Strings (sort Id).  Uninterpreted: str.strip, str.replace, str.__contains__, str.__len__ (the only axiom: len(s) == 0 iff s == ""),
re.Pattern.sub for the four patterns gene.keyword_re, gene.number_start_re, re.compile(r"\bAND\b"), re.compile(r"\bOR\b"); the
module constant `replacements` is read from the source (eight pairs) as the functions gene.replacements.char / .escaped.
    R8(x)    = the fold of `if char in x: x = x.replace(char, escaped)` over the eight pairs (esc_fold, defined by its unfolding)
    text0(s) = replace(number_start_re.sub(ESC, keyword_re.sub(ESC, R8(strip(s)))), "()", "")        ESC = "__cobra_escape__"
    text1(s) = OR.sub("or", AND.sub("and", text0(s)))
Spec functions over text (uninterpreted): ast.parse_accepts(e); gpr_esc_text_is_rule(e) - e is an and/or/&/| expression over
identifiers; gpr_esc_text_sem(e, K) / gpr_esc_text_names(e) - its Boolean value with the identifiers UN-escaped and the genes K
absent / its un-escaped identifiers; for raw parse trees: ast_is_parse_of_some_text / ast_parsed_text over the tree heap.

What is proved (K = the arbitrary set of absent genes vis_K of c08_visitors; semh / names / wfh are its heap semantics)
(1) GPR.from_string(string_gpr), precondition: a text CPython accepts is an and/or/&/| expression over identifiers (`a + b`, `f(a)`
    are accepted by the parser and raise TypeError / give garbage later: outside).  Cases:
      not a str                        TypeError, nothing changed
      strip(s) == ""                   a new GPR without body: evaluates True, no genes, empty name cache, no logger call
      accepts(text0)                   a new well-formed GPR with a body; semh == esc_sem(text0, K), names == cache == esc_names(text0)
      rejected, AND/OR in text0, accepts(text1)      the same for text1; logger: "Uppercase AND/OR found in rule '", e.msg
      rejected, AND/OR, text1 rejected               GPR without body; logger: the two above + "Malformed gene_reaction_rule '",
                                                     "GPR will be empty"
      rejected, no AND/OR              the SAME text is parsed a second time (rejected again); GPR without body; the two Malformed lines
    The loop over `replacements` has the invariant str_expr == esc_fold(strip(s), i) (obligations inv-init / inv-preserve).
    (What the code does, stated: there is NO ast.fix_missing_locations call; the retry happens only inside the except branch; the
    engine drops `warn(...)` statements - DESIGN 2.1 - so the SyntaxWarning emitted next to each pair of logger calls is not observed,
    the logger calls are, through the log_call hook.)
(2) GPR.__init__(gpr_from): no argument -> body None, empty cache;  an Expression whose body is a parser output of a rule text ->
    GPRCleaner().visit applied, cache = the cleaner's gene_set, body = deepcopy of the cleaned body, self.eval() reached with a
    well-formed rule (obligation call:GPR.eval/heap/pre): value / names / cache are esc_sem / esc_names of the text;  an Expression
    holding a clean well-formed tree without escape tokens -> value and names of that tree;  any node that is neither Expression nor
    Module: TypeError.  (What the code does: update_genes is NOT called by __init__; it calls self.eval().)  NOT covered: a Module /
    GPR argument, the str branch (calls from_string, then raises TypeError).
    GPR.from_symbolic(e): not a BooleanFunction / Symbol -> TypeError, nothing changed;  e == Symbol("") -> GPR without body;
    otherwise (e of the Symbol / Or / And fragment, identifiers of the converted tree without escape tokens) the result is a new
    well-formed GPR with a body with semh == sympy_sem(e, K) and cache == names: Expression(_sympy_to_ast(e)) -> cls(tree) ->
    update_genes().  GPR.to_string(names=None): the value of _ast2str(self) (ASSUMED string level: uninterpreted gpr_ast2str).
(3) Reaction.gene_reaction_rule setter (the body under @resettable; the wrapper is the C03 kernel contract): for every case of
    from_string self._gpr is the GPR with that case's post-condition, and update_genes_from_gpr() is called exactly ONCE, on self,
    after _gpr was set, in the final heap (the call is RECORDED in the ghost `ug_calls`; its effect is the proved C02 contract
    Reaction.update_genes_from_gpr, not re-applied here); a non-str rule: TypeError, _gpr unchanged, no call.  Reaction.gpr setter:
    _gpr = value, one recorded call afterwards.  Getter: _ast2str text of self._gpr.
Lemmas: induction steps of `an expression tree (Name / BoolOp nodes) ignores the body field` (the three axioms of
more_tree_axioms); `from_string/value-and-genes-of-the-original-text`: the proved cases + the string-level assumption T2
(escaping_is_faithful) give semh == gpr_text_sem(s, K) and names == gpr_text_names(s) for a text s of the grammar.
NOT attempted: the shape of _ast2str (join / f-string recursion) and the printer / parser inversion lemma; the Module / GPR / str
shapes of GPR.__init__.

What is assumed (listed in the evidence)
  ast.parse (SyntaxError or the Expression whose body is the parse tree of the text; functional allocation), GPRCleaner.visit on the
  root (dispatch + generic_visit + the PROVED visit_BinOp + the string-level visit_Name: a parse tree of a rule text becomes a
  well-formed tree with the value / names of the text with identifiers un-escaped; a clean tree without escape tokens keeps value
  and names; gene_set gains the names; no other root's body is replaced), GPRCleaner(), ast.Module.__init__(), ast.Expression(body),
  deepcopy of an expression tree (same value and names, nothing written), deepcopy of a set of strings, the closure-free
  transcription of the proved _sympy_to_ast contract at its call site (+ ghost: its tree is no parser output), allocation facts of
  cls(...) (non-null, class tag GPR, not the argument), GPR._ast2str, the converse unfolding of wfh at a root node (definition).

Native observations (/venv/bin/python against /repo; consistent with the contracts, no violation inside the preconditions):
  * from_string("a + b") and from_string("a < b") raise TypeError (visit_BinOp / self.eval()): accepted by CPython, not rule texts.
  * `with model: r.gene_reaction_rule = 5` raises TypeError with the rule unchanged, but resettable.wrapper has already registered
    the undo: the history holds one entry and leaving the context re-parses the old text (an equal rule in a NEW GPR object).
  * from_symbolic(Symbol("a__COBRA_DOT__b")) gives the gene "a.b" (every tree goes through GPRCleaner): the precondition
    `identifiers without escape tokens` is load-bearing.

Mutation trials (tools/mutate_and_run.sh; every mutant left the named obligation unproved)
  gene.py  __init__: `self.body = deepcopy(gpr_from.body)` -> `self.body = None`                     expression:* post.4 / .6 / .7
  gene.py  __init__: `self._genes = deepcopy(cleaner.gene_set)` -> `self._genes = set()`             expression:* post.8 (cache)
  gene.py  __init__: `cleaner.visit(gpr_from)` dropped                                               parsed_text post.6-8, clean_tree post.8
  gene.py  __init__: `self.body = gpr_from` (the root instead of a copy of its body)                 call:GPR.eval/heap/pre
  gene.py  from_string: `if char in str_expr` -> `if char not in str_expr`                           loop#0/inv-preserve (all cases)
  gene.py  from_string: number_start_re.sub(.., str_expr) (wrong variable: keyword escaping lost)    call:GPR.__init__/cases-cover, post.5-7
  gene.py  from_string: uppercase_AND.sub("or", ..)                                                  call:GPR.__init__/cases-cover, post.5-7
  gene.py  from_string: `len(str_expr) == 0` -> `== 1`                                               accepted* post.4-7
  gene.py  from_string: final `gpr = cls(tree)` -> `gpr = cls()`                                     accepted* post.4-7
  gene.py  from_string: type check `if not isinstance(..)` -> `if False`                             not_a_string undecided (str method on an int)
  gene.py  from_symbolic: `== Symbol("")` -> `== Symbol("x")`                                        empty_symbol post.4-7, expression post.4-5
  gene.py  from_symbolic: converter applied to Symbol("g") instead of the argument                   call:..._sympy_to_ast@callsite/pre, post.5
  gene.py  to_string: `_ast2str(self.body, ..)`                                                       post (sat)
  reaction.py  gene_reaction_rule setter: the two statements swapped                                  post.8 / post.9 (recorded call), not_a_string post
  reaction.py  gpr setter: update_genes_from_gpr() call dropped                                       post.2 (sat)
  (from_string / from_symbolic without their final `gpr.update_genes()` still verify: GPR.__init__ has already filled the cache from the
   cleaner's gene_set - the call is redundant for the stated post-condition)
"""
import z3
from .common import *  # noqa
from . import c07_knockout as C7
from . import c08_visitors as V
from .c08_visitors import (T_EXPRESSION, T_GPR, T_NAME, T_BOOLOP, T_OR, T_AND, IdSet, RefInt, RefRef, RefSeq, H, heap3, semh, wfh,
                           names, VIS_K, EMPTY, is_expr_tag)
from pyvc.state import alloc_set, alloc_obj
from pyvc.values import id_lit

MG = "cobra/core/gene.py"
MR = "cobra/core/reaction.py"
RefId = z3.ArraySort(Ref, Id)
T_MODULE = 11                      # a plain ast.Module (GPR is a subclass: tag GPR)

# ================================================================ spec functions over TEXT (all uninterpreted)
# escaped text e (what is handed to CPython's parser):
esc_rule = z3.Function("gpr_esc_text_is_rule", Id, z3.BoolSort())       # e is an and/or/&/| expression over identifiers, with parentheses
esc_sem = z3.Function("gpr_esc_text_sem", Id, IdSet, z3.BoolSort())     # its Boolean value, identifiers UN-escaped, the genes in K absent
esc_names = z3.Function("gpr_esc_text_names", Id, IdSet)                # its identifiers, un-escaped
py_parses = z3.Function("ast.parse_accepts", Id, z3.BoolSort())         # ast.parse(e, "<string>", "eval") does not raise SyntaxError
id_plain = z3.Function("gpr_id_has_no_escape_token", Id, z3.BoolSort())  # identifier without __cobra_escape__ / __COBRA_*__ tokens
# raw expression trees (what the parser returns below the Expression root: BoolOp / BinOp / Name nodes, escaped identifiers); they
# contain no root node, hence do not depend on the `body` field
_H7 = (RefInt, RefId, RefRef, RefRef, RefRef, RefInt, RefSeq)
is_raw = z3.Function("ast_is_parse_of_some_text", *_H7, Ref, z3.BoolSort())
raw_text = z3.Function("ast_parsed_text", *_H7, Ref, Id)


def h7(E, st):
    return tuple(H(E, st, f) for f in ("ast_tag", "id", "op", "left", "right", "values_n", "values_seq"))


def names_eq(h, x, S):
    k = qv("nk", Id)
    return FA([k], names(*h, x)[k] == S[k], patterns=[names(*h, x)[k]])


def set_is(dom, S):
    k = qv("sk", Id)
    return FA([k], dom[k] == S[k], patterns=[dom[k]])


# ================================================================ definitional axioms added here
def more_tree_axioms(E, st):
    """(a) the converse unfolding of wfh at a ROOT node (c08_visitors states it for Name / BoolOp only);
    (b) an expression tree (Name / BoolOp nodes only) does not depend on the `body` field: wfh / semh / names are the same for
        every body array (by induction over the tree - the unfoldings at Name / BoolOp nodes never read `body`; induction steps
        are the lemma obligations `C08/lemma/expr-tree-ignores-body/*` of lemmas())"""
    tg = H(E, st, "ast_tag")
    return more_tree_axioms_arr(tg)


def more_tree_axioms_arr(tg):
    VN, VS, BD, BD2 = z3.Const("tVN", RefInt), z3.Const("tVS", RefSeq), z3.Const("tBD", RefRef), z3.Const("tBD2", RefRef)
    x, K, k = z3.Const("tx", Ref), z3.Const("tK", IdSet), z3.Const("tk", Id)
    is_root = z3.Or(tg[x] == T_EXPRESSION, tg[x] == T_GPR)
    b = BD[x]
    ex = z3.And(x != NULL, is_expr_tag(tg, x), wfh(VN, VS, BD, x))
    return [
        z3.ForAll([VN, VS, BD, x], z3.Implies(z3.And(x != NULL, is_root, z3.Or(b == NULL, z3.And(wfh(VN, VS, BD, b), is_expr_tag(tg, b)))),
                                              wfh(VN, VS, BD, x)), patterns=[wfh(VN, VS, BD, x)]),
        z3.ForAll([VN, VS, BD, BD2, x], z3.Implies(ex, wfh(VN, VS, BD2, x)),
                  patterns=[z3.MultiPattern(wfh(VN, VS, BD, x), wfh(VN, VS, BD2, x))]),
        z3.ForAll([VN, VS, BD, BD2, x, K], z3.Implies(ex, semh(VN, VS, BD2, x, K) == semh(VN, VS, BD, x, K)),
                  patterns=[z3.MultiPattern(wfh(VN, VS, BD, x), semh(VN, VS, BD2, x, K))]),
        z3.ForAll([VN, VS, BD, BD2, x, k], z3.Implies(ex, names(VN, VS, BD2, x)[k] == names(VN, VS, BD, x)[k]),
                  patterns=[z3.MultiPattern(wfh(VN, VS, BD, x), names(VN, VS, BD2, x)[k])]),
    ]


def _axioms(E):
    return V._wk_axioms(E) + more_tree_axioms(E, E.s0)


# ================================================================ hooks
def isinstance_hook(eng, st, v, clsname):
    if isinstance(v, VRef) and v.cls in ("AstNode", "GPR") and clsname == "Module":
        tg = eng.heap_arr(st, "ast_tag")[v.t]
        return z3.And(v.t != NULL, z3.Or(tg == T_MODULE, tg == T_GPR))
    if isinstance(v, VRef) and v.cls in ("AstNode", "GPR") and clsname == "str":
        return False
    return None


def tree_copy_hook(eng, st, f, pos, kw):
    """ASSUMED copy.deepcopy of an expression tree (the `body` of a rule): another well-formed expression tree with the same truth
    table and the same names (functional allocation: nothing that exists is written); deepcopy(None) is None"""
    if f.a == "deepcopy" and len(pos) == 1 and not kw and isinstance(pos[0], VRef) and pos[0].cls == "AstNode":
        b = pos[0].t
        r = fresh("body_copy", Ref)
        E = Env({}, st, eng=eng)
        h, tg = heap3(E, st), H(E, st, "ast_tag")
        fact = z3.If(b == NULL, r == NULL,
                     z3.And(r != NULL, r != b, is_expr_tag(tg, r), wfh(*h, r), semh(*h, r, VIS_K) == semh(*h, b, VIS_K),
                            names_eq(h, r, names(*h, b))))
        from pyvc.apply import ASSUMED_USED
        ASSUMED_USED["copy.deepcopy(expression tree)"] = tree_copy_hook.__doc__
        return [("ok", st.assume(fact), VRef(r, "AstNode"))]
    return None


def eval_call_method_hook(eng, st, recv, name, pos, kw):
    if isinstance(recv, VRef) and recv.cls == "GPR" and name == "eval":
        return eng.apply_contract(st, eng.reg.get("GPR.eval/heap"), [recv] + list(pos), kw)      # the PROVED heap contract
    if isinstance(recv, VRef) and recv.cls == "GPR" and name == "from_string":
        return eng.apply_contract(st, eng.reg.get("GPR.from_string"), [VClass("GPR")] + list(pos), kw)    # classmethod on an instance
    return None


HOOKS_INIT = chain_hooks({"isinstance": isinstance_hook, "call_method": eval_call_method_hook}, V.HOOKS_CP)
HOOKS_INIT["call_abstract"] = V._chain_abstract(tree_copy_hook, V.copy_call_abstract_hook, V.sym_call_abstract_hook, V.call_abstract_hook)

# ================================================================ assumed: ast.Module.__init__, GPRCleaner(), GPRCleaner.visit
REG.add(Contract("ast", "Module.__init__", "C08", [("self", TRef("AstNode"))], [Case("no_fields")], assumed=True, key="Module.__init__",
                 note="ast.Module.__init__() without arguments: sets none of the modelled fields"))


def _cleaner_new(eng, st, E):
    st, s = alloc_set(st, "id", dom=EMPTY)
    return alloc_obj(st, "GPRCleaner", {"attr:gene_set": s})


REG.add(Contract(MG, "GPRCleaner.__init__", "C08", [("self", TNone())], [Case("new")], assumed=True, key="GPRCleaner.__init__",
                 result=_cleaner_new, note="GPRCleaner(): a new transformer whose gene_set is a new empty set (two-line constructor)"))

CL_PARAMS = V.CL_PARAMS


def _cl_set(E, st):
    rec = st.objs[st.objs[E["self"].oid]["attr:gene_set"].oid]
    return EMPTY if rec.get("lazy") else rec["dom"]


def _cl_is_expression(E):
    t = E["node"].t
    return z3.And(t != NULL, H(E, E.s0, "ast_tag")[t] == T_EXPRESSION, H(E, E.s0, "body")[t] != NULL)


def _cl_raw(E):
    return is_raw(*h7(E, E.s0), H(E, E.s0, "body")[E["node"].t])


def _cl_text(E):
    return raw_text(*h7(E, E.s0), H(E, E.s0, "body")[E["node"].t])


def _cl_common_post(E):
    t = E["node"].t
    h1 = heap3(E, E.s1)
    k = qv("gk", Id)
    G0, G1 = _cl_set(E, E.s0), _cl_set(E, E.s1)
    return z3.And(h1[2][t] != NULL, wfh(*h1, t),
                  FA([k], G1[k] == z3.Or(G0[k], names(*h1, t)[k]), patterns=[G1[k]]))


def _cl_raw_post(E):
    t, h1 = E["node"].t, heap3(E, E.s1)
    return z3.And(_cl_common_post(E), semh(*h1, t, VIS_K) == esc_sem(_cl_text(E), VIS_K), names_eq(h1, t, esc_names(_cl_text(E))))


def _cl_clean_req(E):
    h0 = heap3(E, E.s0)
    t = E["node"].t
    k = qv("pk", Id)
    return z3.And(z3.Not(_cl_raw(E)), wfh(*h0, t), FA([k], z3.Implies(names(*h0, t)[k], id_plain(k)), patterns=[names(*h0, t)[k]]))


def _cl_clean_post(E):
    t, h0, h1 = E["node"].t, heap3(E, E.s0), heap3(E, E.s1)
    return z3.And(_cl_common_post(E), semh(*h1, t, VIS_K) == semh(*h0, t, VIS_K), names_eq(h1, t, names(*h0, t)))


CLV_MOD = lambda E: [("heap", "values_n"), ("heap", "values_seq"), ("heap", "left"), ("heap", "right"), ("heap", "id"),  # noqa
                     ("heap", "body"), ("set", E.s0.objs[E["self"].oid]["attr:gene_set"])]


def _only_this_body(E):
    """the transformer replaces the `body` of the root it is given, of no other root"""
    x = qv("bx", Ref)
    b0, b1 = H(E, E.s0, "body"), H(E, E.s1, "body")
    return FA([x], z3.Implies(x != E["node"].t, b1[x] == b0[x]), patterns=[b1[x]])


REG.add(Contract(MG, "GPRCleaner.visit", "C08", CL_PARAMS,
                 [Case("parsed_text", requires=lambda E: z3.And(_cl_raw(E), esc_rule(_cl_text(E))),
                       ensures=lambda E: z3.And(_cl_raw_post(E), _only_this_body(E))),
                  Case("clean_tree", requires=_cl_clean_req, ensures=lambda E: z3.And(_cl_clean_post(E), _only_this_body(E)))],
                 pre=_cl_is_expression, modifies=CLV_MOD, axioms=_axioms, assumed=True, key="GPRCleaner.visit",
                 note="GPRCleaner().visit(Expression root) = NodeVisitor.visit dispatch + NodeTransformer.generic_visit + visit_BinOp "
                      "(PROVED in c08_visitors: `&` / `|` -> a new BoolOp with And / Or over the cleaned operands) + visit_Name (STRING "
                      "level: strips the prefix __cobra_escape__, reverses the eight replacements, adds the identifier to gene_set). "
                      "Case parsed_text: the body is the tree ast.parse returned for an escaped text e that is an and/or/&/| expression "
                      "over identifiers: afterwards the root has a well-formed Name / BoolOp body whose Boolean value is that of e with the "
                      "identifiers un-escaped and whose names are the un-escaped identifiers of e.  Case clean_tree: a well-formed tree "
                      "that is no parser output and whose identifiers contain no escape token (what _sympy_to_ast builds): value and "
                      "names unchanged.  Both: gene_set gains exactly the names; the body of no other root is replaced"))


# ================================================================ GPR.__init__
def _alloc_facts(E):
    g = E["self"].t
    out = [g != NULL, H(E, E.s0, "ast_tag")[g] == T_GPR]
    if isinstance(E["gpr_from"], VRef):
        out.append(g != E["gpr_from"].t)
    return z3.And(*out)


def _init_pre(E):
    cur = getattr(E.eng, "cur_contract", None)
    if cur is not None and cur.key == "GPR.__init__":
        return _alloc_facts(E)              # verifying the body: `self` is the object being constructed
    return z3.BoolVal(True)                 # at a call site `cls(...)`: nothing to show; the facts are part of the allocation (ensures)


def _init_empty_post(E):
    g = E["self"].t
    h1 = heap3(E, E.s1)
    return z3.And(_alloc_facts(E), h1[2][g] == NULL, wfh(*h1, g), set_is(H(E, E.s1, "gpr_genes")[g], EMPTY), _init_frame(E))


def _init_frame(E):
    """only the new object's `body` and name cache are written"""
    g, x = E["self"].t, qv("ix", Ref)
    b0, b1, c0, c1 = H(E, E.s0, "body"), H(E, E.s1, "body"), H(E, E.s0, "gpr_genes"), H(E, E.s1, "gpr_genes")
    fr = [FA([x], z3.Implies(x != g, c1[x] == c0[x]), patterns=[c1[x]])]
    if isinstance(E["gpr_from"], VRef):
        t = E["gpr_from"].t
        fr.append(FA([x], z3.Implies(z3.And(x != g, x != t), b1[x] == b0[x]), patterns=[b1[x]]))
    else:
        fr.append(FA([x], z3.Implies(x != g, b1[x] == b0[x]), patterns=[b1[x]]))
    return z3.And(*fr)


def _from_node(E):
    t = E["gpr_from"].t
    return t, H(E, E.s0, "ast_tag")[t], H(E, E.s0, "body")[t]


def _init_tree_post(kind):
    def post(E):
        g = E["self"].t
        t, _, b0 = _from_node(E)
        h0, h1 = heap3(E, E.s0), heap3(E, E.s1)
        cache = H(E, E.s1, "gpr_genes")[g]
        if kind == "parsed":
            txt = raw_text(*h7(E, E.s0), b0)
            want_sem, want_names = esc_sem(txt, VIS_K), esc_names(txt)
        else:
            want_sem, want_names = semh(*h0, t, VIS_K), names(*h0, t)
        return z3.And(_alloc_facts(E), h1[2][g] != NULL, wfh(*h1, g), semh(*h1, g, VIS_K) == want_sem,
                      names_eq(h1, g, want_names), set_is(cache, want_names), _init_frame(E))
    return post


def _req_parsed(E):
    t, tg, b0 = _from_node(E)
    return z3.And(t != NULL, tg == T_EXPRESSION, b0 != NULL, is_raw(*h7(E, E.s0), b0), esc_rule(raw_text(*h7(E, E.s0), b0)))


def _req_clean(E):
    t, tg, b0 = _from_node(E)
    h0 = heap3(E, E.s0)
    k = qv("qk", Id)
    return z3.And(t != NULL, tg == T_EXPRESSION, b0 != NULL, z3.Not(is_raw(*h7(E, E.s0), b0)), wfh(*h0, t),
                  FA([k], z3.Implies(names(*h0, t)[k], id_plain(k)), patterns=[names(*h0, t)[k]]))


def _req_other(E):
    t, tg, b0 = _from_node(E)
    return z3.And(t != NULL, tg != T_EXPRESSION, tg != T_MODULE, tg != T_GPR)


def _init_cases():
    out = []
    c = Case("no_argument", ensures=_init_empty_post)
    c.params_override = {"gpr_from": TNone()}
    c.applies = lambda a, st: isinstance(a["gpr_from"], VNone)
    out.append(c)
    for nm, req, post, exc in (("expression:parsed_text", _req_parsed, _init_tree_post("parsed"), None),
                               ("expression:clean_tree", _req_clean, _init_tree_post("clean"), None),
                               ("other_node", _req_other, None, "TypeError")):
        c = Case(nm, requires=req, ensures=post or (lambda E: z3.BoolVal(True)), raises=exc)
        c.params_override = {"gpr_from": TRef("AstNode")}
        c.applies = lambda a, st: isinstance(a["gpr_from"], VRef)
        c.domain = lambda E: z3.Or(_req_parsed(E), _req_clean(E), _req_other(E))
        if exc:
            c.modifies_on_raise = _INIT_MOD
        out.append(c)
    return out


_INIT_MOD = lambda E: [("heap", "body"), ("heap", "gpr_genes")] + (  # noqa
    [("heap", f) for f in ("values_n", "values_seq", "left", "right", "id")] if isinstance(E["gpr_from"], VRef) else [])


def _init_result(eng, st, E):
    return st, VRef(fresh("new_gpr", Ref), "GPR")


_gf = TNone()
_gf.default = NONE
_kwt = TConc({"__kwargs__": True})
_kwt.default = VConc({"__kwargs__": True})
REG.add(Contract(MG, "GPR.__init__", "C08", [("self", TRef("GPR")), ("gpr_from", _gf), ("**kwargs", _kwt)], _init_cases(),
                 pre=_init_pre, modifies=_INIT_MOD, axioms=_axioms, key="GPR.__init__", result=_init_result))


# ================================================================ GPR.from_string: strings as uninterpreted functions
# Every string operation of from_string is an uninterpreted function named after the operation; nothing is assumed about them
# except `len(s) == 0  <=>  s == ""` (str_len_axiom).
str_strip = z3.Function("str.strip", Id, Id)
str_replace = z3.Function("str.replace", Id, Id, Id, Id)                 # s.replace(old, new)
str_contains = z3.Function("str.__contains__", Id, Id, z3.BoolSort())     # (needle, haystack): needle in haystack
str_len = z3.Function("str.__len__", Id, z3.IntSort())
re_sub = z3.Function("re.Pattern.sub", Id, Id, Id, Id)                    # (pattern name, repl, string)
rep_char = z3.Function("gene.replacements.char", z3.IntSort(), Id)        # the module constant `replacements`, entry i
rep_esc = z3.Function("gene.replacements.escaped", z3.IntSort(), Id)
esc_fold = z3.Function("gpr_escape_chars_prefix", Id, z3.IntSort(), Id)   # text after the first i conditional replacements
ESCAPE = id_lit("__cobra_escape__")
RE_KEYWORD, RE_NUMBER = id_lit("gene.keyword_re"), id_lit("gene.number_start_re")
RE_AND, RE_OR = id_lit(r"re.compile('\bAND\b')"), id_lit(r"re.compile('\bOR\b')")
_REGEX_BY_PATTERN = {r"\bAND\b": RE_AND, r"\bOR\b": RE_OR}


def _replacements():
    import ast as _ast
    from pyvc import source
    return _ast.literal_eval(source.module(MG).globals_assign["replacements"])


REPLACEMENTS = _replacements()
N_REPL = z3.Int("len_gene_replacements")


def string_axioms():
    x, i = z3.Const("sx_", Id), z3.Int("si_")
    f = esc_fold(x, i)
    out = [N_REPL == len(REPLACEMENTS),
           z3.ForAll([x], z3.And(str_len(x) >= 0, (str_len(x) == 0) == (x == id_lit(""))), patterns=[str_len(x)]),
           z3.ForAll([x], esc_fold(x, 0) == x, patterns=[esc_fold(x, 0)]),
           z3.ForAll([x, i], z3.Implies(z3.And(0 <= i, i < len(REPLACEMENTS)),
                                        esc_fold(x, i + 1) == z3.If(str_contains(rep_char(i), f), str_replace(f, rep_char(i), rep_esc(i)), f)),
                     patterns=[esc_fold(x, i + 1)])]
    for j, (c, e) in enumerate(REPLACEMENTS):
        out += [rep_char(j) == id_lit(c), rep_esc(j) == id_lit(e)]
    return out


def text0(s):
    """the text handed to the parser first"""
    a = esc_fold(str_strip(s), N_REPL)
    b = re_sub(RE_KEYWORD, ESCAPE, a)
    c = re_sub(RE_NUMBER, ESCAPE, b)
    return str_replace(c, id_lit("()"), id_lit(""))


def text1(s):
    """the text handed to the parser at the second attempt, when it contains AND / OR"""
    return re_sub(RE_OR, id_lit("or"), re_sub(RE_AND, id_lit("and"), text0(s)))


def has_upper(s):
    return z3.Or(str_contains(id_lit("AND"), text0(s)), str_contains(id_lit("OR"), text0(s)))


def _is_regex(v):
    return isinstance(v, VConc) and isinstance(v.py, tuple) and len(v.py) == 2 and v.py[0] == "regex"


def fs_global_hook(eng, name):
    if name == "replacements":
        return VSeq(N_REPL, lambda s, i: VTuple((VStr(rep_char(i)), VStr(rep_esc(i)))), tag="replacements")
    if name == "keyword_re":
        return VConc(("regex", RE_KEYWORD))
    if name == "number_start_re":
        return VConc(("regex", RE_NUMBER))
    if name == "ast_parse":
        return VFunc("abstract", name)
    if name == "re":
        return VConc(("module", "re"))
    return None


def fs_getattr_hook(eng, st, v, name):
    if isinstance(v, VConc) and v.py == ("module", "re") and name == "compile":
        return [("ok", st, VFunc("abstract", "re.compile"))]
    if isinstance(v, VExc) and name == "msg":
        return [("ok", st, VStr(fresh("exc_msg", Id)))]
    return None


def _sid(v):
    return unwrap(v, "id")


def fs_call_method_hook(eng, st, recv, name, pos, kw):
    if _is_regex(recv) and name == "sub" and len(pos) == 2 and not kw:
        return [("ok", st, VStr(re_sub(recv.py[1], _sid(pos[0]), _sid(pos[1]))))]
    if isinstance(recv, VStr) and name == "strip" and not pos and not kw:
        return [("ok", st, VStr(str_strip(recv.t)))]
    if isinstance(recv, VStr) and name == "replace" and len(pos) == 2 and not kw:
        return [("ok", st, VStr(str_replace(recv.t, _sid(pos[0]), _sid(pos[1]))))]
    return None


def fs_contains_hook(eng, st, cont, item):
    if isinstance(cont, VStr) and (isinstance(item, VStr) or isinstance(item, VConc) and isinstance(item.py, str)):
        return [("ok", st, VBool(str_contains(_sid(item), cont.t)))]
    return None


def fs_len_hook(eng, st, v):
    if isinstance(v, VStr):
        return [("ok", st, VInt(str_len(v.t)))]
    return None


def wtrace(st):
    return st.ghost.get("warnings", ())


def fs_call_abstract_hook(eng, st, f, pos, kw):
    if f.a == "re.compile" and len(pos) == 1 and isinstance(pos[0], VConc) and pos[0].py in _REGEX_BY_PATTERN:
        return [("ok", st, VConc(("regex", _REGEX_BY_PATTERN[pos[0].py])))]
    if f.a == "ast_parse":
        return eng.apply_contract(st, eng.reg.get("ast.parse"), pos, kw)
    return None


def fs_log_call_hook(eng, st, recv, meth, call):
    """observe `logger.<level>(message, ...)`: the level and the literal beginning of the message are appended to the ghost trace
    `warnings` (the engine drops `warn(...)` statements - DESIGN 2.1 - so the SyntaxWarning raised next to each pair of logger calls
    is NOT observed; the logger calls that accompany it are)"""
    import ast as _ast
    msg = "<expr>"
    if call.args:
        a0 = call.args[0]
        if isinstance(a0, _ast.Constant) and isinstance(a0.value, str):
            msg = a0.value
        elif isinstance(a0, _ast.JoinedStr) and a0.values and isinstance(a0.values[0], _ast.Constant):
            msg = a0.values[0].value
    return st.setghost("warnings", wtrace(st) + ((meth, msg),))


HOOKS_FS = chain_hooks({"log_call": fs_log_call_hook, "global": fs_global_hook, "getattr": fs_getattr_hook, "call_method": fs_call_method_hook,
                        "contains": fs_contains_hook, "len": fs_len_hook}, HOOKS_INIT)
HOOKS_FS["call_abstract"] = V._chain_abstract(fs_call_abstract_hook, HOOKS_INIT["call_abstract"])


# ---- ast.parse (assumed)
def _parse_post(E):
    t = E.res.t
    b = H(E, E.s0, "body")[t]
    return z3.And(t != NULL, H(E, E.s0, "ast_tag")[t] == T_EXPRESSION, b != NULL, is_raw(*h7(E, E.s0), b),
                  raw_text(*h7(E, E.s0), b) == E["source"].t)


REG.add(Contract("ast", "parse", "C08", [("source", TStr()), ("filename", TStr()), ("mode", TStr())],
                 [Case("accepted", requires=lambda E: py_parses(E["source"].t), ensures=_parse_post),
                  Case("rejected", requires=lambda E: z3.Not(py_parses(E["source"].t)), raises="SyntaxError")],
                 assumed=True, key="ast.parse", result=lambda eng, st, E: (st, VRef(fresh("parsed", Ref), "AstNode")),
                 note="CPython's ast.parse(text, '<string>', 'eval'): raises SyntaxError exactly for the texts it does not accept; otherwise "
                      "returns an Expression node whose body is THE parse tree of the text (predicate ast_is_parse_of_some_text, function "
                      "ast_parsed_text over the heap of tags / identifiers / operators / operands / child lists); functional allocation: "
                      "nothing that exists is written"))


# ---- the contract
def _fs_self(st, name):
    return st, VClass("GPR")


def _fs_loop_inv(E, Lc):
    return z3.And(Lc.var("str_expr").t == esc_fold(str_strip(E["string_gpr"].t), Lc.i), Lc.n == N_REPL)


def _s(E):
    return E["string_gpr"].t


def _nonempty(E):
    return str_strip(_s(E)) != id_lit("")


def _fs_pre(E):
    """the stated domain: whatever text CPython accepts is an and/or/&/| expression over identifiers (other Python expressions -
    `a + b`, `not a`, `f(a)` - are accepted by the parser and are outside this contract)"""
    if not isinstance(E["string_gpr"], VStr):
        return z3.BoolVal(True)
    s = _s(E)
    return z3.And(z3.Implies(py_parses(text0(s)), esc_rule(text0(s))),
                  z3.Implies(z3.And(z3.Not(py_parses(text0(s))), has_upper(s), py_parses(text1(s))), esc_rule(text1(s))))


def _new_gpr_facts(E):
    g = E.res.t
    return z3.And(g != NULL, H(E, E.s1, "ast_tag")[g] == T_GPR, wfh(*heap3(E, E.s1), g))


def _warned(E, *cats):
    if E.role != "goal":
        return z3.BoolVal(True)       # at a call site the ghost trace is not handed over: the warnings are a clause of the PROVED cases only
    return z3.BoolVal(tuple(wtrace(E.s1)) == tuple(cats))


def _fs_empty_rule(E, *cats):
    g, h1 = E.res.t, heap3(E, E.s1)
    return z3.And(_new_gpr_facts(E), h1[2][g] == NULL, semh(*h1, g, VIS_K), set_is(H(E, E.s1, "gpr_genes")[g], EMPTY),
                  names_eq(h1, g, EMPTY), _warned(E, *cats))


def _fs_rule_of(text, *cats):
    def post(E):
        g, h1 = E.res.t, heap3(E, E.s1)
        e = text(_s(E))
        return z3.And(_new_gpr_facts(E), h1[2][g] != NULL, semh(*h1, g, VIS_K) == esc_sem(e, VIS_K), names_eq(h1, g, esc_names(e)),
                      set_is(H(E, E.s1, "gpr_genes")[g], esc_names(e)), _warned(E, *cats))
    return post


W_UPPER = (("warning", "Uppercase AND/OR found in rule '"), ("warning", "<expr>"))
W_MALFORMED = (("warning", "Malformed gene_reaction_rule '"), ("warning", "GPR will be empty"))


def _fs_cases():
    P0 = lambda E: py_parses(text0(_s(E)))  # noqa
    P1 = lambda E: py_parses(text1(_s(E)))  # noqa
    U = lambda E: has_upper(_s(E))  # noqa
    cs = [
        Case("empty_or_blank", requires=lambda E: z3.Not(_nonempty(E)), ensures=lambda E: _fs_empty_rule(E)),
        Case("accepted", requires=lambda E: z3.And(_nonempty(E), P0(E)), ensures=_fs_rule_of(text0)),
        Case("accepted_after_lowering_AND_OR", requires=lambda E: z3.And(_nonempty(E), z3.Not(P0(E)), U(E), P1(E)),
             ensures=_fs_rule_of(text1, *W_UPPER)),
        Case("malformed_with_AND_OR", requires=lambda E: z3.And(_nonempty(E), z3.Not(P0(E)), U(E), z3.Not(P1(E))),
             ensures=lambda E: _fs_empty_rule(E, *(W_UPPER + W_MALFORMED))),
        Case("malformed", requires=lambda E: z3.And(_nonempty(E), z3.Not(P0(E)), z3.Not(U(E))),
             ensures=lambda E: _fs_empty_rule(E, *W_MALFORMED)),
    ]
    for c in cs:
        c.applies = lambda a, st: isinstance(a["string_gpr"], (VStr, VConc))
    c = Case("not_a_string", raises="TypeError")
    c.params_override = {"string_gpr": TInt()}
    c.applies = lambda a, st: not isinstance(a["string_gpr"], (VStr, VConc))
    c.modifies_on_raise = lambda E: []
    return cs + [c]


FS_MOD = lambda E: [("heap", f) for f in ("body", "gpr_genes", "values_n", "values_seq", "left", "right", "id")] + [  # noqa
    ("ghost", "warnings", lambda st: ())]


def _fs_axioms(E):
    return _axioms(E) + string_axioms()


_clsT = TCustom(_fs_self)
REG.add(Contract(MG, "GPR.from_string", "C08", [("cls", _clsT), ("string_gpr", TStr())], _fs_cases(), pre=_fs_pre, modifies=FS_MOD,
                 axioms=_fs_axioms, loops={0: LoopSpec(_fs_loop_inv, lambda E, Lc: [])}, key="GPR.from_string",
                 result=lambda eng, st, E: (st, VRef(fresh("gpr_from_string", Ref), "GPR"))))


# ================================================================ GPR.from_symbolic (the wrapper around the PROVED _sympy_to_ast)
sym_is_boolfun = z3.Function("sympy.is_BooleanFunction", V.NP, z3.BoolSort())
_S2A = REG.get("GPR.from_symbolic._sympy_to_ast")


def _s2a_site_post(E):
    e, r = E["sympy_expr"].t, E.res.t
    return z3.And(V._s2a_spec(E, E.s1, e, r), z3.Not(is_raw(*h7(E, E.s1), r)))


# nested functions with `closure=` are inlined by the engine; the converter names only ITSELF as free variable (recursion), so that
# a closure-free transcription of its PROVED contract is what its call site inside from_symbolic uses
REG.add(Contract(MG, "GPR.from_symbolic._sympy_to_ast", "C08", [("sympy_expr", V.npalg.TNp())],
                 [Case("any", ensures=_s2a_site_post)], pre=lambda E: V.sym_gpr_expr(E["sympy_expr"].t),
                 axioms=lambda E: V._sy_axioms(E) + V.sympy_accessor_axioms(), assumed=True, key="GPR.from_symbolic._sympy_to_ast@callsite",
                 result=lambda eng, st, E: (st, VRef(V.ast_of(E["sympy_expr"].t), "AstNode")),
                 note="transcription of the PROVED contract GPR.from_symbolic._sympy_to_ast (c08_visitors; its closure= names only the "
                      "function itself) for the call site in from_symbolic: a well-formed Name / BoolOp tree with the Boolean value of the "
                      "expression; plus the ghost fact that a tree allocated here is not an output of ast.parse"))


def fsym_getattr_hook(eng, st, v, name):
    if isinstance(v, VConc) and v.py == ("module", "sympy.logic.boolalg") and name == "BooleanFunction":
        return [("ok", st, VClass("BooleanFunction"))]
    return None


def fsym_isinstance_hook(eng, st, v, clsname):
    if isinstance(v, V.VNp) and clsname == "BooleanFunction":
        return sym_is_boolfun(v.t)
    return None


def fsym_global_hook(eng, name):
    if name == "Expression":
        return VFunc("abstract", "new:Expression")
    return None


def fsym_call_abstract_hook(eng, st, f, pos, kw):
    if f.a == "new:Expression" and len(pos) == 1 and not kw and isinstance(pos[0], VRef):
        # ASSUMED functional allocation (as Name / BoolOp in _sympy_to_ast): an unused Expression node whose body is the argument
        z = fresh("new_expression", Ref)
        tg, BD = eng.heap_arr(st, "ast_tag"), eng.heap_arr(st, "body")
        return [("ok", st.assume(z != NULL, tg[z] == T_EXPRESSION, BD[z] == pos[0].t), VRef(z, "AstNode"))]
    return None


HOOKS_FSYM = chain_hooks({"getattr": fsym_getattr_hook, "isinstance": fsym_isinstance_hook, "global": fsym_global_hook}, HOOKS_FS)
HOOKS_FSYM["call_abstract"] = V._chain_abstract(fsym_call_abstract_hook, HOOKS_FS["call_abstract"])


def _e(E):
    return E["sympy_gpr"].t


def _accepted_type(E):
    return z3.Or(sym_is_boolfun(_e(E)), V.sym_is_symbol(_e(E)))


def _fsym_pre(E):
    """an expression of the Symbol / Or / And fragment whose converted tree has identifiers without escape tokens (GPR.__init__ sends
    every tree through GPRCleaner, which would rewrite them)"""
    k = qv("yk", Id)
    nm = names(*heap3(E, E.s0), V.ast_of(_e(E)))
    return z3.And(V.sym_gpr_expr(_e(E)), FA([k], z3.Implies(nm[k], id_plain(k)), patterns=[nm[k]]))


def _fsym_rule_post(E):
    g, h1 = E.res.t, heap3(E, E.s1)
    return z3.And(_new_gpr_facts(E), h1[2][g] != NULL, semh(*h1, g, VIS_K) == V.symsem(_e(E), VIS_K),
                  set_is(H(E, E.s1, "gpr_genes")[g], names(*h1, g)), _warned(E))


_EMPTY_SYM = V.sym_symbol(V.EMPTY_NAME)
_fsym_type_error = Case("not_a_sympy_expression", requires=lambda E: z3.Not(_accepted_type(E)), raises="TypeError")
_fsym_type_error.modifies_on_raise = lambda E: []
REG.add(Contract(MG, "GPR.from_symbolic", "C08", [("cls", _clsT), ("sympy_gpr", V.npalg.TNp())],
                 [Case("empty_symbol", requires=lambda E: z3.And(_accepted_type(E), _e(E) == _EMPTY_SYM), ensures=lambda E: _fs_empty_rule(E)),
                  Case("expression", requires=lambda E: z3.And(_accepted_type(E), _e(E) != _EMPTY_SYM), ensures=_fsym_rule_post),
                  _fsym_type_error],
                 pre=_fsym_pre, modifies=FS_MOD, axioms=lambda E: _axioms(E) + V.sympy_axioms() + V.sympy_accessor_axioms(),
                 key="GPR.from_symbolic", result=lambda eng, st, E: (st, VRef(fresh("gpr_from_symbolic", Ref), "GPR"))))


# ================================================================ GPR.to_string (pass-through of the string-level _ast2str)
rule_text = z3.Function("gpr_ast2str", RefInt, RefId, RefRef, RefInt, RefSeq, RefRef, Ref, Id)     # _ast2str(expr, level 0, no display names)


def h6(E, st):
    return tuple(H(E, st, f) for f in ("ast_tag", "id", "op", "values_n", "values_seq", "body"))


_lv = TInt()
_lv.default = VInt(0)
_nm = TNone()
_nm.default = NONE
REG.add(Contract(MG, "GPR._ast2str", "C08", [("self", TRef("GPR")), ("expr", TRef("AstNode")), ("level", _lv), ("names", _nm)],
                 [Case("level0_no_display_names", requires=lambda E: E["level"].t == 0)], assumed=True, key="GPR._ast2str",
                 result=lambda eng, st, E: (st, VStr(rule_text(*h6(Env(E.a, st, eng=eng), st), E["expr"].t))),
                 note="STRING level (str.join over the recursively printed operands, f-string parentheses): the text of the tree `expr` at "
                      "level 0 without display names is the uninterpreted function gpr_ast2str of the tree heap"))
REG.add(Contract(MG, "GPR.to_string", "C08", [("self", TRef("GPR")), ("names", _nm)],
                 [Case("no_display_names", ensures=lambda E: E.res.t == rule_text(*h6(E, E.s0), E["self"].t))], key="GPR.to_string",
                 result=lambda eng, st, E: (st, VStr(rule_text(*h6(Env(E.a, st, eng=eng), st), E["self"].t)))))


# ================================================================ Reaction.gene_reaction_rule (getter / setter), Reaction.gpr (setter)
# The setters are verified as the bodies under `@resettable` (the wrapper is the C03 kernel contract `resettable.wrapper`).  The call
# `self.update_genes_from_gpr()` is RECORDED (ghost trace `ug_calls`, with the state it is made in); its effect is the proved C02
# contract `Reaction.update_genes_from_gpr` (contracts/c02_update_genes.py), not re-applied here.
RX_T = TObj("Reaction", {"_gpr": TRef("GPR")})


def rx_call_method_hook(eng, st, recv, name, pos, kw):
    if isinstance(recv, VObj) and recv.cls == "Reaction" and name == "update_genes_from_gpr" and not pos and not kw:
        return [("ok", st.setghost("ug_calls", st.ghost.get("ug_calls", ()) + ((recv.oid, st),)), NONE)]
    return None


def rx_getattr_hook(eng, st, v, name):
    if isinstance(v, VClass) and v.name == "GPR" and name in ("from_string", "from_symbolic"):
        return [("ok", st, VFunc("partial", VFunc("unbound", "GPR", name), (VClass("GPR"),), {}))]      # classmethod: cls bound
    return None


HOOKS_RX = chain_hooks({"call_method": rx_call_method_hook, "getattr": rx_getattr_hook}, HOOKS_FS)
HOOKS_RX["call_abstract"] = HOOKS_FS["call_abstract"]


def _gpr_now(E, st):
    return st.objs[E["self"].oid]["attr:_gpr"]


def _one_update_call(E):
    """exactly one update_genes_from_gpr() call, on this reaction, made when self._gpr already is the rule it has at exit"""
    calls = E.s1.ghost.get("ug_calls", ())
    if len(calls) != 1 or calls[0][0] != E["self"].oid:
        return z3.BoolVal(False)
    then, now = calls[0][1].objs[E["self"].oid]["attr:_gpr"], _gpr_now(E, E.s1)
    if not (isinstance(then, VRef) and isinstance(now, VRef)):
        return z3.BoolVal(False)
    same_heap = all(E.eng.heap_arr(calls[0][1], f).eq(E.eng.heap_arr(E.s1, f))
                    for f in ("body", "gpr_genes", "values_n", "values_seq", "ast_tag", "id", "op"))
    return z3.And(then.t == now.t, z3.BoolVal(same_heap))


def _no_update_call(E):
    return z3.BoolVal(E.s1.ghost.get("ug_calls", ()) == ())


def _as_fs(E):
    """the environment of the from_string contract for the call `GPR.from_string(new_rule)`; its result is the new self._gpr"""
    res = _gpr_now(E, E.s1) if E.s1 is not None else None
    return Env({"cls": VClass("GPR"), "string_gpr": E["new_rule"]}, E.s0, E.s1, res=res, eng=E.eng, role="assume")


def _rx_mk_gpr(st):
    return st, VRef(fresh("gpr_after", Ref), "GPR")


RX_MOD = lambda E: FS_MOD(E) + [("attr", E["self"], "_gpr", _rx_mk_gpr), ("ghost", "ug_calls", lambda st: ())]  # noqa


def _grr_cases():
    out = []
    for c in REG.get("GPR.from_string").cases:
        if c.name == "not_a_string":
            n = Case("not_a_string", raises="TypeError", ensures=_no_update_call)
            n.params_override = {"new_rule": TInt()}
            n.applies = lambda a, st: not isinstance(a["new_rule"], (VStr, VConc))
            n.modifies_on_raise = lambda E: []
        else:
            n = Case(c.name, requires=(lambda E, c=c: c.requires(_as_fs(E))),
                     ensures=(lambda E, c=c: z3.And(c.ensures(_as_fs(E)), _one_update_call(E))))
            n.applies = lambda a, st: isinstance(a["new_rule"], (VStr, VConc))
        out.append(n)
    return out


REG.add(Contract(MR, "Reaction.gene_reaction_rule@setter", "C08", [("self", RX_T), ("new_rule", TStr())], _grr_cases(),
                 pre=lambda E: _fs_pre(_as_fs(E)), modifies=RX_MOD, axioms=_fs_axioms, key="Reaction.gene_reaction_rule@setter/text"))
REG.add(Contract(MR, "Reaction.gpr@setter", "C08", [("self", RX_T), ("value", TRef("GPR"))],
                 [Case("any", ensures=lambda E: z3.And(_gpr_now(E, E.s1).t == E["value"].t, _one_update_call(E)))],
                 modifies=lambda E: [("attr", E["self"], "_gpr", _rx_mk_gpr), ("ghost", "ug_calls", lambda st: ())],
                 key="Reaction.gpr@setter/text"))
REG.add(Contract(MR, "Reaction.gene_reaction_rule@getter", "C08", [("self", RX_T)],
                 [Case("any", ensures=lambda E: E.res.t == rule_text(*h6(E, E.s0), _gpr_now(E, E.s0).t))],
                 key="Reaction.gene_reaction_rule@getter/text", result="id"))


# ================================================================ lemmas
text_sem = z3.Function("gpr_text_sem", Id, IdSet, z3.BoolSort())     # the Boolean and/or value of the ORIGINAL rule text, genes in K absent
text_names = z3.Function("gpr_text_names", Id, IdSet)                # the gene identifiers occurring in the original text
text_ok = z3.Function("gpr_text_in_grammar", Id, z3.BoolSort())      # non-blank text of the grammar of the statement


def escaping_is_faithful(s, K):
    """T2 - the STRING-LEVEL assumption about the escaping pipeline (tested exhaustively on small texts by the bounded driver, not
    proved): for a text s of the grammar, either the escaped text text0(s) is accepted by CPython and is a rule over escaped
    identifiers with the value and the identifiers of s, or it is rejected, contains AND / OR, and the same holds for text1(s)"""
    k = z3.Const("t2k", Id)

    def same(e):
        return z3.And(py_parses(e), esc_rule(e), esc_sem(e, K) == text_sem(s, K), z3.ForAll([k], esc_names(e)[k] == text_names(s)[k]))
    return z3.Implies(text_ok(s), z3.And(str_strip(s) != id_lit(""),
                                         z3.Or(same(text0(s)), z3.And(z3.Not(py_parses(text0(s))), has_upper(s), same(text1(s))))))


def lemmas():
    from pyvc.engine import Obl
    out = []
    # ---- (1) an expression tree ignores the `body` field: induction steps of the three axioms of more_tree_axioms
    tg, nid, op = z3.Const("e_tag", RefInt), z3.Const("e_id", RefId), z3.Const("e_op", RefRef)
    VN, VS, BD, BD2 = z3.Const("e_VN", RefInt), z3.Const("e_VS", RefSeq), z3.Const("e_BD", RefRef), z3.Const("e_BD2", RefRef)
    t, K, i, k = z3.Const("e_t", Ref), z3.Const("e_K", IdSet), z3.Int("e_i"), z3.Const("e_k", Id)
    h, g = (VN, VS, BD), (VN, VS, BD2)

    def claim(x):
        return z3.And(wfh(*g, x), semh(*g, x, K) == semh(*h, x, K), z3.ForAll([k], names(*g, x)[k] == names(*h, x)[k],
                                                                              patterns=[names(*g, x)[k], names(*h, x)[k]]))
    kid = VS[t][i]
    hyp = V.tree_axioms_arr(tg, nid, op, at=t) + V.names_axioms_arr(tg, nid, at=t) + [
        t != NULL, is_expr_tag(tg, t), wfh(*h, t),
        # induction hypothesis: the claim for every child (children of a well-formed BoolOp are well-formed expression nodes)
        z3.ForAll([i], z3.Implies(z3.And(0 <= i, i < VN[t]), claim(kid)), patterns=[kid])]
    kinds = [("Name", tg[t] == T_NAME), ("Or", z3.And(tg[t] == T_BOOLOP, tg[op[t]] == T_OR)), ("And", z3.And(tg[t] == T_BOOLOP, tg[op[t]] == T_AND))]
    for nm, c in kinds:
        out.append(Obl(f"C08/lemma/expr-tree-ignores-body/induction-step/{nm}/wf", hyp + [c], wfh(*g, t), "lemma"))
        out.append(Obl(f"C08/lemma/expr-tree-ignores-body/induction-step/{nm}/value", hyp + [c], semh(*g, t, K) == semh(*h, t, K), "lemma"))
        out.append(Obl(f"C08/lemma/expr-tree-ignores-body/induction-step/{nm}/names", hyp + [c], names(*g, t)[k] == names(*h, t)[k], "lemma"))
    out.append(Obl("C08/lemma/expr-tree-ignores-body/induction-step/kinds-cover", hyp, z3.Or(*[c for _, c in kinds]), "lemma"))
    # ---- (2) from the proved cases of GPR.from_string and the string-level assumption T2: a text of the grammar gives a rule with
    # the value and the genes of the ORIGINAL text
    s, gg = z3.Const("f_s", Id), z3.Const("f_g", Ref)
    P0, P1, ne = py_parses(text0(s)), py_parses(text1(s)), str_strip(s) != id_lit("")

    def rule_of(e):
        return z3.And(BD[gg] != NULL, semh(*h, gg, K) == esc_sem(e, K), z3.ForAll([k], names(*h, gg)[k] == esc_names(e)[k]))
    hyp2 = [escaping_is_faithful(s, K), text_ok(s),
            z3.Implies(z3.And(ne, P0), rule_of(text0(s))),                                   # case accepted
            z3.Implies(z3.And(ne, z3.Not(P0), has_upper(s), P1), rule_of(text1(s)))]         # case accepted_after_lowering_AND_OR
    out.append(Obl("C08/lemma/from_string/value-and-genes-of-the-original-text", hyp2,
                   z3.And(BD[gg] != NULL, semh(*h, gg, K) == text_sem(s, K), names(*h, gg)[k] == text_names(s)[k]), "lemma"))
    return out


def all_lemmas():
    return V.all_lemmas() + lemmas()


KEYS_RX = ["GPR.__init__", "GPR.from_string", "GPR.to_string", "Reaction.gene_reaction_rule@setter/text", "Reaction.gpr@setter/text",
           "Reaction.gene_reaction_rule@getter/text"]
KEYS_FSYM = ["GPR.from_symbolic"]
